"""Canonical form of the arithmetic inside an obligation's DAG (used by the CAM16 forward differential, C16).

palette and the reference transcription of a published model compute the same real quantities with the floating constants
grouped differently ((F_L D_R / 100) (m . xyz) against F_L |D_R (m . xyz)| / 100, ...). The values agree to ~1e-16 relative, but
`powf`, `cos`, `atan2` are uninterpreted for z3: unless their ARGUMENTS are recognisably the same term the two sides share no
function application and nothing can be decided. This pass rewrites the DAG so that they are:

* ring arithmetic (+, -, *, constant division, small powi) is expanded into a polynomial over atoms (variables and the
  canonicalised non-ring nodes) with exact rational coefficients, and written back in one deterministic shape (monomials
  sorted, coefficients rounded to 12 significant digits, coefficients below 1e-13 of the largest dropped);
* a quotient p / q with a non-constant denominator is made monic (both divided by the leading coefficient of q);
* positive constant factors are moved out of abs, signum, sqrt and constant-exponent pow:
  |g p| = |g| |p|, signum(g p) = sign(g) signum(p), sqrt(g p) = sqrt(g) sqrt(p), (g p)^e = g^e p^e (g > 0; real identities on
  p >= 0, which is where the code's sqrt / pow are defined - definedness itself is C07's subject).

Soundness: every step is an identity of real arithmetic except the rounding of coefficients, which perturbs each polynomial by
at most 1e-12 relative to its largest coefficient times the magnitude of its atoms - the same kind of perturbation as the
constant snapping of the encoder (DESIGN.md 9.3), and at least six orders of magnitude below the tolerances of the obligations
that use the pass. The pass, its rules applied and the perturbation bound are recorded in the obligation's evidence.
"""
import struct
from fractions import Fraction

MAX_TERMS = 400


def _f(bits):
    return struct.unpack("<d", struct.pack("<Q", int(bits)))[0]


def _bits(v):
    return str(struct.unpack("<Q", struct.pack("<d", float(v)))[0])


def _round12(x):
    x = float(x)
    return float(f"{x:.12g}")


def _round_exp(x):
    """Constant exponents: 14 significant digits (keeps p * (1/p) within 1e-13 of 1)."""
    return float(f"{float(x):.14g}")


def canonicalise(ob, rational=False):
    old = ob["nodes"]
    new, index, used = [], {}, set()

    def mk(node):
        key = tuple(node)
        if key in index:
            return index[key]
        new.append(list(node))
        index[key] = len(new) - 1
        return len(new) - 1

    def const_node(v):
        return mk(["const", _bits(v)])

    # polynomials: {monomial: Fraction}, monomial = tuple of (atom id, power) sorted by atom id; () = constant term
    def p_const(c):
        return {(): Fraction(c)} if c != 0 else {}

    def p_atom(i):
        n = new[i]
        if n[0] == "const":
            return p_const(Fraction(_f(n[1])))
        return {((i, 1),): Fraction(1)}

    def p_add(a, b, sign=1):
        r = dict(a)
        for m, c in b.items():
            v = r.get(m, 0) + sign * c
            if v == 0:
                r.pop(m, None)
            else:
                r[m] = v
        return r

    def m_mul(m1, m2):
        d = dict(m1)
        for a, e in m2:
            d[a] = d.get(a, 0) + e
        return tuple(sorted(d.items()))

    def p_mul(a, b):
        if len(a) * len(b) > MAX_TERMS:
            return None
        r = {}
        for m1, c1 in a.items():
            for m2, c2 in b.items():
                m = m_mul(m1, m2)
                v = r.get(m, 0) + c1 * c2
                if v == 0:
                    r.pop(m, None)
                else:
                    r[m] = v
        return r

    def p_scale(a, c):
        return {m: v * c for m, v in a.items()} if c != 0 else {}

    def is_const(p):
        return all(m == () for m in p)

    def cval(p):
        return p.get((), Fraction(0))

    def lead(p):
        """Leading monomial (largest in the fixed order) and its coefficient."""
        m = max(p)
        return m, p[m]

    def mat(p):
        """Write a polynomial back as nodes, in one deterministic shape."""
        if not p:
            return const_node(0.0)
        big = max(abs(float(c)) for c in p.values())
        terms = []
        for m in sorted(p):
            c = _round12(p[m])
            if abs(c) < 1e-13 * big:
                used.add("coefficients below 1e-13 of the largest dropped")
                continue
            terms.append((m, c))
        if not terms:
            return const_node(0.0)
        acc = None
        for m, c in terms:
            t = None
            for a, e in m:
                for _ in range(e):
                    t = a if t is None else mk(["mul", t, a])
            if t is None:
                t = const_node(c)
            elif c != 1.0:
                t = mk(["mul", const_node(c), t])
            acc = t if acc is None else mk(["add", acc, t])
        return acc

    def nonneg_atom(at):
        """pow / abs / sqrt / exp results, and input variables whose stated range starts at or above 0."""
        n = new[at]
        if n[0] in ("pow", "abs", "sqrt", "exp"):
            return True
        return n[0] == "var" and float(ob["vars"][int(n[1])]["lo"]) >= 0.0

    def atom_poly(node_id):
        return p_atom(node_id)

    def factor_positive(p):
        """(g, p / g) with g = |leading coefficient| (so that p / g has leading coefficient +-1); None for the zero polynomial."""
        if not p:
            return None
        _, c = lead(p)
        g = abs(c)
        return g, p_scale(p, 1 / g)


    ONE = {(): Fraction(1)}

    def qkey(p):
        return tuple(sorted((m, _round12(c)) for m, c in p.items()))

    def q_norm(P, Q):
        """(P, Q) -> canonical pair: atom powers common to every monomial of P and Q cancelled (valid where those atoms are
        non-zero), Q monic. Q constant -> (P / Q, ONE)."""
        if not P:
            return {}, dict(ONE)
        if not Q:
            return None
        if not is_const(Q):
            common = None
            for m in list(P) + list(Q):
                dm = dict(m)
                if common is None:
                    common = dict(dm)
                else:
                    common = {at: min(e, dm.get(at, 0)) for at, e in common.items()}
                    common = {at: e for at, e in common.items() if e > 0}
                if not common:
                    break
            if common:
                used.add("rational functions: atom powers common to numerator and denominator cancelled (valid where they are non-zero)")
                strip = lambda m: tuple(sorted((at, e - common.get(at, 0)) for at, e in m if e - common.get(at, 0) > 0))
                P = {strip(m): c for m, c in P.items()}
                Q = {strip(m): c for m, c in Q.items()}
        if is_const(Q):
            return p_scale(P, 1 / cval(Q)), dict(ONE)
        _, g = lead(Q)
        return p_scale(P, 1 / g), p_scale(Q, 1 / g)

    def q_add(a, b, sign=1):
        (P1, Q1), (P2, Q2) = a, b
        if qkey(Q1) == qkey(Q2):
            return q_norm(p_add(P1, P2, sign), Q1)
        n1, n2, d = p_mul(P1, Q2), p_mul(P2, Q1), p_mul(Q1, Q2)
        if n1 is None or n2 is None or d is None:
            return None
        return q_norm(p_add(n1, n2, sign), d)

    def q_mul(a, b):
        (P1, Q1), (P2, Q2) = a, b
        n, d = p_mul(P1, P2), p_mul(Q1, Q2)
        if n is None or d is None:
            return None
        return q_norm(n, d)

    def q_div(a, b):
        (P1, Q1), (P2, Q2) = a, b
        if not P2:
            return None
        n, d = p_mul(P1, Q2), p_mul(Q1, P2)
        if n is None or d is None:
            return None
        return q_norm(n, d)

    def q_mat(P, Q):
        """Write a rational function back: (leading coefficient of P) * (P / lead) / Q, one deterministic shape."""
        if is_const(Q):
            return mat(p_scale(P, 1 / cval(Q)))
        if not P:
            return const_node(0.0)
        _, ga = lead(P)
        d = mk(["div", mat(p_scale(P, 1 / ga)), mat(Q)])
        g = _round12(ga)
        return d if g == 1.0 else mk(["mul", const_node(g), d])

    form = {}   # old id -> ("p", poly) | ("q", (P, Q)) rational function (only with rational=True) | ("b", new bool node id)

    def poly_of(i):
        k, v = form[i]
        if k == "q":   # a rational function used where a polynomial is expected: it becomes one atom (times its leading coefficient)
            P, Q = v
            _, ga = lead(P)
            return p_scale(atom_poly(mk(["div", mat(p_scale(P, 1 / ga)), mat(Q)])), ga)
        assert k == "p", (i, old[i])
        return v

    def rat_of(i):
        k, v = form[i]
        return v if k == "q" else (v, dict(ONE))

    def is_q(*ids):
        return rational and any(form[j][0] == "q" for j in ids)

    def set_q(i, r, fallback):
        """Store a rational result (or the fallback polynomial when the expansion was too large)."""
        if r is None:
            form[i] = ("p", fallback())
        elif is_const(r[1]):
            form[i] = ("p", p_scale(r[0], 1 / cval(r[1])))
        else:
            used.add("nested quotients flattened into one rational function (numerator / monic denominator)")
            form[i] = ("q", r)

    def node_of(i):
        k, v = form[i]
        return mat(v) if k == "p" else q_mat(*v) if k == "q" else v

    for i, n in enumerate(old):
        op = n[0]
        if op == "var":
            form[i] = ("p", p_atom(mk(n)))
        elif op == "const":
            form[i] = ("p", p_const(Fraction(_f(n[1]))))
        elif op == "bconst":
            form[i] = ("b", mk(n))
        elif op in ("add", "sub") and is_q(n[1], n[2]):
            sg = 1 if op == "add" else -1
            set_q(i, q_add(rat_of(n[1]), rat_of(n[2]), sg), lambda: p_add(poly_of(n[1]), poly_of(n[2]), sg))
        elif op in ("add", "sub"):
            form[i] = ("p", p_add(poly_of(n[1]), poly_of(n[2]), 1 if op == "add" else -1))
        elif op == "neg" and is_q(n[1]):
            P, Q = rat_of(n[1])
            form[i] = ("q", (p_scale(P, -1), Q))
        elif op == "neg":
            form[i] = ("p", p_scale(poly_of(n[1]), -1))
        elif op == "mul" and is_q(n[1], n[2]):
            set_q(i, q_mul(rat_of(n[1]), rat_of(n[2])), lambda: atom_poly(mk(["mul", node_of(n[1]), node_of(n[2])])))
        elif op == "div" and rational and (form[n[1]][0] == "q" or form[n[2]][0] == "q" or not is_const(poly_of(n[2]))) and rat_of(n[2])[0]:
            set_q(i, q_div(rat_of(n[1]), rat_of(n[2])), lambda: atom_poly(mk(["div", node_of(n[1]), node_of(n[2])])))
        elif op == "mul":
            r = p_mul(poly_of(n[1]), poly_of(n[2]))
            if r is None:
                r = atom_poly(mk(["mul", node_of(n[1]), node_of(n[2])]))
            form[i] = ("p", r)
        elif op == "div":
            a, b = poly_of(n[1]), poly_of(n[2])
            if is_const(b) and cval(b) != 0:
                form[i] = ("p", p_scale(a, 1 / cval(b)))
            elif not b:
                form[i] = ("p", atom_poly(mk(["div", mat(a), mat(b)])))
            else:
                _, g = lead(b)
                used.add("quotients made monic")
                a, b = p_scale(a, 1 / g), p_scale(b, 1 / g)
                if len(b) == 1 and a:
                    # single-monomial denominator: cancel the atom powers it shares with every monomial of the numerator
                    (bm, bc), = b.items()
                    common = dict(bm)
                    for m in a:
                        dm = dict(m)
                        for at in list(common):
                            common[at] = min(common[at], dm.get(at, 0))
                    common = {at: e for at, e in common.items() if e > 0}
                    if common:
                        used.add("common atom powers cancelled against a single-monomial denominator (valid where it is non-zero)")
                        strip = lambda m: tuple(sorted((at, e - common.get(at, 0)) for at, e in m if e - common.get(at, 0) > 0))
                        a = {strip(m): c for m, c in a.items()}
                        b = {strip(bm): bc}
                    if is_const(b):
                        form[i] = ("p", p_scale(a, 1 / cval(b)))
                        continue
                if a:
                    _, ga = lead(a)
                    quot = atom_poly(mk(["div", mat(p_scale(a, 1 / ga)), mat(b)]))
                    form[i] = ("p", p_scale(quot, ga))
                else:
                    form[i] = ("p", {})
        elif op == "powi":
            e = int(n[2])
            a = poly_of(n[1])
            if 0 <= e <= 4:
                r = p_const(1)
                for _ in range(e):
                    r = p_mul(r, a) if r is not None else None
                form[i] = ("p", r if r is not None else atom_poly(mk(["powi", mat(a), e])))
            else:
                form[i] = ("p", atom_poly(mk(["powi", mat(a), e])))
        elif op in ("abs", "signum") and is_q(n[1]):
            P, Q = rat_of(n[1])
            _, ga = lead(P)
            g = abs(ga)
            used.add("positive constant factors moved out of abs / signum / sqrt / pow")
            inner = atom_poly(mk([op, q_mat(p_scale(P, 1 / g), Q)]))
            form[i] = ("p", p_scale(inner, g) if op == "abs" else inner)
        elif op == "pow" and is_q(n[1]) and is_const(poly_of(n[2])):
            P, Q = rat_of(n[1])
            ev = float(cval(poly_of(n[2])))
            _, ga = lead(P)
            g = abs(ga)
            used.add("positive constant factors moved out of abs / signum / sqrt / pow")
            inner = atom_poly(mk(["pow", q_mat(p_scale(P, 1 / g), Q), const_node(_round_exp(ev))]))
            form[i] = ("p", p_scale(inner, Fraction(float(g) ** ev)))
        elif op in ("abs", "signum", "sqrt"):
            a = poly_of(n[1])
            if is_const(a):
                c = float(cval(a))
                v = abs(c) if op == "abs" else (1 if c >= 0 else -1) if op == "signum" else (c ** 0.5 if c >= 0 else None)
                form[i] = ("p", p_const(Fraction(v)) if v is not None else atom_poly(mk([op, mat(a)])))
                continue
            g, q = factor_positive(a)
            used.add("positive constant factors moved out of abs / signum / sqrt / pow")
            if op == "sqrt" and len(q) == 1:
                (qm, qc), = q.items()
                if qc > 0 and qm and all(e % 2 == 0 and nonneg_atom(at) for at, e in qm):
                    used.add("sqrt of an even power of non-negative atoms (pow, abs, sqrt, exp results, variables with a non-negative range) taken exactly")
                    form[i] = ("p", {tuple((at, e // 2) for at, e in qm): Fraction(float(g * qc) ** 0.5)})
                    continue
            inner = atom_poly(mk([op, mat(q)]))
            if op == "abs":
                form[i] = ("p", p_scale(inner, g))
            elif op == "signum":
                form[i] = ("p", inner)
            else:
                form[i] = ("p", p_scale(inner, Fraction(float(g) ** 0.5)))
        elif op == "pow":
            a, e = poly_of(n[1]), poly_of(n[2])
            if is_const(e) and not is_const(a) and a:
                ev = float(cval(e))
                _, c = lead(a)
                if c > 0:
                    g, q = factor_positive(a)
                    used.add("positive constant factors moved out of abs / signum / sqrt / pow")
                    # (x^p)^e = x^(p e) for a single pow atom (x >= 0 where it is defined); p e within 1e-11 of 1 counts as 1
                    if len(q) == 1:
                        (qm, qc), = q.items()
                        if qc == 1 and len(qm) == 1 and new[qm[0][0]][0] == "pow" and new[new[qm[0][0]][2]][0] == "const":
                            at, k = qm[0]
                            base, pe = new[at][1], _f(new[new[at][2]][1])
                            tot = pe * k * ev
                            used.add("(x^p)^e = x^(p e) on a pow atom")
                            if abs(tot - 1.0) < 1e-11:
                                form[i] = ("p", p_scale(p_atom(base), Fraction(float(g) ** ev)))
                            else:
                                form[i] = ("p", p_scale(atom_poly(mk(["pow", base, const_node(_round_exp(tot))])), Fraction(float(g) ** ev)))
                            continue
                    inner = atom_poly(mk(["pow", mat(q), const_node(_round_exp(ev))]))
                    form[i] = ("p", p_scale(inner, Fraction(float(g) ** ev)))
                    continue
            if is_const(e) and is_const(a) and cval(a) > 0:
                form[i] = ("p", p_const(Fraction(float(cval(a)) ** float(cval(e)))))
                continue
            form[i] = ("p", atom_poly(mk(["pow", mat(a), const_node(_round_exp(cval(e))) if is_const(e) else mat(e)])))
        elif op == "cbrt":
            a = poly_of(n[1])
            if is_const(a):
                c = float(cval(a))
                form[i] = ("p", p_const(Fraction(abs(c) ** (1.0 / 3.0) * (1 if c >= 0 else -1))))
            else:
                # cbrt(g p) = cbrt(g) cbrt(p) for every real g > 0 and every real p (the cube root is odd and multiplicative)
                g, q = factor_positive(a)
                used.add("positive constant factors moved out of cbrt")
                form[i] = ("p", p_scale(atom_poly(mk(["cbrt", mat(q)])), Fraction(float(g) ** (1.0 / 3.0))))
        elif op in ("lt", "le", "eq"):
            form[i] = ("b", mk([op, node_of(n[1]), node_of(n[2])]))
        elif op in ("and", "or"):
            form[i] = ("b", mk([op, node_of(n[1]), node_of(n[2])]))
        elif op == "not":
            form[i] = ("b", mk(["not", node_of(n[1])]))
        elif op == "ite":
            form[i] = ("p", atom_poly(mk(["ite", node_of(n[1]), node_of(n[2]), node_of(n[3])])))
        elif op in ("sin", "cos"):
            # periodicity: a term (2 pi to 12 digits) * m * (integer-valued atom: floor / ceil / round result) is dropped from the argument
            a = dict(poly_of(n[1]))
            for m, c in list(a.items()):
                if len(m) == 1 and m[0][1] == 1 and new[m[0][0]][0] in ("floor", "ceil", "round"):
                    turns = float(c) / 6.283185307179586
                    if abs(turns - round(turns)) < 1e-11 * max(1.0, abs(turns)) and round(turns) != 0:
                        used.add("integer multiples of 2 pi (to 1e-11) times an integer-valued atom dropped from sin / cos arguments")
                        del a[m]
            form[i] = ("p", atom_poly(mk([op, mat(a)])))
        else:   # min max cbrt exp ln tan asin acos atan atan2 floor ceil round
            form[i] = ("p", atom_poly(mk([op] + [node_of(x) for x in n[1:]])))

    remap = {}

    def R(i):
        if i not in remap:
            remap[i] = node_of(i)
        return remap[i]

    for p in ob["paths"]:
        p["pc"] = [[R(c), t] for c, t in p["pc"]]
        p["assume"] = [R(x) for x in p["assume"]]
        p["goals"] = [[g[0], R(g[1])] + list(g[2:]) for g in p["goals"]]
    if ob.get("partial"):
        ob["partial"] = [[k, [R(x) for x in ops], R(pc), run] for k, ops, pc, run in ob["partial"]]
    for key in ("m_outputs", "f_outputs"):
        if ob.get(key):
            ob[key] = [[nm, R(i)] for nm, i in ob[key]]
    ob["nodes"] = new
    return sorted(used)
