"""Numeric (f64) evaluation of a term DAG: used for reachability witnesses (which path does a concrete input take) and for
evaluating the mask-generic (SIMD) DAG at a solver model."""
import math, struct


def evaluate(nodes, varvals, roots=None):
    val = [None] * len(nodes)
    need = None
    if roots is not None:
        need, stack = set(), list(roots)
        while stack:
            i = stack.pop()
            if i in need:
                continue
            need.add(i)
            n = nodes[i]
            if n[0] in ("var", "const", "bconst"):
                continue
            stack.extend(n[1:2] if n[0] == "powi" else n[1:])
    for i, n in enumerate(nodes):
        if need is not None and i not in need:
            continue
        op = n[0]
        try:
            if op == "var":
                v = float(varvals[n[1]])
            elif op == "const":
                v = struct.unpack("<d", struct.pack("<Q", int(n[1])))[0]
            elif op == "bconst":
                v = bool(n[1])
            elif op == "powi":
                v = val[n[1]] ** int(n[2])
            else:
                a = [val[x] for x in n[1:]]
                if op == "add": v = a[0] + a[1]
                elif op == "sub": v = a[0] - a[1]
                elif op == "mul": v = a[0] * a[1]
                elif op == "div": v = a[0] / a[1] if a[1] != 0 else (math.nan if a[0] == 0 else math.copysign(math.inf, a[0]) * math.copysign(1, a[1]))
                elif op == "neg": v = -a[0]
                elif op == "min": v = min(a[0], a[1])
                elif op == "max": v = max(a[0], a[1])
                elif op == "abs": v = abs(a[0])
                elif op == "sqrt": v = math.sqrt(a[0]) if a[0] >= 0 else math.nan
                elif op == "cbrt": v = math.copysign(abs(a[0]) ** (1.0 / 3.0), a[0])
                elif op == "pow": v = a[0] ** a[1] if a[0] >= 0 else math.nan
                elif op == "exp": v = math.exp(a[0])
                elif op == "ln": v = math.log(a[0]) if a[0] > 0 else math.nan
                elif op == "sin": v = math.sin(a[0])
                elif op == "cos": v = math.cos(a[0])
                elif op == "tan": v = math.tan(a[0])
                elif op == "asin": v = math.asin(a[0])
                elif op == "acos": v = math.acos(a[0])
                elif op == "atan": v = math.atan(a[0])
                elif op == "atan2": v = math.atan2(a[0], a[1])
                elif op == "floor": v = float(math.floor(a[0]))
                elif op == "ceil": v = float(math.ceil(a[0]))
                elif op == "round": v = float(math.floor(abs(a[0]) + 0.5)) * (1 if a[0] >= 0 else -1)
                elif op == "signum": v = 1.0 if a[0] >= 0 else -1.0
                elif op == "ite": v = a[1] if a[0] else a[2]
                elif op == "lt": v = a[0] < a[1]
                elif op == "le": v = a[0] <= a[1]
                elif op == "eq": v = a[0] == a[1]
                elif op == "and": v = bool(a[0]) and bool(a[1])
                elif op == "or": v = bool(a[0]) or bool(a[1])
                elif op == "not": v = not a[0]
                else: raise ValueError(op)
        except (OverflowError, ValueError, ZeroDivisionError, TypeError):
            v = math.nan
        val[i] = v
    return val


def sample_points(vars_, n, seed):
    import random
    rnd = random.Random(seed)
    pts = [[(v["lo"] + v["hi"]) / 2 for v in vars_]]
    for k in range(n):
        p = []
        for v in vars_:
            u = rnd.random()
            if k % 5 == 0:
                u = rnd.choice([0.0, 1.0, 0.5, u, u * 1e-3, 1 - u * 1e-3])
            p.append(v["lo"] + (v["hi"] - v["lo"]) * u)
        pts.append(p)
    return pts
