"""Engine S: z3 over the term DAG produced by instantiating palette's generic code with a symbolic number type.

The Rust crate /verif/symx (path dependency on /repo/palette) executes the real palette functions on `SymM` (symbolic
mask, one DAG with ite: the SIMD code path) or `SymF` (bool mask, one run per decision vector: the scalar code path)
and prints, per obligation, the DAG, the path conditions and the goal terms.  This module turns that into SMT-LIB2
(real arithmetic; sqrt/cbrt algebraic; transcendental functions uninterpreted + ground axioms), asks z3 for an input
that violates a goal, and replays every model natively (f64 and f32) through the same obligation body.
"""
import json, os, re, struct, subprocess, time
from fractions import Fraction
from . import common as C
from . import axioms as AX

CRATE = os.path.join(C.ROOT, "symx")
TARGET = os.path.join(C.BUILD, "symx")
if C.REPO != "/repo":
    import hashlib
    _alt = os.path.join(C.BUILD, "alt_" + hashlib.sha1(C.REPO.encode()).hexdigest()[:8])
    os.makedirs(_alt, exist_ok=True)
    subprocess.run(["rsync", "-a", "--delete", "--exclude", "target", "--exclude", "Cargo.lock", CRATE + "/", os.path.join(_alt, "symx") + "/"], check=True)
    _ct = os.path.join(_alt, "symx", "Cargo.toml")
    _txt = open(_ct).read().replace('path = "/repo/palette"', f'path = "{C.REPO}/palette"')
    open(_ct, "w").write(_txt)
    CRATE = os.path.join(_alt, "symx")
    TARGET = os.path.join(_alt, "symx_target")
BIN = os.path.join(TARGET, "release", "symx")
ENV = dict(os.environ, CARGO_NET_OFFLINE="true", CARGO_TERM_COLOR="never", CARGO_TARGET_DIR=TARGET)
ENV.pop("RUSTFLAGS", None)
Z3 = os.environ.get("PV_Z3", "/usr/bin/z3")
CAP = {"quick": int(os.environ.get("PV_SCAP_QUICK", "150")), "thorough": int(os.environ.get("PV_SCAP_THOROUGH", "1800"))}
JOBS = int(os.environ.get("PV_JOBS", "12"))


def build():
    os.makedirs(C.BUILD, exist_ok=True)
    src, dst = os.path.join(C.REPO, "Cargo.lock"), os.path.join(CRATE, "Cargo.lock")
    try:
        if not os.path.exists(dst) or open(src).read() != open(dst).read():
            import shutil
            shutil.copyfile(src, dst)
    except OSError:
        pass
    p = subprocess.run(["cargo", "build", "--release", "--offline"], cwd=CRATE, env=ENV, capture_output=True, text=True)
    if p.returncode != 0:
        errs = re.findall(r"^error.*(?:\n .*){0,8}", p.stderr, re.M)
        return False, "\n".join(errs[:3]) or p.stderr[-1500:]
    return True, ""


SNAP = os.environ.get("PV_SNAP", "1") == "1"


def simple(f):
    """Constants are read as the simplest rational within 2^-50 (relative) of the f64 the code constructs, e.g. the f64
    nearest to 1/500 is read as 1/500: this keeps algebraic cancellations exact for the solver; the difference
    (<= 1e-15 relative) is far below every tolerance used."""
    if not SNAP or f == 0:
        return f
    g = f.limit_denominator(10 ** 10)
    return g if abs(g - f) <= abs(f) / (1 << 50) else f


def rat(bits):
    v = struct.unpack("<d", struct.pack("<Q", int(bits)))[0]
    f = simple(Fraction(v))
    s = f"(/ {abs(f.numerator)}.0 {f.denominator}.0)" if f.denominator != 1 else f"{abs(f.numerator)}.0"
    return f"(- {s})" if f < 0 else s


def fnum(v):
    f = Fraction(float(v))
    s = f"(/ {abs(f.numerator)}.0 {f.denominator}.0)" if f.denominator != 1 else f"{abs(f.numerator)}.0"
    return f"(- {s})" if f < 0 else s


UF1 = {"exp", "ln", "sin", "cos", "tan", "asin", "acos", "atan"}


class Encoder:
    """SMT-LIB encoding of the cone of influence of a set of root ids."""

    def __init__(self, ob):
        self.ob = ob
        self.nodes = ob["nodes"]
        self.lines = []
        self.done = {}
        self.fresh = 0
        self.uf_apps = []  # (fname, [arg ids], node id)
        self.used_uf = set()

    def simple_exponent(self, idx):
        n = self.nodes[idx]
        if n[0] != "const":
            return None
        v = struct.unpack("<d", struct.pack("<Q", int(n[1])))[0]
        if v <= 0:
            return None
        f = Fraction(v).limit_denominator(3)
        if f.numerator <= 3 and abs(float(f) - v) <= 1e-15 * max(1.0, abs(v)):
            return f
        return None

    def cone(self, roots):
        seen, stack = set(), list(roots)
        while stack:
            i = stack.pop()
            if i in seen:
                continue
            seen.add(i)
            n = self.nodes[i]
            op = n[0]
            if op in ("var", "const", "bconst"):
                continue
            args = n[1:] if op != "powi" else n[1:2]
            stack.extend(args)
        return sorted(seen)

    def name(self, i):
        return self.done[i]

    def encode(self, roots):
        for i in self.cone(roots):
            if i in self.done:
                continue
            n = self.nodes[i]
            op = n[0]
            a = [self.done.get(x) for x in n[1:]] if op not in ("var", "const", "bconst", "powi") else None
            boolean = op in ("bconst", "lt", "le", "eq", "and", "or", "not")
            if op == "var":
                self.done[i] = f"v{n[1]}"
                continue
            if op == "const":
                self.done[i] = rat(n[1])
                continue
            if op == "bconst":
                self.done[i] = "true" if n[1] else "false"
                continue
            if op == "powi":
                x, e = self.done[n[1]], int(n[2])
                if e == 0:
                    expr = "1.0"
                else:
                    expr = x if abs(e) == 1 else "(* " + " ".join([x] * abs(e)) + ")"
                    if e < 0:
                        expr = f"(/ 1.0 {expr})"
            elif op in ("add", "sub", "mul", "div"):
                expr = f"({ {'add': '+', 'sub': '-', 'mul': '*', 'div': '/'}[op]} {a[0]} {a[1]})"
            elif op == "neg":
                expr = f"(- {a[0]})"
            elif op == "min":
                expr = f"(ite (<= {a[0]} {a[1]}) {a[0]} {a[1]})"
            elif op == "max":
                expr = f"(ite (>= {a[0]} {a[1]}) {a[0]} {a[1]})"
            elif op == "abs":
                expr = f"(ite (>= {a[0]} 0.0) {a[0]} (- {a[0]}))"
            elif op == "signum":
                expr = f"(ite (>= {a[0]} 0.0) 1.0 (- 1.0))"
            elif op == "sqrt":
                s = f"sq{i}"
                self.lines.append(f"(declare-const {s} Real)")
                self.lines.append(f"(assert (=> (>= {a[0]} 0.0) (and (>= {s} 0.0) (= (* {s} {s}) {a[0]}))))")
                self.done[i] = s
                continue
            elif op == "cbrt":
                s = f"cb{i}"
                self.lines.append(f"(declare-const {s} Real)")
                self.lines.append(f"(assert (= (* {s} {s} {s}) {a[0]}))")
                self.lines.append(f"(assert (= (>= {s} 0.0) (>= {a[0]} 0.0)))")
                self.done[i] = s
                continue
            elif op == "floor":
                expr = f"(to_real (to_int {a[0]}))"
            elif op == "ceil":
                expr = f"(- (to_real (to_int (- {a[0]}))))"
            elif op == "round":
                expr = f"(ite (>= {a[0]} 0.0) (to_real (to_int (+ {a[0]} 0.5))) (- (to_real (to_int (+ (- {a[0]}) 0.5)))))"
            elif op == "ite":
                expr = f"(ite {a[0]} {a[1]} {a[2]})"
            elif op == "pow" and self.simple_exponent(n[2]) is not None:
                # x^(p/q) with small p, q: exact algebraic encoding  r >= 0, r^q = x^p  (for x >= 0)
                pq = self.simple_exponent(n[2])
                s_ = f"pw{i}"
                self.lines.append(f"(declare-const {s_} Real)")
                lhs = s_ if pq.denominator == 1 else "(* " + " ".join([s_] * pq.denominator) + ")"
                rhs = a[0] if pq.numerator == 1 else "(* " + " ".join([a[0]] * pq.numerator) + ")"
                self.lines.append(f"(assert (=> (>= {a[0]} 0.0) (and (>= {s_} 0.0) (= {lhs} {rhs}))))")
                self.done[i] = s_
                continue
            elif op == "pow":
                self.used_uf.add("pow")
                self.uf_apps.append(("pow", [n[1], n[2]], i))
                expr = f"(pow {a[0]} {a[1]})"
            elif op == "atan2":
                self.used_uf.add("atan2")
                self.uf_apps.append(("atan2", [n[1], n[2]], i))
                expr = f"(atan2 {a[0]} {a[1]})"
            elif op in UF1:
                self.used_uf.add(op)
                self.uf_apps.append((op, [n[1]], i))
                expr = f"(f_{op} {a[0]})"
            elif op == "lt":
                expr = f"(< {a[0]} {a[1]})"
            elif op == "le":
                expr = f"(<= {a[0]} {a[1]})"
            elif op == "eq":
                expr = f"(= {a[0]} {a[1]})"
            elif op == "and":
                expr = f"(and {a[0]} {a[1]})"
            elif op == "or":
                expr = f"(or {a[0]} {a[1]})"
            elif op == "not":
                expr = f"(not {a[0]})"
            else:
                raise ValueError(f"unknown op {op}")
            nm = f"n{i}"
            self.lines.append(f"(define-fun {nm} () {'Bool' if boolean else 'Real'} {expr})")
            self.done[i] = nm

    def header(self):
        h = ["(set-logic ALL)", "(set-option :pp.decimal true)", "(set-option :pp.decimal_precision 17)"]
        for j, v in enumerate(self.ob["vars"]):
            h.append(f"(declare-const v{j} Real)")
            lo, hi = v["lo"], v["hi"]
            if self.ob["prop"] == "C07" and hi > lo:
                # C07's domain: each component exactly on a bound (or exactly zero) or at least 1e-9 x range away from it
                d = 1e-9 * (hi - lo)
                inner = f"(<= {fnum(lo + d)} v{j}) (<= v{j} {fnum(hi - d)})"
                pts = f"(= v{j} {fnum(lo)}) (= v{j} {fnum(hi)})"
                if lo < 0 < hi:
                    pts += f" (= v{j} 0.0)"
                    inner += f" (or (<= v{j} {fnum(-d)}) (>= v{j} {fnum(d)}))"
                h.append(f"(assert (or {pts} (and {inner})))")
            else:
                h.append(f"(assert (and (<= {fnum(lo)} v{j}) (<= v{j} {fnum(hi)})))")
        return h


def parse_values(txt):
    """Parses `((v0 0.5) (v1 (- 0.25?)) ...)` z3 decimal output into floats."""
    out = {}
    for m in re.finditer(r"\((v\d+|[a-z_]+\d*)\s+((?:\([^()]*(?:\([^()]*\)[^()]*)*\))|[^()\s]+)\)", txt):
        k, v = m.group(1), m.group(2)
        try:
            out[k] = eval_sexpr(v)
        except Exception:
            pass
    return out


def eval_sexpr(s):
    s = s.replace("?", "").strip()
    toks = re.findall(r"\(|\)|[^\s()]+", s)

    def parse(i):
        if toks[i] == "(":
            op = toks[i + 1]
            i += 2
            args = []
            while toks[i] != ")":
                v, i = parse(i)
                args.append(v)
            i += 1
            if op == "-":
                return (-args[0] if len(args) == 1 else args[0] - sum(args[1:])), i
            if op == "/":
                return args[0] / args[1], i
            if op == "+":
                return sum(args), i
            if op == "*":
                r = 1.0
                for x in args:
                    r *= x
                return r, i
            if op == "root-obj":
                raise ValueError("algebraic")
            raise ValueError(op)
        return float(toks[i]), i + 1

    return parse(0)[0]


def _z3(script, cap):
    try:
        p = subprocess.run([Z3, "-smt2", "-in", f"-T:{cap}"], input=script, capture_output=True, text=True, timeout=cap + 15)
        return p.stdout
    except subprocess.TimeoutExpired:
        return "timeout"


def run_z3(script, cap):
    """Two-strategy portfolio, sequential: z3's incremental core (forced by a leading `(push)`; it decided most of the
    unsat queries of this code base in well under a second) and then the default non-incremental pipeline (nlsat tactic)."""
    t0 = time.time()
    i = script.rfind("(assert (and true")
    inc = script[:i] + "(push)\n" + script[i:] if i >= 0 else "(push)\n" + script
    out = _z3(inc, max(5, cap // 2))
    first = (out.strip().splitlines() or [""])[0].strip()
    if first not in ("sat", "unsat") and "(error" not in out.replace("model is not available", ""):
        out = _z3(script, cap)
    return out, time.time() - t0


def run_staged(pair, cap):
    """unsat with fewer axioms is unsat with more: try the cheap stage first."""
    first, second = pair
    out, t = run_z3(first, cap if second is None else max(10, cap // 4))
    if second is None or (out.strip().splitlines() or [""])[0].strip() == "unsat":
        return out, t
    out2, t2 = run_z3(second, cap)
    return out2, t + t2


def replay(name, vals, scale=0.9):
    p = subprocess.run([BIN, "replay", name, str(scale)] + [repr(float(v)) for v in vals], capture_output=True, text=True)
    if p.returncode != 0:
        return None, p.stderr[-400:]
    try:
        return json.loads(p.stdout.strip().splitlines()[-1]), ""
    except Exception as e:
        return None, f"{e}: {p.stdout[-300:]}"


def query_script(enc, ob, p, hdr, goal_id=None):
    """One solver query: path condition + assumptions (+ negated goal)."""
    pc = [enc.name(c) if t else f"(not {enc.name(c)})" for c, t in p["pc"]] + [enc.name(x) for x in p["assume"]]
    sc = list(hdr)
    sc.append("(assert (and true " + " ".join(pc) + "))")
    if goal_id is not None:
        sc.append(f"(assert (not {enc.name(goal_id)}))")
    sc.append("(check-sat)")
    if goal_id is not None and ob["vars"]:
        sc.append("(get-value (" + " ".join(f"v{j}" for j in range(len(ob["vars"]))) + "))")
    return "\n".join(sc) + "\n"


def decide_obligation(ob, tier, pool=None):
    """One obligation (all its goals, all its paths); every (path, goal) pair is one solver process with a hard cap."""
    o = C.Obligation(ob["name"], "symx", ob["desc"], ob["functions"],
                     "; ".join(f"{v['name']} in [{v['lo']:g}, {v['hi']:g}]" for v in ob["vars"]) or "constants only",
                     ob["tier"])
    o.extra = {"mode": ob["mode"], "dag_nodes": len(ob["nodes"]), "paths": len(ob["paths"])}
    if ob.get("paths_truncated"):
        o.result, o.detail = C.UNDECIDED, "path enumeration truncated (more than 4096 decision vectors)"
        return o
    if ob["name"].startswith(("c16_forward_vs_published", "c16_inverse_vs_published", "c16_xyz_roundtrip", "c02_xyz_to_oklab_ray", "c01_xyz_oklab_xyz_ray")) or os.environ.get("PV_CANON") == "1":
        from . import canon
        o.extra["dag_nodes_before_canonicalisation"] = len(ob["nodes"])
        o.extra["canonicalisation_rules"] = canon.canonicalise(ob, rational=ob["name"].startswith("c16_inverse_vs_published") or os.environ.get("PV_CANON_RATIONAL") == "1")
        o.extra["canonicalisation_perturbation"] = "polynomial coefficients and constant exponents rounded to 12 significant digits (pv/canon.py)"
    if os.environ.get("PV_POW_REWRITE") == "1":   # experimental (DESIGN.md 9.4, C16): not used by any registered check
        from . import powrw
        o.extra["power_normalisation_rules"] = powrw.rewrite(ob)
        o.extra["dag_nodes_after_normalisation"] = len(ob["nodes"])
    nodes = ob["nodes"]
    goal_names = [g[0] for g in ob["paths"][0]["goals"]]
    cap = CAP[tier]
    results = {}
    enc = Encoder(ob)
    roots = []
    op_result, goal_cone = {}, {}
    for p in ob["paths"]:
        roots += [c for c, _ in p["pc"]] + list(p["assume"]) + [g[1] for g in p["goals"]]
    partial = ob.get("partial") or []
    if ob["prop"] == "C07":
        for e in partial:
            roots += list(e[1]) + [e[2]]
    try:
        enc.encode(roots)
    except Exception as e:  # unknown operator etc.
        o.result, o.detail = C.UNDECIDED, f"encoding failed: {e}"
        return o
    if ob["prop"] == "C07":
        # definedness of every partial operation executed on the path, under the guard it was executed under
        def absx(e):
            return f"(ite (>= {e} 0.0) {e} (- {e}))"
        kinds = set()
        # one goal per partial operation (named by kind and ordinal on its path: the "call site"), each decided in its own
        # cone of influence; a path without the k-th operation of a kind has the trivial goal
        per_path, order = [], []
        # an obligation may restrict itself to a range of the partial operations its code executes (in execution order):
        # a goal named scope_ops_<first>_<last>
        scope = None
        for gn in goal_names:
            m = re.match(r"scope_ops_(\d+)_(\d+)$", gn)
            if m:
                scope = (int(m.group(1)), int(m.group(2)))
                o.extra["partial_operation_scope"] = list(scope)
        node_index = {tuple(n): j for j, n in enumerate(nodes) if n and n[0] in ("div", "sqrt", "ln", "pow", "asin", "acos")}
        for k, p in enumerate(ob["paths"]):
            cnt, goals_k = {}, {}
            ordinal = 0
            for kind, ops, pc, run in partial:
                if run != k and ob["mode"].startswith("scalar"):
                    continue
                ordinal += 1
                if scope and not (scope[0] <= ordinal <= scope[1]):
                    cnt[kind] = cnt.get(kind, 0) + 1
                    continue
                kinds.add(kind)
                a = [enc.name(x) for x in ops]
                g = enc.name(pc)
                if kind == "div":
                    d = f"(and (not (= {a[1]} 0.0)) (<= {absx(a[0])} (* 1000000000000000000000000000000.0 {absx(a[1])})))"
                elif kind == "sqrt":
                    d = f"(>= {a[0]} 0.0)"
                elif kind == "ln":
                    d = f"(> {a[0]} 0.0)"
                elif kind == "pow":
                    d = f"(and (>= {a[0]} 0.0) (or (> {a[0]} 0.0) (> {a[1]} 0.0)))"
                elif kind == "powi_neg":
                    d = f"(not (= {a[0]} 0.0))"
                else:  # asin / acos
                    d = f"(and (<= (- 1.0) {a[0]}) (<= {a[0]} 1.0))"
                cnt[kind] = cnt.get(kind, 0) + 1
                gname = f"defined_{kind}_{cnt[kind]}"
                goals_k[gname] = (f"(=> {g} {d})", list(ops) + [pc])
                op_result.setdefault(gname, set()).add(node_index.get((kind,) + tuple(ops)))
                if gname not in order:
                    order.append(gname)
            per_path.append(goals_k)
        for k, p in enumerate(ob["paths"]):
            for gname in order:
                f, r = per_path[k].get(gname, ("true", []))
                p["goals"].append([gname, f])
                goal_cone[(id(p), gname)] = r
        goal_names += order
        o.extra["partial_operations"] = {"count": len(partial), "kinds": sorted(kinds)}
        enc_name = enc.name
        enc.name = lambda i: i if isinstance(i, str) else enc_name(i)
    pending = []
    for gi, gname in enumerate(goal_names):
        ids = [p["goals"][gi][1] for p in ob["paths"]]
        if all(i == "true" or ((not isinstance(i, str)) and nodes[i] == ["bconst", True]) for i in ids):
            results[gname] = ("pass", "decided by hash-consing / constant folding (no solver query)", None)
        else:
            pending.append((gi, gname))
    axioms, ext_axioms, ax_names = AX.ground_axioms(enc, ob)
    hdr = enc.header() + AX.declarations(enc.used_uf) + enc.lines + axioms
    hdr_ext = hdr + ext_axioms
    os.makedirs(os.path.join(C.BUILD, "smt"), exist_ok=True)
    mapper = pool.map if pool is not None else map
    # phase 1: which paths are feasible at all (also the vacuity check)
    # feasibility / vacuity: a path is live if a concrete sample point takes it (numeric evaluation of its path
    # condition and assumptions: a reachability witness), otherwise the solver is asked (only when goals are pending)
    from . import dageval as DE
    witness = {}
    froots = []
    for p in ob["paths"]:
        froots += [c for c, _ in p["pc"]] + list(p["assume"])
    if ob["vars"]:
        for pt in DE.sample_points(ob["vars"], 300 if len(ob["paths"]) > 1 else 40, C.seed()):
            val = DE.evaluate(nodes, pt, froots)
            for k, p in enumerate(ob["paths"]):
                if k not in witness and all(val[c] is t or val[c] == t for c, t in p["pc"]) and all(val[x] is True for x in p["assume"]):
                    witness[k] = pt
                    if len(ob["paths"]) > 1:
                        break
    else:
        witness = {0: []}
    o.queries = 0
    errors = []
    live = [p for k, p in enumerate(ob["paths"]) if k in witness]
    feasible = len(live)
    unknown = [p for k, p in enumerate(ob["paths"]) if k not in witness]
    if unknown and pending:
        fenc = Encoder(ob)
        fenc.encode(froots)
        fax, fext, _ = AX.ground_axioms(fenc, ob)
        fhdr = fenc.header() + AX.declarations(fenc.used_uf) + fenc.lines + fax + fext
        t0f = time.time()
        for k in range(0, len(unknown), max(1, JOBS)):
            chunk_p = unknown[k:k + max(1, JOBS)]
            if time.time() - t0f > cap * 2:
                live += unknown[k:]       # not decided: keep them live, the goal queries decide
                break
            outs_f = list(mapper(lambda pp: run_z3(query_script(fenc, ob, pp, fhdr), min(cap, 20)), chunk_p))
            o.queries += len(outs_f)
            o.solver_s += sum(t for _, t in outs_f)
            for (out, _), pp in zip(outs_f, chunk_p):
                first = (out.strip().splitlines() or ["timeout"])[0].strip()
                if "(error" in out:
                    errors.append(out[out.index("(error"):][:200])
                elif first == "sat":
                    feasible += 1
                    live.append(pp)
                elif first != "unsat":
                    live.append(pp)
    o.extra["reachability_witness"] = next(iter(witness.values()), None)
    # Differentials against a transcribed published model (C16): z3 proves the unchanged code in well under a second but, once a
    # constant is wrong, runs into its cap looking for a model (the uninterpreted powers are then applied to different
    # arguments). A cheap native look at a few sample points first: a goal that fails there at 0.9 x tolerance in f64 and in
    # f32 is a replayed violation (same acceptance rule as for solver models) and is not sent to the solver; goals that do not
    # fail at the sample points are decided by the solver as usual - the pre-pass never turns anything into a pass.
    if ob["name"].startswith(("c16_forward_vs_published", "c16_inverse_vs_published")) and ob["vars"] and pending:
        tried = 0
        for pt in DE.sample_points(ob["vars"], 12, C.seed() + 2):
            if not pending:
                break
            rp, err = replay(ob["name"], pt)
            tried += 1
            if rp is None or not (rp["f64"]["assume_ok"] and rp["f32"]["assume_ok"]):
                continue
            for gi, g in list(pending):
                if rp["f64"]["goals"].get(g) is False and rp["f32"]["goals"].get(g) is False:
                    results[g] = ("violation", f"inputs {dict(zip([x['name'] for x in ob['vars']], pt))} violate goal '{g}' natively in f64 and f32 "
                                  f"(found by native evaluation at a sample point before the solver was asked) {rp['f64']['show']}", pt)
                    pending.remove((gi, g))
        o.extra["native_falsification_prepass_points"] = tried
    # phase 2: every feasible path x pending goal
    jobs = [(p, gi, gname) for p in live for gi, gname in pending
            if (isinstance(p["goals"][gi][1], str) and p["goals"][gi][1] != "true")
            or (not isinstance(p["goals"][gi][1], str) and nodes[p["goals"][gi][1]] != ["bconst", True])]
    # stage 1: basic axioms; stage 2 (only if stage 1 is not unsat and extended axioms exist): + trigonometric relations
    def job_scripts(p, gi, gname):
        if ob["prop"] == "C07" and gname.startswith("defined_"):
            # private cone of influence: path condition, assumptions and the operands / guard of this one operation
            cenc = Encoder(ob)
            cenc.encode([c for c, _ in p["pc"]] + list(p["assume"]) + goal_cone[(id(p), gname)])
            cax, cext, _ = AX.ground_axioms(cenc, ob)
            chdr = cenc.header() + AX.declarations(cenc.used_uf) + cenc.lines + cax
            cname = cenc.name
            cenc.name = lambda i: i if isinstance(i, str) else cname(i)
            return (query_script(cenc, ob, p, chdr, p["goals"][gi][1]),
                    query_script(cenc, ob, p, chdr + cext, p["goals"][gi][1]) if cext else None)
        return (query_script(enc, ob, p, hdr, p["goals"][gi][1]),
                query_script(enc, ob, p, hdr_ext, p["goals"][gi][1]) if ext_axioms else None)
    scripts = [job_scripts(p, gi, gname) for p, gi, gname in jobs]
    if scripts:
        with open(os.path.join(C.BUILD, "smt", ob["name"] + ".smt2"), "w") as f:
            f.write(scripts[0][1] or scripts[0][0])
    # chunks of solver processes; give up on the obligation (undecided, never "pass") after 3 capped-out queries or
    # when the obligation's wall budget is used up
    outs, t_start, timeouts, chunk = [], time.time(), 0, max(1, JOBS)
    budget = cap * 4
    for k in range(0, len(scripts), chunk):
        if timeouts >= 3 or time.time() - t_start > budget:
            outs += [("timeout (obligation budget exhausted)", 0.0)] * (len(scripts) - len(outs))
            break
        part = list(mapper(lambda sc: run_staged(sc, cap), scripts[k:k + chunk]))
        timeouts += sum(1 for out, _ in part if (out.strip().splitlines() or ["timeout"])[0].strip() not in ("sat", "unsat"))
        outs += part
    o.queries += len(outs)
    o.solver_s += sum(t for _, t in outs)
    goal_res = {g: [] for _, g in pending}
    for (out, _), (p, gi, gname) in zip(outs, jobs):
        lines = [l for l in out.strip().splitlines() if "model is not available" not in l]
        if any("(error" in l for l in lines):
            errors.append([l for l in lines if "(error" in l][0][:200])
            continue
        verdict = lines[0].strip() if lines else "timeout"
        goal_res[gname].append((verdict, "\n".join(lines[1:]), None))
    if errors:
        o.result, o.detail = C.UNDECIDED, "solver error: " + errors[0]
        return o
    o.nontrivial = feasible > 0 or not ob["vars"]
    if ob["vars"] and feasible == 0:
        o.result, o.detail = C.UNDECIDED, "vacuity check: no path with its preconditions is satisfiable (or undecided)"
        return o
    for gi, gname in pending:
        verdicts = goal_res[gname]
        sat = [v for v in verdicts if v[0] == "sat"]
        unk = [v for v in verdicts if v[0] not in ("sat", "unsat")]
        if sat:
            done = False
            for _, model, _ in sat[:3]:
                vals = parse_values(model)
                v = [vals.get(f"v{j}") for j in range(len(ob["vars"]))]
                if any(x is None for x in v):
                    results[gname] = ("undecided", "model with algebraic values could not be parsed: " + model[:200], None)
                    continue
                rp, err = replay(ob["name"], v)
                if rp is None:
                    results[gname] = ("undecided", "replay failed: " + err, None)
                    continue
                if ob["mode"].startswith("simd-vs-scalar"):
                    # scalar path: the real code run natively in f64; SIMD path: numeric evaluation of the recorded DAG
                    from . import dageval as DE2
                    mid = dict((n, i) for n, i in ob["m_outputs"])[gname]
                    mval = DE2.evaluate(nodes, rp["inputs_f64"], [mid])[mid]
                    try:
                        fval = float(rp["f64"]["show"][gname].replace("Some(", "").replace(")", ""))
                    except Exception:
                        fval = float("nan")
                    if abs(mval - fval) > 0.9 * ob["tol"] or mval != mval or fval != fval:
                        results[gname] = ("violation", f"inputs {dict(zip([x['name'] for x in ob['vars']], v))}: SIMD-path value {mval!r} vs scalar-path value {fval!r} for '{gname}'", v)
                        done = True
                        break
                    results[gname] = ("not-reproduced", f"solver model {v}: SIMD-path {mval!r} and native scalar {fval!r} agree", v)
                    continue
                ng = "finite" if gname.startswith("defined_") else gname
                bad64 = rp["f64"]["assume_ok"] and rp["f64"]["goals"].get(ng) is False
                bad32 = rp["f32"]["assume_ok"] and rp["f32"]["goals"].get(ng) is False
                if bad64 and bad32:
                    results[gname] = ("violation", f"inputs {dict(zip([x['name'] for x in ob['vars']], v))} violate goal '{gname}' natively in f64 and f32 {rp['f64']['show']}", v)
                    done = True
                    break
                results[gname] = ("not-reproduced", f"solver model {v} did not reproduce natively (f64 violated: {bad64}, f32 violated: {bad32}): "
                                  f"spurious w.r.t. the real-arithmetic / uninterpreted-function abstraction", v)
            continue
        if unk:
            results[gname] = ("undecided", f"solver answered '{unk[0][0]}' on {len(unk)} path(s) within {cap}s", None)
        else:
            results[gname] = ("pass", "", None)
    # Goals the solver left open (cap hit, or a model that did not replay): look for a counterexample by running the real code
    # natively at the reachability sample points. This can only turn "undecided" into a replayed VIOLATION (same acceptance
    # rule as for solver models: the goal must fail at 0.9 x tolerance in f64 and in f32); it never turns anything into a pass.
    open_goals = [g for g, v in results.items() if v[0] in ("undecided", "not-reproduced") and not g.startswith("defined_")]
    if open_goals and ob["vars"] and not ob["mode"].startswith("simd-vs-scalar"):
        from . import dageval as DE3
        tried = 0
        for pt in DE3.sample_points(ob["vars"], 60, C.seed() + 1):
            if not open_goals:
                break
            rp, err = replay(ob["name"], pt)
            tried += 1
            if rp is None or not (rp["f64"]["assume_ok"] and rp["f32"]["assume_ok"]):
                continue
            for g in list(open_goals):
                if rp["f64"]["goals"].get(g) is False and rp["f32"]["goals"].get(g) is False:
                    results[g] = ("violation", f"inputs {dict(zip([x['name'] for x in ob['vars']], pt))} violate goal '{g}' natively in f64 and f32 "
                                  f"(found by native evaluation at a sample point after the solver left the goal open: {results[g][1][:120]})", pt)
                    open_goals.remove(g)
        o.extra["native_counterexample_search_points"] = tried
    # C07: an operation whose operands are computed from the result of an operation already shown undefined is moot (its
    # input is NaN whatever it does); it is neither a pass nor a separate violation
    if ob["prop"] == "C07":
        broken = set()
        for g, v in results.items():
            if v[0] == "violation":
                broken |= {r for r in op_result.get(g, ()) if r is not None}
        if broken:
            for g, v in list(results.items()):
                if v[0] in ("undecided", "not-reproduced") and g.startswith("defined_"):
                    cone = set()
                    for pth in ob["paths"]:
                        cone |= set(Encoder(ob).cone(goal_cone.get((id(pth), g), [])))
                    if cone & broken:
                        results[g] = ("pass", "moot: consumes the result of an operation shown undefined", None)
                        o.extra.setdefault("moot_goals", []).append(g)
    bad = {k: v for k, v in results.items() if v[0] != "pass"}
    o.extra["goals"] = {k: v[0] for k, v in results.items()}
    o.extra["feasible_paths"] = feasible
    o.extra["axioms"] = ax_names
    if not bad:
        o.result = C.PASS
        return o
    viol = {k: v for k, v in bad.items() if v[0] == "violation"}
    if viol:
        k, v = next(iter(viol.items()))
        d = os.path.join(C.REPLAY, ob["prop"])
        os.makedirs(d, exist_ok=True)
        path = os.path.join(d, f"{ob['name']}.{k}.json")
        with open(path, "w") as f:
            json.dump({"engine": "symx", "obligation": ob["name"], "goal": k, "values": v[2],
                       "vars": [x["name"] for x in ob["vars"]], "detail": v[1]}, f, indent=1)
        o.result, o.replay, o.detail = C.FAIL, path, "; ".join(f"{k}: {v[1]}" for k, v in viol.items())[:900]
        o.violated_goals = sorted(viol)
        o.other_bad = {k: v[1] for k, v in bad.items() if k not in viol}
        return o
    o.result = C.NOT_REPRODUCED if any(v[0] == "not-reproduced" for v in bad.values()) else C.UNDECIDED
    o.detail = "; ".join(f"{k}: {v[1]}" for k, v in bad.items())[:900]
    return o


def decide(prop, tier, only=None):
    ok, err = build()
    if not ok:
        o = C.Obligation(f"{prop.lower()}_symx_build", "symx", "build of the symbolic-instantiation crate against /repo")
        o.result, o.detail = C.UNDECIDED, "symx build failed: " + err
        return [o]
    p = subprocess.run([BIN, "emit", prop, tier], capture_output=True, text=True)
    if p.returncode != 0:
        o = C.Obligation(f"{prop.lower()}_symx_emit", "symx", "symbolic execution of the palette functions")
        o.result, o.detail = C.UNDECIDED, "symx emit failed (panic inside symbolic execution?): " + p.stderr[-600:]
        return [o]
    obs = [json.loads(l) for l in p.stdout.splitlines() if l.startswith("{")]
    if only:
        obs = [ob for ob in obs if any(s in ob["name"] for s in only)]
    s = C.seed()
    if s and obs:
        k = s % len(obs)
        obs = obs[k:] + obs[:k]
    from concurrent.futures import ThreadPoolExecutor
    # two pools: obligations in parallel, and the per-path solver processes of multi-path obligations in parallel
    with ThreadPoolExecutor(max_workers=max(1, JOBS)) as inner, ThreadPoolExecutor(max_workers=4) as outer:
        res = list(outer.map(lambda ob: decide_obligation(ob, tier, inner), obs))
    return res


def replay_file(path):
    ok, err = build()
    d = json.load(open(path))
    rp, err = replay(d["obligation"], d["values"])
    print(json.dumps(rp, indent=1) if rp else err)
    if rp is None:
        return 0
    g = d["goal"]
    bad = all(rp[k]["assume_ok"] and rp[k]["goals"].get(g) is False for k in ("f64", "f32"))
    print("REPRODUCED" if bad else "NOT-REPRODUCED")
    return 1 if bad else 0
