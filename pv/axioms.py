"""Ground instances of sound axioms for the transcendental functions that stay uninterpreted in Engine S.

Every axiom is instantiated only on applications that occur in the DAG; the list of axiom schemes used is returned and
printed in the evidence (it is part of the trusted base).  All schemes are true statements about the real functions
(pow on non-negative bases, exp, ln, sin, cos, atan2 ...); constants are handled with outward-rounded enclosures.
"""
import struct
from fractions import Fraction


def cval(nodes, i):
    n = nodes[i]
    if n[0] == "const":
        return struct.unpack("<d", struct.pack("<Q", int(n[1])))[0]
    return None


def declarations(used):
    d = []
    if "pow" in used:
        d.append("(declare-fun pow (Real Real) Real)")
    if "atan2" in used:
        d.append("(declare-fun atan2 (Real Real) Real)")
    for f in ("exp", "ln", "sin", "cos", "tan", "asin", "acos", "atan"):
        if f in used:
            d.append(f"(declare-fun f_{f} (Real) Real)")
    return d


def fr(v):
    f = Fraction(float(v))
    s = f"(/ {abs(f.numerator)}.0 {f.denominator}.0)" if f.denominator != 1 else f"{abs(f.numerator)}.0"
    return f"(- {s})" if f < 0 else s


def ground_axioms(enc, ob):
    nodes = ob["nodes"]
    N = enc.name
    ax, names = [], set()

    def add(name, s):
        ax.append(f"(assert {s})")
        names.add(name)

    pows = [(a, i) for f, a, i in enc.uf_apps if f == "pow"]
    for (x, p), i in pows:
        pv = cval(nodes, p)
        X, P, R = N(x), N(p), N(i)
        if pv is None:
            add("pow: non-negative base gives non-negative result", f"(=> (>= {X} 0.0) (>= {R} 0.0))")
            continue
        add("pow(x,p) >= 0 for x >= 0", f"(=> (>= {X} 0.0) (>= {R} 0.0))")
        add("pow(1,p) = 1", f"(=> (= {X} 1.0) (= {R} 1.0))")
        if pv > 0:
            add("pow(0,p) = 0 for p > 0", f"(=> (= {X} 0.0) (= {R} 0.0))")
            add("pow(x,p) > 0 for x > 0", f"(=> (> {X} 0.0) (> {R} 0.0))")
            add("0 <= x <= 1, p > 0 => 0 <= pow(x,p) <= 1", f"(=> (and (>= {X} 0.0) (<= {X} 1.0)) (<= {R} 1.0))")
            add("x >= 1, p > 0 => pow(x,p) >= 1", f"(=> (>= {X} 1.0) (>= {R} 1.0))")
            # comparison with the identity: concave / convex side
            if pv < 1:
                add("p < 1: pow(x,p) >= x on [0,1], <= x on [1,inf)", f"(and (=> (and (>= {X} 0.0) (<= {X} 1.0)) (>= {R} {X})) (=> (>= {X} 1.0) (<= {R} {X})))")
            elif pv > 1:
                add("p > 1: pow(x,p) <= x on [0,1], >= x on [1,inf)", f"(and (=> (and (>= {X} 0.0) (<= {X} 1.0)) (<= {R} {X})) (=> (>= {X} 1.0) (>= {R} {X})))")
        # inverse / composition: pow(pow(y,q),p) = pow(y,q*p)
        nx = nodes[x]
        if nx[0] == "pow":
            qv = cval(nodes, nx[2])
            if qv is not None and abs(qv * pv - 1.0) < 1e-12:
                add("pow(pow(y,q),p) = y for y >= 0 when q*p = 1 (to 1e-12)", f"(=> (>= {N(nx[1])} 0.0) (= {R} {N(nx[1])}))")
    # strict monotonicity between applications with the same constant exponent
    for a in range(len(pows)):
        for b in range(a + 1, len(pows)):
            (x1, p1), i1 = pows[a]
            (x2, p2), i2 = pows[b]
            v1, v2 = cval(nodes, p1), cval(nodes, p2)
            if v1 is not None and v1 == v2 and v1 > 0:
                add("pow strictly monotone in a non-negative base (same positive exponent)",
                    f"(=> (and (>= {N(x1)} 0.0) (>= {N(x2)} 0.0)) (and (= (< {N(x1)} {N(x2)}) (< {N(i1)} {N(i2)})) (= (= {N(x1)} {N(x2)}) (= {N(i1)} {N(i2)}))))")
            elif v1 is not None and v2 is not None and abs(v1 * v2 - 1.0) < 1e-12 and v1 > 0:
                # y = pow(x,p) <=> x = pow(y,1/p)
                add("pow(x,p) = y <=> pow(y,1/p) = x on non-negative reals",
                    f"(=> (and (>= {N(x1)} 0.0) (>= {N(x2)} 0.0)) (= (= {N(i1)} {N(x2)}) (= {N(i2)} {N(x1)})))")
                add("order form of the inverse pair: pow(x,p) < y <=> x < pow(y,1/p)",
                    f"(=> (and (>= {N(x1)} 0.0) (>= {N(x2)} 0.0)) (= (< {N(i1)} {N(x2)}) (< {N(x1)} {N(i2)})))")
    # Lipschitz bounds between applications with the same constant exponent (mean value theorem on a guarded range):
    #   p >= 1: |x^p - y^p| <= p M^(p-1) |x - y|  for 0 <= x, y <= M ;  p < 1: |x^p - y^p| <= p m^(p-1) |x - y|  for x, y >= m
    for a in range(len(pows)):
        for b in range(a + 1, len(pows)):
            (x1, p1), i1 = pows[a]
            (x2, p2), i2 = pows[b]
            v1, v2 = cval(nodes, p1), cval(nodes, p2)
            if v1 is None or v1 != v2 or v1 <= 0 or x1 == x2:
                continue
            d = f"(- {N(x1)} {N(x2)})"
            dr = f"(- {N(i1)} {N(i2)})"
            absd = f"(ite (>= {d} 0.0) {d} (- {d}))"
            absr = f"(ite (>= {dr} 0.0) {dr} (- {dr}))"
            if v1 >= 1:
                M = 4.0
                L = v1 * M ** (v1 - 1) * 1.0000001
                add("pow Lipschitz on [0,4] for exponent >= 1 (mean value theorem)",
                    f"(=> (and (>= {N(x1)} 0.0) (>= {N(x2)} 0.0) (<= {N(x1)} {fr(M)}) (<= {N(x2)} {fr(M)})) (<= {absr} (* {fr(L)} {absd})))")
            else:
                for m in (1e-3, 1e-6):
                    L = v1 * m ** (v1 - 1) * 1.0000001
                    add("pow Lipschitz on [m,inf) for exponent < 1 (mean value theorem), m = 1e-3 and 1e-6",
                        f"(=> (and (>= {N(x1)} {fr(m)}) (>= {N(x2)} {fr(m)})) (<= {absr} (* {fr(L)} {absd})))")
    apps = {}
    for f, a, i in enc.uf_apps:
        apps.setdefault(f, []).append((a, i))
    for (x,), i in apps.get("exp", []):
        add("exp > 0", f"(> {N(i)} 0.0)")
        add("exp(x) >= 1 + x", f"(>= {N(i)} (+ 1.0 {N(x)}))")
        add("exp(0) = 1", f"(=> (= {N(x)} 0.0) (= {N(i)} 1.0))")
        if nodes[x][0] == "ln":
            add("exp(ln y) = y for y > 0", f"(=> (> {N(nodes[x][1])} 0.0) (= {N(i)} {N(nodes[x][1])}))")
    for (x,), i in apps.get("ln", []):
        add("ln(1) = 0", f"(=> (= {N(x)} 1.0) (= {N(i)} 0.0))")
        add("ln(x) <= x - 1", f"(=> (> {N(x)} 0.0) (<= {N(i)} (- {N(x)} 1.0)))")
        add("sign of ln", f"(=> (> {N(x)} 0.0) (= (>= {N(i)} 0.0) (>= {N(x)} 1.0)))")
        if nodes[x][0] == "exp":
            add("ln(exp y) = y", f"(= {N(i)} {N(nodes[x][1])})")
    for fn in ("exp", "ln"):
        l = apps.get(fn, [])
        for a in range(len(l)):
            for b in range(a + 1, len(l)):
                (x1,), i1 = l[a]
                (x2,), i2 = l[b]
                guard = "true" if fn == "exp" else f"(and (> {N(x1)} 0.0) (> {N(x2)} 0.0))"
                add(f"{fn} strictly monotone", f"(=> {guard} (= (< {N(x1)} {N(x2)}) (< {N(i1)} {N(i2)})))")
    sins = {a[0]: i for a, i in apps.get("sin", [])}
    coss = {a[0]: i for a, i in apps.get("cos", [])}
    for x, i in sins.items():
        add("|sin| <= 1", f"(and (<= (- 1.0) {N(i)}) (<= {N(i)} 1.0))")
        if x in coss:
            add("sin^2 + cos^2 = 1", f"(= (+ (* {N(i)} {N(i)}) (* {N(coss[x])} {N(coss[x])})) 1.0)")
    for x, i in coss.items():
        add("|cos| <= 1", f"(and (<= (- 1.0) {N(i)}) (<= {N(i)} 1.0))")
    for (y, x), i in apps.get("atan2", []):
        add("atan2 in [-pi, pi]", f"(and (<= (- 3.1415926535897936) {N(i)}) (<= {N(i)} 3.1415926535897936))")
    return ax, sorted(names)
