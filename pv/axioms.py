"""Ground instances of sound axioms for the transcendental functions that stay uninterpreted in Engine S.

Every axiom is instantiated only on applications that occur in the DAG; the list of axiom schemes used is returned and
printed in the evidence (it is part of the trusted base).  All schemes are true statements about the real functions
(pow on non-negative bases, exp, ln, sin, cos, atan2 ...); constants are handled with outward-rounded enclosures.
"""
import os
import struct
from fractions import Fraction


def cval(nodes, i):
    n = nodes[i]
    if n[0] == "const":
        return struct.unpack("<d", struct.pack("<Q", int(n[1])))[0]
    return None


def declarations(used):
    d = []
    if "pow" in used:
        d.append("(declare-fun pow (Real Real) Real)")
    if "atan2" in used:
        d.append("(declare-fun atan2 (Real Real) Real)")
    for f in ("exp", "ln", "sin", "cos", "tan", "asin", "acos", "atan"):
        if f in used:
            d.append(f"(declare-fun f_{f} (Real) Real)")
    return d


def fr(v):
    f = Fraction(float(v))
    s = f"(/ {abs(f.numerator)}.0 {f.denominator}.0)" if f.denominator != 1 else f"{abs(f.numerator)}.0"
    return f"(- {s})" if f < 0 else s


def ground_axioms(enc, ob):
    nodes = ob["nodes"]
    N = enc.name
    ax, names = [], set()

    def add(name, s):
        ax.append(f"(assert {s})")
        names.add(name)

    pows = [(a, i) for f, a, i in enc.uf_apps if f == "pow"]
    for (x, p), i in pows:
        pv = cval(nodes, p)
        X, P, R = N(x), N(p), N(i)
        if pv is None:
            add("pow: non-negative base gives non-negative result", f"(=> (>= {X} 0.0) (>= {R} 0.0))")
            continue
        add("pow(x,p) >= 0 for x >= 0", f"(=> (>= {X} 0.0) (>= {R} 0.0))")
        add("pow(1,p) = 1", f"(=> (= {X} 1.0) (= {R} 1.0))")
        if pv > 0:
            add("pow(0,p) = 0 for p > 0", f"(=> (= {X} 0.0) (= {R} 0.0))")
            add("pow(x,p) > 0 for x > 0", f"(=> (> {X} 0.0) (> {R} 0.0))")
            add("0 <= x <= 1, p > 0 => 0 <= pow(x,p) <= 1", f"(=> (and (>= {X} 0.0) (<= {X} 1.0)) (<= {R} 1.0))")
            add("x >= 1, p > 0 => pow(x,p) >= 1", f"(=> (>= {X} 1.0) (>= {R} 1.0))")
            # comparison with the identity: concave / convex side
            if pv < 1:
                add("p < 1: pow(x,p) >= x on [0,1], <= x on [1,inf)", f"(and (=> (and (>= {X} 0.0) (<= {X} 1.0)) (>= {R} {X})) (=> (>= {X} 1.0) (<= {R} {X})))")
            elif pv > 1:
                add("p > 1: pow(x,p) <= x on [0,1], >= x on [1,inf)", f"(and (=> (and (>= {X} 0.0) (<= {X} 1.0)) (<= {R} {X})) (=> (>= {X} 1.0) (>= {R} {X})))")
        # inverse / composition: pow(pow(y,q),p) = pow(y,q*p)
        nx = nodes[x]
        if nx[0] == "pow":
            qv = cval(nodes, nx[2])
            if qv is not None and abs(qv * pv - 1.0) < 1e-12:
                add("pow(pow(y,q),p) = y for y >= 0 when q*p = 1 (to 1e-12)", f"(=> (>= {N(nx[1])} 0.0) (= {R} {N(nx[1])}))")
    # strict monotonicity between applications with the same constant exponent
    for a in range(len(pows)):
        for b in range(a + 1, len(pows)):
            (x1, p1), i1 = pows[a]
            (x2, p2), i2 = pows[b]
            v1, v2 = cval(nodes, p1), cval(nodes, p2)
            if v1 is not None and v1 == v2 and v1 > 0:
                add("pow strictly monotone in a non-negative base (same positive exponent)",
                    f"(=> (and (>= {N(x1)} 0.0) (>= {N(x2)} 0.0)) (and (= (< {N(x1)} {N(x2)}) (< {N(i1)} {N(i2)})) (= (= {N(x1)} {N(x2)}) (= {N(i1)} {N(i2)}))))")
            elif v1 is not None and v2 is not None and abs(v1 * v2 - 1.0) < 1e-12 and v1 > 0:
                # y = pow(x,p) <=> x = pow(y,1/p)
                add("pow(x,p) = y <=> pow(y,1/p) = x on non-negative reals",
                    f"(=> (and (>= {N(x1)} 0.0) (>= {N(x2)} 0.0)) (= (= {N(i1)} {N(x2)}) (= {N(i2)} {N(x1)})))")
                add("order form of the inverse pair: pow(x,p) < y <=> x < pow(y,1/p)",
                    f"(=> (and (>= {N(x1)} 0.0) (>= {N(x2)} 0.0)) (= (< {N(i1)} {N(x2)}) (< {N(x1)} {N(i2)})))")
                # approximate form (the code's constants make the inner value only nearly the other application's result):
                # r2 = pow(x2, q) and pow(r1, q) = x1 (q = 1/p), so |r2 - x1| = |pow(x2,q) - pow(r1,q)| <= Lipschitz * |x2 - r1| (mean value theorem)
                for (xa, ia, xb, ib, q) in ((x1, i1, x2, i2, v2), (x2, i2, x1, i1, v1)) if abs(v1 * v2 - 1.0) < 1e-14 else ():
                    # (p q = 1 to 1e-14: x^(p q) differs from x by less than 1e-13 for x <= 4, inside the 1e-12 slack below)
                    # ib = pow(xb, q), ia = pow(xa, 1/q): compare xb with ia
                    d = f"(- {N(xb)} {N(ia)})"
                    e = f"(- {N(ib)} {N(xa)})"
                    absd = f"(ite (>= {d} 0.0) {d} (- {d}))"
                    abse = f"(ite (>= {e} 0.0) {e} (- {e}))"
                    if q >= 1:
                        L = q * 4.0 ** (q - 1) * 1.000001
                        add("approximate inverse pair (q >= 1): |pow(y,q) - x| <= q 4^(q-1) |y - pow(x,1/q)| + 1e-12 for 0 <= y, pow(x,1/q) <= 4",
                            f"(=> (and (>= {N(xa)} 0.0) (>= {N(xb)} 0.0) (<= {N(xb)} 4.0) (<= {N(ia)} 4.0)) (<= {abse} (+ (* {fr(L)} {absd}) 0.000000000001)))")
                    else:
                        m = 1e-3
                        L = q * m ** (q - 1) * 1.000001
                        add("approximate inverse pair (q < 1): |pow(y,q) - x| <= q m^(q-1) |y - pow(x,1/q)| + 1e-12 for y, pow(x,1/q) >= m = 1e-3, x <= 4",
                            f"(=> (and (>= {N(xa)} 0.0) (<= {N(xa)} 4.0) (>= {N(xb)} {fr(m)}) (>= {N(ia)} {fr(m)})) (<= {abse} (+ (* {fr(L)} {absd}) 0.000000000001)))")
    # scaled approximate inverse pairs: applications r1 = pow(x1, p), r2 = pow(x2, q), p q = 1, where x2 is (numerically, at two sample
    # points) a constant multiple c of r1 although not syntactically so. For ANY constant c > 0 the following is a theorem (mean
    # value theorem for y -> y^q between x2 and c r1, and (c r1)^q = c^q x1^(p q)); the numerical estimate only chooses which
    # instance is worth stating:
    #   q >= 1:  0 <= x2, c r1 <= M  =>  |r2 - c^q x1| <= q M^(q-1) |x2 - c r1| + c^q 1e-9 x1      (0 <= x1 <= 1000)
    #   q <  1:  x2, c r1 >= m       =>  |r2 - c^q x1| <= q m^(q-1) |x2 - c r1| + c^q 1e-9 x1
    if ob.get("vars") and os.environ.get("PV_SCALED_PAIRS", "1") != "0":
        from . import dageval as _DE
        cand = [(a, b) for a in range(len(pows)) for b in range(len(pows)) if a != b]
        pts = _DE.sample_points(ob["vars"], 2, 7)[1:3] if cand else []
        vals = []
        if cand:
            roots = sorted({x for (x, p), i in pows for x in (x, i)})
            for pt in pts:
                try:
                    vals.append(_DE.evaluate(nodes, pt, roots))
                except Exception:
                    vals = []
                    break
        for a, b in (cand if len(vals) == 2 else []):
            (x1, p1), i1 = pows[a]
            (x2, p2), i2 = pows[b]
            v1, v2 = cval(nodes, p1), cval(nodes, p2)
            if v1 is None or v2 is None or v1 <= 0 or abs(v1 * v2 - 1.0) > 1e-13 or x2 == i1:
                continue
            try:
                cs = [float(v[x2]) / float(v[i1]) for v in vals]
            except Exception:
                continue
            if not all(c == c and c > 0 and abs(c) < 1e30 for c in cs) or abs(cs[0] - cs[1]) > 1e-7 * abs(cs[0]):
                continue
            c, q = cs[0], v2
            cq = c ** q
            d = f"(- {N(x2)} (* {fr(c)} {N(i1)}))"
            e = f"(- {N(i2)} (* {fr(cq)} {N(x1)}))"
            absd = f"(ite (>= {d} 0.0) {d} (- {d}))"
            abse = f"(ite (>= {e} 0.0) {e} (- {e}))"
            slack = f"(+ (* {fr(cq * 1e-9)} {N(x1)}) 0.000000000001)"
            if q >= 1:
                M = 4.0
                L = q * M ** (q - 1) * 1.000001
                add("scaled approximate inverse pair (q >= 1): |pow(x2,q) - c^q x1| <= q M^(q-1) |x2 - c pow(x1,1/q)| + c^q 1e-9 x1, any constant c > 0 (chosen numerically)",
                    f"(=> (and (>= {N(x1)} 0.0) (<= {N(x1)} 1000.0) (>= {N(x2)} 0.0) (<= {N(x2)} {fr(M)}) (>= {N(i1)} 0.0) (<= (* {fr(c)} {N(i1)}) {fr(M)})) (<= {abse} (+ (* {fr(L)} {absd}) {slack})))")
            else:
                m = 1e-3
                L = q * m ** (q - 1) * 1.000001
                add("scaled approximate inverse pair (q < 1): |pow(x2,q) - c^q x1| <= q m^(q-1) |x2 - c pow(x1,1/q)| + c^q 1e-9 x1, any constant c > 0 (chosen numerically)",
                    f"(=> (and (>= {N(x1)} 0.0) (<= {N(x1)} 1000.0) (>= {N(x2)} {fr(m)}) (>= (* {fr(c)} {N(i1)}) {fr(m)})) (<= {abse} (+ (* {fr(L)} {absd}) {slack})))")
    # Lipschitz bounds between applications with the same constant exponent (mean value theorem on a guarded range):
    #   p >= 1: |x^p - y^p| <= p M^(p-1) |x - y|  for 0 <= x, y <= M ;  p < 1: |x^p - y^p| <= p m^(p-1) |x - y|  for x, y >= m
    for a in range(len(pows)):
        for b in range(a + 1, len(pows)):
            (x1, p1), i1 = pows[a]
            (x2, p2), i2 = pows[b]
            v1, v2 = cval(nodes, p1), cval(nodes, p2)
            if v1 is None or v1 != v2 or v1 <= 0 or x1 == x2:
                continue
            d = f"(- {N(x1)} {N(x2)})"
            dr = f"(- {N(i1)} {N(i2)})"
            absd = f"(ite (>= {d} 0.0) {d} (- {d}))"
            absr = f"(ite (>= {dr} 0.0) {dr} (- {dr}))"
            if v1 >= 1:
                M = 4.0
                L = v1 * M ** (v1 - 1) * 1.0000001
                add("pow Lipschitz on [0,4] for exponent >= 1 (mean value theorem)",
                    f"(=> (and (>= {N(x1)} 0.0) (>= {N(x2)} 0.0) (<= {N(x1)} {fr(M)}) (<= {N(x2)} {fr(M)})) (<= {absr} (* {fr(L)} {absd})))")
            else:
                for m in (1e-3, 1e-6):
                    L = v1 * m ** (v1 - 1) * 1.0000001
                    add("pow Lipschitz on [m,inf) for exponent < 1 (mean value theorem), m = 1e-3 and 1e-6",
                        f"(=> (and (>= {N(x1)} {fr(m)}) (>= {N(x2)} {fr(m)})) (<= {absr} (* {fr(L)} {absd})))")
    # square roots (algebraic fresh variables): equal radicands give equal roots, and roots are monotone
    sq = [(j, n[1]) for j, n in enumerate(nodes) if n[0] == "sqrt" and j in enc.done and n[1] in enc.done]
    for a in range(len(sq)):
        for b in range(a + 1, len(sq)):
            (j1, r1), (j2, r2) = sq[a], sq[b]
            add("sqrt is a function and monotone: equal / ordered non-negative radicands give equal / ordered roots",
                f"(=> (and (>= {N(r1)} 0.0) (>= {N(r2)} 0.0)) (and (= (= {N(r1)} {N(r2)}) (= {N(j1)} {N(j2)})) (= (< {N(r1)} {N(r2)}) (< {N(j1)} {N(j2)}))))")
    apps = {}
    for f, a, i in enc.uf_apps:
        apps.setdefault(f, []).append((a, i))
    for (x,), i in apps.get("exp", []):
        add("exp > 0", f"(> {N(i)} 0.0)")
        add("exp(x) >= 1 + x", f"(>= {N(i)} (+ 1.0 {N(x)}))")
        add("exp(0) = 1", f"(=> (= {N(x)} 0.0) (= {N(i)} 1.0))")
        if nodes[x][0] == "ln":
            add("exp(ln y) = y for y > 0", f"(=> (> {N(nodes[x][1])} 0.0) (= {N(i)} {N(nodes[x][1])}))")
    for (x,), i in apps.get("ln", []):
        add("ln(1) = 0", f"(=> (= {N(x)} 1.0) (= {N(i)} 0.0))")
        add("ln(x) <= x - 1", f"(=> (> {N(x)} 0.0) (<= {N(i)} (- {N(x)} 1.0)))")
        add("sign of ln", f"(=> (> {N(x)} 0.0) (= (>= {N(i)} 0.0) (>= {N(x)} 1.0)))")
        if nodes[x][0] == "exp":
            add("ln(exp y) = y", f"(= {N(i)} {N(nodes[x][1])})")
    for (t,), e in apps.get("exp", []):
        for (u,), ln_ in apps.get("ln", []):
            add("exp and ln are inverse: t = ln(u) => exp(t) = u ; u = exp(t) => ln(u) = t  (u > 0)",
                f"(and (=> (and (> {N(u)} 0.0) (= {N(t)} {N(ln_)})) (= {N(e)} {N(u)})) (=> (= {N(u)} {N(e)}) (= {N(ln_)} {N(t)})))")
    for fn in ("exp", "ln"):
        l = apps.get(fn, [])
        for a in range(len(l)):
            for b in range(a + 1, len(l)):
                (x1,), i1 = l[a]
                (x2,), i2 = l[b]
                guard = "true" if fn == "exp" else f"(and (> {N(x1)} 0.0) (> {N(x2)} 0.0))"
                add(f"{fn} strictly monotone", f"(=> {guard} (= (< {N(x1)} {N(x2)}) (< {N(i1)} {N(i2)})))")
    sins = {a[0]: i for a, i in apps.get("sin", [])}
    coss = {a[0]: i for a, i in apps.get("cos", [])}
    for x, i in sins.items():
        add("|sin| <= 1", f"(and (<= (- 1.0) {N(i)}) (<= {N(i)} 1.0))")
        if x in coss:
            add("sin^2 + cos^2 = 1", f"(= (+ (* {N(i)} {N(i)}) (* {N(coss[x])} {N(coss[x])})) 1.0)")
    for x, i in coss.items():
        add("|cos| <= 1", f"(and (<= (- 1.0) {N(i)}) (<= {N(i)} 1.0))")
    import math
    PI = math.pi
    basic_len = len(ax)   # everything appended from here on is the extended (trigonometric relation) stage

    def ival(i, memo={}):
        """Crude interval of a node (for error bounds of angle arguments)."""
        key = (id(nodes), i)
        if key in memo:
            return memo[key]
        n = nodes[i]
        op = n[0]
        inf = float("inf")
        r = (-inf, inf)
        if op == "const":
            v = cval(nodes, i)
            r = (v, v)
        elif op == "var":
            v = ob["vars"][n[1]]
            r = (v["lo"], v["hi"])
        elif op in ("add", "sub", "mul"):
            a, b = ival(n[1]), ival(n[2])
            if op == "add":
                r = (a[0] + b[0], a[1] + b[1])
            elif op == "sub":
                r = (a[0] - b[1], a[1] - b[0])
            else:
                c = [x * y for x in a for y in b if not (math.isinf(x) and y == 0) and not (math.isinf(y) and x == 0)]
                r = (min(c), max(c)) if c and not any(math.isnan(x) for x in c) else (-inf, inf)
        elif op == "neg":
            a = ival(n[1])
            r = (-a[1], -a[0])
        elif op == "atan2":
            r = (-PI, PI)
        elif op in ("sin", "cos"):
            r = (-1.0, 1.0)
        elif op in ("min", "max"):
            a, b = ival(n[1]), ival(n[2])
            r = (min(a[0], b[0]), min(a[1], b[1])) if op == "min" else (max(a[0], b[0]), max(a[1], b[1]))
        elif op == "abs":
            a = ival(n[1])
            r = (0.0, max(abs(a[0]), abs(a[1])))
        memo[key] = r
        return r

    def lin(i):
        """(alpha, atom, beta) with node = alpha*atom + beta, atom a non-affine node id (or None)."""
        n = nodes[i]
        op = n[0]
        if op == "const":
            return (0.0, None, cval(nodes, i))
        if op in ("add", "sub"):
            a, b = lin(n[1]), lin(n[2])
            sg = 1.0 if op == "add" else -1.0
            if a[1] is None or b[1] is None or a[1] == b[1]:
                return (a[0] + sg * b[0], a[1] if a[1] is not None else b[1], a[2] + sg * b[2])
            return (1.0, i, 0.0)
        if op == "neg":
            a = lin(n[1])
            return (-a[0], a[1], -a[2])
        if op == "mul":
            ca, cb = cval(nodes, n[1]), cval(nodes, n[2])
            if ca is not None:
                b = lin(n[2])
                return (ca * b[0], b[1], ca * b[2])
            if cb is not None:
                a = lin(n[1])
                return (cb * a[0], a[1], cb * a[2])
        if op == "div":
            cb = cval(nodes, n[2])
            if cb not in (None, 0.0):
                a = lin(n[1])
                return (a[0] / cb, a[1], a[2] / cb)
        return (1.0, i, 0.0)

    def fsin(t):
        enc.used_uf.add("sin")
        return f"(f_sin {t})"

    def fcos(t):
        enc.used_uf.add("cos")
        return f"(f_cos {t})"

    def absle(e, bound):
        return f"(and (<= (- {fr(bound)}) {e}) (<= {e} {fr(bound)}))"

    # (A) defining relations of atan2
    for (y, x), i in apps.get("atan2", []):
        T = N(i)
        add("atan2 in [-pi, pi]", f"(and (<= (- 3.1415926535897936) {T}) (<= {T} 3.1415926535897936))")
        r = f"r_at{i}"
        ax.append(f"(declare-const {r} Real)")
        add("r = hypot(x,y): r cos(atan2(y,x)) = x, r sin(atan2(y,x)) = y, sin^2 + cos^2 = 1, atan2(0,0) = 0",
            f"(and (>= {r} 0.0) (= (* {r} {r}) (+ (* {N(x)} {N(x)}) (* {N(y)} {N(y)}))) (= (* {r} {fcos(T)}) {N(x)}) (= (* {r} {fsin(T)}) {N(y)}) "
            f"(= (+ (* {fsin(T)} {fsin(T)}) (* {fcos(T)} {fcos(T)})) 1.0) (=> (and (= {N(x)} 0.0) (= {N(y)} 0.0)) (= {T} 0.0)))")
    # equal squares of non-negative numbers: identify r with an existing sqrt node of the same radicand
    for (y, x), i in apps.get("atan2", []):
        for j, n in enumerate(nodes):
            if n[0] == "sqrt" and j in enc.done:
                add("non-negative numbers with equal squares are equal (r = hypot identified with the code's sqrt)",
                    f"(=> (= (* r_at{i} r_at{i}) {N(n[1])}) (= r_at{i} {N(j)}))")
    # (B) sin/cos of an argument that is (1+d)*u + m*pi + e for a bounded atom u: compare with sin/cos(u)
    for fn in ("sin", "cos"):
        for (t,), i in apps.get(fn, []):
            alpha, atom, beta = lin(t)
            if atom is None or atom == t or abs(alpha - 1.0) > 1e-9:
                continue
            m = round(beta / PI)
            if abs(beta - m * PI) > 1e-9 or abs(m) > 4:
                continue
            lo, hi = ival(atom)
            U = max(abs(lo), abs(hi))
            if math.isinf(U):
                continue
            E = abs(alpha - 1.0) * U + abs(beta - m * PI) + 1e-15
            sign = "" if m % 2 == 0 else "- "
            ref = fsin(N(atom)) if fn == "sin" else fcos(N(atom))
            refs = f"({sign}{ref})" if sign else ref
            add("sin/cos are 1-Lipschitz and (anti)periodic: |f(u(1+d) + m pi + e) - (-1)^m f(u)| <= |d| sup|u| + |e|",
                absle(f"(- {N(i)} {refs})", E))
            add("sin^2 + cos^2 = 1", f"(= (+ (* {fsin(N(atom))} {fsin(N(atom))}) (* {fcos(N(atom))} {fcos(N(atom))})) 1.0)")
            if nodes[atom][0] == "atan2":
                # direct consequence of (A) and the bound above: r f(t) = (-1)^m (x | y) up to r E
                yy, xx = nodes[atom][1], nodes[atom][2]
                comp = xx if fn == "cos" else yy
                ly, lx = ival(yy), ival(xx)
                rmax = math.hypot(max(abs(ly[0]), abs(ly[1])), max(abs(lx[0]), abs(lx[1])))
                if not math.isinf(rmax):
                    target = f"(- {N(comp)})" if sign else N(comp)
                    add("r f(atan2(y,x) shifted) = +-(x|y) up to r E (consequence of the two axioms above)",
                        absle(f"(- (* r_at{atom} {N(i)}) {target})", E * rmax + 1e-300))
    # (C) atan2 of a vector parallel to (sin t, cos t)
    kcount = 0
    for (y, x), i in apps.get("atan2", []):
        for t, si in sins.items():
            if t not in coss:
                continue
            S, Cc, T = N(si), N(coss[t]), N(i)
            lo, hi = ival(t)
            if math.isinf(lo) or math.isinf(hi):
                continue
            K = int((max(abs(lo), abs(hi)) + PI) / (2 * PI)) + 2
            k = f"k_at{kcount}"
            kcount += 1
            ax.append(f"(declare-const {k} Int)")
            ax.append(f"(assert (and (<= (- {K}) {k}) (<= {k} {K})))")
            par = f"(= (* {N(y)} {Cc}) (* {N(x)} {S}))"
            dot = f"(+ (* {N(y)} {S}) (* {N(x)} {Cc}))"
            tol = 1e-12
            add("atan2(y,x) = t (mod 2 pi) when (y,x) is a positive multiple of (sin t, cos t); = t + pi when a negative multiple",
                f"(and (=> (and {par} (> {dot} 0.0)) {absle(f'(- {T} {N(t)} (* {fr(2 * PI)} (to_real {k})))', tol)}) "
                f"(=> (and {par} (< {dot} 0.0)) {absle(f'(- {T} {N(t)} {fr(PI)} (* {fr(2 * PI)} (to_real {k})))', tol)}))")
    # (D) enclosures of x^p (constant p > 0, p != 1) between chords and tangents on a geometric grid of base values: x^p is
    # concave for p < 1 (tangents above, chords below) and convex for p > 1 (tangents below, chords above). The grid values
    # a^p come from libm (error < 1e-15 relative) and are moved outward by 1e-12 relative, so every instance is a theorem.
    if os.environ.get("PV_POW_ENCLOSURES", "1") != "0":
        GRID = [1e-6, 1e-4, 1e-3, 4e-3, 0.01, 0.025, 0.05, 0.1, 0.18, 0.3, 0.45, 0.65, 0.85, 1.0, 1.25, 1.6, 2.0, 3.0, 4.5, 7.0, 11.0,
                18.0, 30.0, 50.0, 100.0, 250.0, 1000.0]
        # the knees of the piecewise transfer functions (sRGB, Rec.709/2020, ProPhoto) and their images, so that the enclosure is tight
        # exactly where the code switches segment
        KNEES = [0.0031308, 0.04045, (0.04045 + 0.055) / 1.055, 0.018, 0.081, (0.081 + 0.099) / 1.099, 0.018053968510807,
                 0.001953125, 0.03125, 1.0 / 512.0]
        TRANSFER_EXPONENTS = [2.4, 1 / 2.4, 0.45, 1 / 0.45, 1.8, 1 / 1.8]
        up = lambda v: v * (1 + 1e-12) if v >= 0 else v * (1 - 1e-12)
        dn = lambda v: v * (1 - 1e-12) if v >= 0 else v * (1 + 1e-12)
        for (x, pnode), i in pows:
            pv = cval(nodes, pnode)
            if pv is None or pv <= 0 or pv == 1.0 or enc.simple_exponent(pnode) is not None:
                continue
            X, R = N(x), N(i)
            concave = pv < 1
            grid = sorted(set(GRID + KNEES)) if any(abs(pv - e) < 1e-9 for e in TRANSFER_EXPONENTS) else GRID
            for a in grid:
                c, sl = a ** pv, pv * a ** (pv - 1)
                if concave:   # R <= tangent
                    add("x^p below its tangents (p < 1) / above its tangents (p > 1), x >= 0",
                        f"(=> (>= {X} 0.0) (and (=> (>= {X} {fr(a)}) (<= {R} (+ {fr(up(c))} (* {fr(up(sl))} (- {X} {fr(a)}))))) "
                        f"(=> (<= {X} {fr(a)}) (<= {R} (+ {fr(up(c))} (* {fr(dn(sl))} (- {X} {fr(a)})))))))")
                else:         # R >= tangent
                    add("x^p below its tangents (p < 1) / above its tangents (p > 1), x >= 0",
                        f"(=> (>= {X} 0.0) (and (=> (>= {X} {fr(a)}) (>= {R} (+ {fr(dn(c))} (* {fr(dn(sl))} (- {X} {fr(a)}))))) "
                        f"(=> (<= {X} {fr(a)}) (>= {R} (+ {fr(dn(c))} (* {fr(up(sl))} (- {X} {fr(a)})))))))")
            pts = [0.0] + grid
            for a, b in zip(pts, pts[1:]):
                A, Bv = a ** pv, b ** pv
                w = b - a
                if concave:   # R >= chord = A (b-x)/w + B (x-a)/w
                    add("x^p above its chords (p < 1) / below its chords (p > 1) on each grid interval",
                        f"(=> (and (>= {X} {fr(a)}) (<= {X} {fr(b)})) (>= (* {R} {fr(w)}) (+ (* {fr(dn(A))} (- {fr(b)} {X})) (* {fr(dn(Bv))} (- {X} {fr(a)})))))")
                else:
                    add("x^p above its chords (p < 1) / below its chords (p > 1) on each grid interval",
                        f"(=> (and (>= {X} {fr(a)}) (<= {X} {fr(b)})) (<= (* {R} {fr(w)}) (+ (* {fr(up(A))} (- {fr(b)} {X})) (* {fr(up(Bv))} (- {X} {fr(a)})))))")
    return ax[:basic_len], ax[basic_len:], sorted(names)
