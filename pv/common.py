"""Shared plumbing: evidence files, known findings, result bookkeeping."""
import json, os, re, sys, time

ROOT = os.path.dirname(os.path.dirname(os.path.abspath(__file__)))
REPO = os.environ.get("PV_REPO", "/repo")
BUILD = os.path.join(ROOT, ".build")
EVID = os.path.join(ROOT, "evidence")
REPLAY = os.path.join(ROOT, "replay")
KNOWN = os.path.join(ROOT, "known_findings.txt")

PASS, FAIL, UNDECIDED, KNOWN_FINDING, NOT_REPRODUCED = "pass", "violation", "undecided", "known-finding", "not-reproduced"


def seed():
    try:
        return int(os.environ.get("VERIF_SEED", "0"))
    except ValueError:
        return 0


def known_findings():
    """Returns {(property, key): text} for `finding:` lines and a list of `fixed:` lines.
    Format:  finding: property=C08 key=<witness obligation name> <what fails>
             fixed: property=C06 <commit> <what failed>"""
    findings, fixed = {}, []
    if os.path.exists(KNOWN):
        for line in open(KNOWN):
            line = line.strip()
            if not line or line.startswith("#"):
                continue
            m = re.match(r"finding:\s+property=(C\d+)\s+key=(\S+)\s+(.*)", line)
            if m:
                findings[(m.group(1), m.group(2))] = m.group(3)
            elif line.startswith("fixed:"):
                fixed.append(line)
    return findings, fixed


class Obligation:
    """One solver query (or one syntactic decision) and its outcome."""

    def __init__(self, name, engine, desc, functions=None, bounds=None, tier="quick"):
        self.name, self.engine, self.desc = name, engine, desc
        self.functions, self.bounds, self.tier = functions or [], bounds or "", tier
        self.result = UNDECIDED
        self.detail = ""
        self.solver_s = 0.0
        self.queries = 0
        self.witness_for = None   # known-finding key this obligation is an expected-fail witness of
        self.replay = None
        self.nontrivial = False   # reachability witness satisfied / model of the un-negated query exists
        self.extra = {}

    def to_json(self):
        d = {"obligation": self.name, "engine": self.engine, "what": self.desc, "functions": self.functions,
             "bounds": self.bounds, "result": self.result, "solver_s": round(self.solver_s, 3),
             "queries": self.queries, "non_vacuous": self.nontrivial}
        if self.detail:
            d["detail"] = self.detail[:600]
        if self.replay:
            d["replay"] = self.replay
        if self.witness_for:
            d["witness_for_known_finding"] = self.witness_for
        d.update(self.extra)
        return d


def finish(prop, tier, obligations, t0, level="model_checking", technique="", assumptions=None, trusted=None,
           checker_cmd="", extra_cov=None):
    """Prints verdict lines, writes evidence, returns the exit code."""
    findings, _fixed = known_findings()
    violations, undecided, known_hits = [], [], []
    for o in obligations:
        if o.result == FAIL:
            key = (prop, o.witness_for or o.name)
            goals = getattr(o, "violated_goals", None)
            if key in findings:
                o.result = KNOWN_FINDING
                known_hits.append((o, findings[key]))
            elif goals and all((prop, f"{o.name}/{g}") in findings for g in goals):
                # findings listed per call site (goal) of this obligation: every violated goal is listed; the other goals of
                # the obligation must still be decided
                known_hits.append((o, findings[(prop, f"{o.name}/{goals[0]}")]))
                other = getattr(o, "other_bad", {})
                if other:
                    o.result, o.detail = UNDECIDED, "; ".join(f"{k}: {v}" for k, v in other.items())[:900]
                    undecided.append(o)
                else:
                    o.result = KNOWN_FINDING
            else:
                violations.append(o)
        elif o.result in (UNDECIDED, NOT_REPRODUCED):
            undecided.append(o)
    for o, txt in known_hits:
        print(f"KNOWN-FINDING: property={prop} {txt} [obligation {o.name}]")
    for o in violations:
        print(f"VIOLATION property={prop} replay={o.replay or 'n/a'}")
        print(f"  obligation {o.name}: {o.desc}\n  {o.detail[:400]}")
    for o in undecided:
        print(f"INCONCLUSIVE property={prop} obligation={o.name} ({o.result}): {o.detail[:300]}")
    # witness obligations that pass (defect gone) are simply discharged
    n = len(obligations)
    discharged = sum(1 for o in obligations if o.result in (PASS, KNOWN_FINDING))
    nontriv = len({o.name for o in obligations if o.nontrivial and o.result in (PASS, KNOWN_FINDING, FAIL)})
    queries = sum(o.queries for o in obligations)
    # samples: every violated / undecided obligation, then a seed-rotated selection of discharged ones
    rest = [o for o in obligations if o.result in (PASS, KNOWN_FINDING)]
    s = seed()
    if rest:
        k = s % len(rest)
        rest = rest[k:] + rest[:k]
    samples = [o.to_json() for o in violations + undecided] + [o.to_json() for o in rest[:12]]
    cov = {
        "obligations": n, "discharged": discharged, "undischarged": n - discharged,
        "evaluations": max(queries, 1), "distinct_nontrivial": nontriv,
        "rule": "one obligation = one solver query (CBMC/cadical over the compiled palette code, or z3 over the term DAG of the "
                "symbolically executed palette code); an obligation counts as non-trivial when its reachability witness "
                "(kani::cover!(true) after the last assume / satisfiability of the precondition) is satisfied, so the "
                "assertion was decided over a non-empty input set; distinct = distinct obligation names",
        "samples": samples, "all_obligations": [f"{o.name}:{o.result}" for o in obligations],
        "solver_time_s": round(sum(o.solver_s for o in obligations), 3),
        "functions_encoded": sorted({f for o in obligations for f in o.functions}),
        "checker_cmd": checker_cmd, "trusted_base": trusted or [],
        "known_findings_reported": [f"{o.name}: {txt}" for o, txt in known_hits],
        "explanation": technique,
        "exhaustive": False,
    }
    if extra_cov:
        cov.update(extra_cov)
    ev = {"property_id": prop, "tier": tier, "seed": s, "level": level, "coverage": cov,
          "assumptions": assumptions or [], "wall_s": round(time.time() - t0, 2), "violations": len(violations)}
    os.makedirs(EVID, exist_ok=True)
    with open(os.path.join(EVID, f"{prop}.json"), "w") as f:
        json.dump(ev, f, indent=1)
    print(f"{prop} [{tier}] obligations={n} discharged={discharged} violations={len(violations)} "
          f"undecided={len(undecided)} known_findings={len(known_hits)} solver_s={cov['solver_time_s']} wall_s={ev['wall_s']}")
    if violations:
        return 1
    if undecided:
        return 2
    return 0
