"""Normalisation of power terms in an obligation's DAG before encoding (used for the CAM16 obligations).

palette's CAM16 code composes x^0.42, x^(1/0.42), x^0.9, x^(10/9), x^(c z), x^(2/(c z)) and square roots with constant factors in
between; z3 sees `powf` as an uninterpreted function, so `((k u^(1/0.42))^0.42` is not recognised as `k^0.42 u` unless the constant
is moved out first. The rewrite rules below are identities of the real power function on NON-NEGATIVE bases (on negative bases
powf is NaN in the code and an unconstrained value in the encoding either way; definedness is C07's subject):

    (c x)^p = c^p x^p,  (x / c)^p = x^p / c^p,  (c / x)^p = c^p / x^p          (constant c > 0)
    sqrt(x)^p = x^(p/2),  (x^q)^p = x^(q p),  x^1 = x    (q p within 1e-12 of 1 counts as 1: relative error <= 1e-10 for 1e-30 <= x <= 1e30)
    sqrt(c x) = sqrt(c) sqrt(x),  sqrt(x^q) = x^(q/2),  sqrt(x / c) = sqrt(x) / sqrt(c)
    (c1 x) c2 = (c1 c2) x,  (c1 x) / c2 = (c1 / c2) x,  1 x = x

Constants c^p are computed with libm (relative error < 1e-15); every tolerance of the obligations that use this pass is >= 1e-6.
The pass rebuilds the node list (hash-consed) and remaps every reference of the obligation; the list of rules applied is
recorded in the evidence of the obligation.
"""
import struct


def _f(bits):
    return struct.unpack("<d", struct.pack("<Q", int(bits)))[0]


def _bits(v):
    return str(struct.unpack("<Q", struct.pack("<d", float(v)))[0])


def rewrite(ob):
    old = ob["nodes"]
    new, index, remap, used = [], {}, {}, set()

    def mk(node):
        key = tuple(node)
        if key in index:
            return index[key]
        new.append(list(node))
        index[key] = len(new) - 1
        return len(new) - 1

    def const(v):
        return mk(["const", _bits(v)])

    def cv(i):
        n = new[i]
        return _f(n[1]) if n[0] == "const" else None

    def split_const(i):
        """(c, rest) if node i is c * rest with a positive constant c."""
        n = new[i]
        if n[0] == "mul":
            a, b = n[1], n[2]
            if cv(a) is not None and cv(a) > 0:
                return cv(a), b
            if cv(b) is not None and cv(b) > 0:
                return cv(b), a
        return None

    def mul(a, b):
        ca, cb = cv(a), cv(b)
        if ca is not None and cb is not None:
            return const(ca * cb)
        if cb is not None:
            a, b, ca, cb = b, a, cb, ca
        if ca is not None:
            if ca == 1.0:
                used.add("1 x = x")
                return b
            sc = split_const(b)
            if sc and ca > 0:
                used.add("(c1 x) c2 = (c1 c2) x")
                return mul(const(ca * sc[0]), sc[1])
        return mk(["mul", a, b])

    def div(a, b):
        ca, cb = cv(a), cv(b)
        if ca is not None and cb is not None and cb != 0:
            return const(ca / cb)
        if cb is not None and cb > 0:
            sc = split_const(a)
            if sc:
                used.add("(c1 x) / c2 = (c1 / c2) x")
                return mul(const(sc[0] / cb), sc[1])
        return mk(["div", a, b])

    def sqrt(x):
        c = cv(x)
        if c is not None and c >= 0:
            return const(c ** 0.5)
        n = new[x]
        sc = split_const(x)
        if sc:
            used.add("sqrt(c x) = sqrt(c) sqrt(x)")
            return mul(const(sc[0] ** 0.5), sqrt(sc[1]))
        if n[0] == "div" and cv(n[2]) is not None and cv(n[2]) > 0:
            used.add("sqrt(x / c) = sqrt(x) / sqrt(c)")
            return div(sqrt(n[1]), const(cv(n[2]) ** 0.5))
        if n[0] == "pow" and cv(n[2]) is not None:
            used.add("sqrt(x^q) = x^(q/2)")
            return pow_(n[1], const(cv(n[2]) / 2))
        return mk(["sqrt", x])

    def pow_(x, p):
        pv = cv(p)
        if pv is None:
            return mk(["pow", x, p])
        if abs(pv - 1.0) < 1e-12:
            used.add("x^1 = x")
            return x
        c = cv(x)
        if c is not None and c > 0:
            return const(c ** pv)
        n = new[x]
        sc = split_const(x)
        if sc:
            used.add("(c x)^p = c^p x^p")
            return mul(const(sc[0] ** pv), pow_(sc[1], p))
        if n[0] == "div":
            ca, cb = cv(n[1]), cv(n[2])
            if cb is not None and cb > 0:
                used.add("(x / c)^p = x^p / c^p")
                return div(pow_(n[1], p), const(cb ** pv))
            if ca is not None and ca > 0:
                used.add("(c / x)^p = c^p / x^p")
                return div(const(ca ** pv), pow_(n[2], p))
        if n[0] == "sqrt":
            used.add("sqrt(x)^p = x^(p/2)")
            return pow_(n[1], const(pv / 2))
        if n[0] == "pow" and cv(n[2]) is not None:
            used.add("(x^q)^p = x^(q p)")
            return pow_(n[1], const(cv(n[2]) * pv))
        return mk(["pow", x, p])

    for i, n in enumerate(old):
        op = n[0]
        if op in ("var", "const", "bconst"):
            remap[i] = mk(n)
            continue
        if op == "powi":
            remap[i] = mk(["powi", remap[n[1]], n[2]])
            continue
        a = [remap[x] for x in n[1:]]
        if op == "mul":
            remap[i] = mul(*a)
        elif op == "div":
            remap[i] = div(*a)
        elif op == "sqrt":
            remap[i] = sqrt(*a)
        elif op == "pow":
            remap[i] = pow_(*a)
        else:
            remap[i] = mk([op] + a)
    ob["nodes"] = new
    for p in ob["paths"]:
        p["pc"] = [[remap[c], t] for c, t in p["pc"]]
        p["assume"] = [remap[x] for x in p["assume"]]
        p["goals"] = [[g[0], remap[g[1]]] + list(g[2:]) for g in p["goals"]]
    if ob.get("partial"):
        ob["partial"] = [[k, [remap[x] for x in ops], remap[pc], run] for k, ops, pc, run in ob["partial"]]
    for key in ("m_outputs", "f_outputs"):
        if ob.get(key):
            ob[key] = [[nm, remap[i]] for nm, i in ob[key]]
    return sorted(used)
