"""Per-property configuration: which engines decide it, and what the evidence / manifest say about technique and assumptions."""

TRUSTED = [
    "rustc / Kani 0.68 compiler front end (MIR -> goto), CBMC 6.11 symbolic execution and bit-blasting, cadical",
    "native replay uses the same harness source compiled by cargo (Kani concrete playback) against /repo",
]

K_TECH = ("bounded model checking of the compiled palette code: Kani proof harnesses with kani::any() inputs, "
          "CBMC symbolic execution + SAT (cadical) over all values within the stated bounds; unwinding assertions on; "
          "kani::cover!(true) reachability witness per harness; counterexamples replayed natively before VIOLATION")
K_SHORT = "Kani/CBMC bounded model checking of the compiled code (SAT verdict over symbolic inputs), native replay of counterexamples"
K_FLOAT_ASSUME = [
    "CBMC's IEEE-754 bit-blasting equals the target's float semantics (x86-64 SSE2, round-to-nearest-even)",
    "CBMC's NaN-production and float-overflow side checks are ignored (they are not Rust panics)",
]

NOTES = ("Every check is solver-based (DESIGN.md): Engine K = Kani/CBMC over the compiled palette code, Engine S = z3 over the term DAG "
         "obtained by instantiating palette's generic code with a symbolic number type. Exit 2 = inconclusive (solver cap hit or a "
         "counterexample that did not reproduce natively); it is never reported as success or as a violation. Known findings: known_findings.txt.")

NOT_APPLICABLE = {
}

S_TECH = ("bounded symbolic execution of the real generic palette code by instantiation with a term-building number type "
          "(SymM: symbolic mask, the SIMD code path as one DAG with ite; SymF: bool mask, the scalar code path, one run per decision "
          "vector), then z3 over the DAG: exact real arithmetic, constants = the exact rational value of the f64 the code constructs, "
          "sqrt/cbrt algebraic, floor/ceil via to_int, transcendental functions uninterpreted + ground instances of sound axioms; "
          "unsat of the negated goal = holds for every input in the stated box; every model is replayed natively in f64 and f32 "
          "(must violate the goal by 0.9 x the tolerance in both) before VIOLATION")
S_SHORT = "symbolic instantiation of the generic code + z3 (nonlinear real arithmetic) over the term DAG, native f32/f64 replay of models"
S_ASSUME = [
    "real-arithmetic reading of every float operation: per-operation rounding is outside an Engine-S claim (tolerances are >= 100x f32 rounding noise)",
    "transcendental functions (powf, exp, ln, sin, cos, atan2) are uninterpreted; the ground axioms used are listed per obligation in the evidence",
    "is_valid_divisor is read as |x| >= f32::MIN_POSITIVE",
]


def sprop(level_text, level_note, assumptions=None, engines=("symx",), trusted=None):
    both = "kani" in engines
    return {"engines": list(engines), "technique": (K_TECH + " || " if both else "") + S_TECH,
            "technique_short": (K_SHORT + "; " if both else "") + S_SHORT,
            "assumptions": S_ASSUME + (K_FLOAT_ASSUME if both else []) + (assumptions or []), "level_text": level_text,
            "level_note": level_note, "trusted": ["z3 4.8.12 (nlsat)"] + (trusted or [])}


def kprop(level_text, level_note, assumptions=None, engines=("kani",), trusted=None):
    return {"engines": list(engines), "technique": K_TECH, "technique_short": K_SHORT,
            "assumptions": K_FLOAT_ASSUME + (assumptions or []), "level_text": level_text, "level_note": level_note,
            "trusted": trusted or []}


# Properties whose checks are built but not yet registered in MANIFEST.json (kept in NOT_APPLICABLE until they pass).
UNREGISTERED = set(NOT_APPLICABLE)

PROPS = {
    "C03": sprop(
        "Bit-precise bounded model checking of the bounds contract for every colour type (26 types x f32/f64 (+u8), plain and "
        "Alpha-wrapped): all finite component combinations are symbolic at once; clamp => within bounds, identity on in-bounds, "
        "idempotence, clamp_assign agreement, is_within_bounds <=> min/max accessors, slices up to length 3, and the FromColor / "
        "TryFromColor blanket impls on four cheap conversion pairs.",
        "Trusted: Kani/CBMC/cadical. NaN/inf components are outside the property. FromColor/TryFromColor are blanket impls (one "
        "piece of code for all pairs); they are instantiated on harness colour types and on Hsv->Hwb. The Hwb/Okhwb clamp (two divisions by "
        "a symbolic divisor) is additionally decided in real arithmetic by Engine S.", engines=("kani", "symx")),
    "C04": kprop(
        "Bounded model checking of every zero-copy cast entry point on representative instantiations: same address, lengths and "
        "capacities scale exactly, field order with alpha last, bit-identical round trips, rejection exactly on non-multiples with "
        "the buffer handed back; CBMC memory-safety checks cover the unsafe pointer casts. Buffers up to the stated small lengths.",
        "Trusted: Kani/CBMC/cadical and Kani's model of the allocator. Longer buffers are outside the bound; the length arithmetic is "
        "checked separately at symbolic usize."),
    "C10": sprop(
        "Two halves. Algebra (Engine S): symbolic execution of the real mix / lighten / saturate / hue-shift / colour-scheme code; z3 "
        "decides for all in-range colours and all factors in [-1,2] the end points, clamping of the factor, betweenness, the shorter hue "
        "arc, monotonicity, reaching the limit at factor 1 and darken/desaturate = negated lighten/saturate. Variant agreement (Engine K): "
        "by-value vs assigning vs slice vs Alpha-wrapped forms bit for bit on the compiled code, one representative type per macro family.",
        "Trusted: z3, Kani/CBMC/cadical. Rounding of individual float operations is outside the algebra half.", engines=("kani", "symx")),
    "C12": kprop(
        "Bounded model checking of hex parsing/formatting, packed-integer channel orders and the named-colour table: strings are symbolic "
        "byte arrays up to the stated length (ASCII, and ASCII with embedded multi-byte scalars built valid by construction), packed "
        "values are all 2^32 at once; named colours: every ASCII string up to the longest name against svg_colors.txt, plus every listed "
        "name (and its near misses) as a concrete lookup.",
        "Trusted: Kani/CBMC/cadical; Kani's model of core::fmt for the formatting round trip. Strings longer than the bound are outside the claim."),
    "C13": kprop(
        "Bounded model checking of in-place conversion and guards on buffers of concrete length 0..3 with symbolic contents: element-wise "
        "equality with the out-of-place conversion, same address/length/capacity, one guard operation from an arbitrary live guard state "
        "plus explicit chains up to depth 4; CBMC memory-safety checks cover the ptr::read/ptr::write loops.",
        "Trusted: Kani/CBMC/cadical. Component type is a cheap harness number type where the conversion's numeric content is irrelevant."),
    "C18": kprop(
        "Bounded model checking of the struct-of-arrays collections as a refinement of Vec<Color>: from an arbitrary valid state of "
        "concrete length n in 0..3 (symbolic contents) one operation with symbolic arguments, plus explicit two/three step scripts.",
        "Trusted: Kani/CBMC/cadical and Kani's Vec/allocator model. Collections longer than 3 and growth beyond capacity 4 are outside the bound."),
    "C19": sprop(
        "Two halves. Range (Engine K): the RNG is a nondeterministic stub (every RNG stream at once); Standard samples lie within the "
        "type's bounds, Uniform samples between the two ends, hues on the requested arc. Volume law (Engine S): every Standard float draw "
        "is a symbolic variable u in [0,1); the real cone / bicone / HWB samplers are executed symbolically and z3 decides for all draws "
        "that the sample is the inverse CDF of the volume measure (value^3 = r1, saturation^2 = r2, 4 l^3 = r1 ...); the Uniform samplers "
        "of the cone, bicone (Hsl, Okhsl, Hsluv) and HWB types are executed symbolically with rand's Uniform as its contract and z3 decides "
        "for all ends and all draws that saturation / value / lightness (HWB: the equivalent HSV saturation and value) lie between the ends.",
        "Trusted: z3, Kani/CBMC/cadical; rand's Standard / Uniform float contracts (uniform on [0,1), low + (high-low) u); the statistical "
        "quality of rand is outside the claim.", engines=("kani", "symx")),
    "C20": kprop(
        "Bounded model checking of the real Serialize/Deserialize impls against an in-harness serde data-model back end (token recorder, "
        "self-describing and compact): round trip bit for bit, shape of Alpha / hue / metadata, missing alpha => opaque, helper forms.",
        "Trusted: Kani/CBMC/cadical; the in-harness serde back end. The JSON/RON text layer is outside the claim."),
    "C01": sprop(
        "Symbolic execution of the real conversion code: z3 decides for ALL colours of the stated boxes that every edge of the conversion "
        "graph inverts (A->B->A within tolerance), that alternative routes (direct HSV<->HSL/HWB vs through RGB, TypeId shortcuts vs the "
        "long route) agree, that a direct conversion is the composition along the derive's route (syntactic identity of the hash-consed "
        "terms), and that Alpha wrapping leaves colour terms and alpha identical.",
        "Trusted: z3. Round trips through the cusp-search spaces (Okhsl/Okhsv/HSLuv) and some cube-root round trips with inexact "
        "published inverse matrices are thorough-tier or outside the claim (DESIGN.md section 9)."),
    "C15": sprop(
        "Symbolic execution of the real HSV/HSL/HWB <-> RGB code (SIMD and scalar path): z3 decides for every hue in [-720,720] and all "
        "saturation/value/lightness/whiteness/blackness in bounds that RGB lies in [0,1], and for every in-gamut RGB that the results are "
        "within bounds and convert back. Okhsl -> RGB and HSLuv -> RGB: on 13 hues (regular ones and 0.3 degrees either side of the three "
        "sRGB primaries, where the cusp polynomial changes sector) x 6 lightnesses the real cusp search / gamut boundary runs on constants "
        "and z3 decides for EVERY saturation that linear RGB lies in [-4e-4, 1 + 2e-3].",
        "Trusted: z3. Okhsv/Okhwb -> RGB (Open obligations: no answer in 900 s) and RGB -> Okhsl/Okhsv/Okhwb/HSLuv (symbolic hue through "
        "the degree >= 9 cusp search) are outside the claim, see DESIGN.md 9.4. Engine K adds bit-precise f32 kernels: a fully saturated "
        "HSV / HSL / HWB colour keeps its largest component 1 and smallest 0 for EVERY f32 hue up to 1e6 degrees (a hue whose normal form "
        "rounds onto 360 must not fall out of the sector table).", engines=("kani", "symx")),
    "C02": sprop(
        "Differential symbolic checking of every directly implemented conversion against an independent transcription of its published "
        "definition (CIE 15 with exact rational epsilon/kappa, the standards' transfer curves, Smith's hexcone HSV/HSL/HWB, Ottosson's "
        "Oklab matrices) built in the same term arena: z3 searches the whole input box, both sides of every piecewise join and every hue "
        "sector, for an input where code and definition differ by more than the tolerance; both the SIMD (mask) and the scalar code path. "
        "Also: change of RGB standard inside HSV/HSL/HWB, Oklab -> XYZ on 12 hue directions, Luma -> xyY chromaticity.",
        "Trusted: z3; the transcriptions in symx/src/reference (each cites its source); transcendental functions are shared "
        "uninterpreted symbols, so the check decides everything around them (arguments, exponents, thresholds, branch structure)."),
    "C07": sprop(
        "Symbolic execution of the real conversion / operator / blend / difference code records every partial operation it executes "
        "(division, square root, logarithm, power, asin/acos) together with the lazy_select guard (SIMD path) or decision path (scalar "
        "path) it is executed under; z3 decides for ALL colours of the documented range - each component on a bound, exactly zero, or "
        "1e-9 x range away from it - that the operation is defined (non-zero divisor, bounded quotient, non-negative radicand ...). "
        "A model is replayed natively and counts only if a result component is NaN or infinite in f32 and f64.",
        "Trusted: z3. Real-arithmetic definedness: NaN produced by rounding alone (a radicand that is >= 0 in the reals but negative "
        "after cancellation) is outside the Engine-S claim; Engine K adds bit-precise f32 kernels (is_valid_divisor, RGB->HSL/HSV, "
        "HSV<->HSL, HWB<->HSV, XYZ<->xyY, blend modes) and kernels over N32 = exact f32 arithmetic with NONDETERMINISTIC transcendental "
        "functions constrained only by range / sign / NaN-domain (Lch and Lab Delta E, XYZ<->Lab, polar pairs, XYZ->Luv, linear "
        "sRGB<->Oklab): finite for every libm; counterexamples are replayed with the real f32 functions. The cusp-search spaces "
        "(Okhsl/Okhsv/HSLuv) and the CAM16 inverse are not covered.",
        engines=("kani", "symx")),
    "C08": sprop(
        "Symbolic execution of the real Blend / Compose / Premultiply code (PreAlpha, Alpha and opaque forms, LinSrgb) and an "
        "independent transcription of the W3C Compositing and Blending formulas in the same term arena; z3 decides for ALL colours and "
        "alphas in [0,1] that every component equals the W3C value (1e-9), stays in range, that opaque inputs reduce to B(Cb,Cs), "
        "that the commutative modes/operators are symmetric, the over identities, and the premultiplication round trip.",
        "Trusted: z3; the W3C transcription (symx/src/reference/w3c_blend.rs). Rounding of individual float operations is outside the "
        "Engine-S claim; Engine K adds the bit-precise non-zero-alpha rule of unpremultiplication for every normal alpha.", engines=("kani", "symx")),
    "C09": sprop(
        "Symbolic execution of the real colour-difference code (Delta E, improved Delta E, HyAB, Euclidean, Lch forms, WCAG contrast, "
        "CIEDE2000): z3 decides for ALL pairs of colours in the stated boxes equality with the closed forms / the Sharma reference, "
        "symmetry, non-negativity, zero for identical colours, contrast range and that each of the five WCAG threshold predicates holds "
        "exactly when the ratio reaches its constant.",
        "Trusted: z3; the CIEDE2000 transcription (symx/src/reference/ciede2000.rs). CIEDE2000 = Sharma reference and symmetry are decided "
        "on 36 hue/chroma configurations (hue pairs straddling 0/360 in both orders, pairs more than 180 degrees apart) with one lightness "
        "symbolic; over all six variables they are Open obligations (not decided by z3, DESIGN.md 9.4)."),
    "C16": sprop(
        "Symbolic execution of the real CAM16 code with concrete viewing conditions (the real prepare_parameters runs in f64) and a "
        "symbolic colour: the forward model against an independent transcription of the published equations (Li et al. 2017, Appendix A, "
        "incl. the viewing-condition quantities) - J, Q, C, M, s for every XYZ in [0.05, 1]^3 under three viewing conditions (average / "
        "dim / dark surround, D65 / D50, L_A 40 / 64), decided after a canonicalisation of the arithmetic that makes the arguments of the "
        "uninterpreted powf / cos / atan2 on both sides the same terms; the INVERSE model (into_xyz of the six partial types: J or Q with C, M "
        "or s) against an independent transcription of the paper's inverse steps (its case split on |sin h| >= |cos h|, its own inverse of "
        "M16, its unadaptation formula) on four hue arcs under one viewing condition per type, decided after flattening nested quotients "
        "into one rational function per quantity; the CAM16-UCS formulas and their inverses (exp/ln axioms), Jab <-> Jmh (trigonometric "
        "axioms), each of the six partial types = the full model's attributes (syntactic identity), black <-> black, adopted white has J = 100.",
        "Trusted: z3; the transcriptions (symx/src/reference/cam16.rs); the canonicalisation pass pv/canon.py (real-arithmetic identities on "
        "the stated domain + rounding of polynomial coefficients to 12 significant digits, six orders of magnitude below the tolerances). "
        "XYZ -> CAM16 -> XYZ as ONE composed query is an Open obligation (not decided); the round trip is covered through its halves "
        "(forward = published forward, inverse = published inverse). Hue is checked through the UCS / partial obligations, not in the "
        "forward differential. For the two differentials a native evaluation at 12 sample points precedes the solver: it can only "
        "produce replayed violations, never a pass (DESIGN.md 9.9)."),
    "C17": sprop(
        "Two halves. Engine S: the mask-generic code path (what every SIMD lane computes: all lazy_select branches evaluated and blended "
        "by masks, the separate SIMD branches of RGB->HSV/HSL) equals the scalar code path (what f32/f64 compute); the real functions are "
        "executed with SymM (one DAG) and with SymF (one run per decision vector) and z3 searches the whole input box for an input where an "
        "output differs by more than the tolerance. Engine K: palette's glue for the real `wide` types (num/wide.rs, bool_mask/wide.rs, "
        "angle/wide.rs, macros/simd.rs) compiled with the `wide` feature, over the real f32x4 / f64x2 (quick) and f32x8 / f64x4 (thorough): "
        "comparisons, masks (from_bool, is_true, is_false, select, lazy_select), min/max/clamp/abs/floor/ceil/signum, is_valid_divisor, "
        "array <-> SIMD colour packing (Rgb, Hsv, Lab, Alpha and premultiplied PreAlpha colours), bounds / clamp of SIMD colours and of slices of them - all lanes symbolic, bit for bit against the "
        "scalar function of each lane's input; hue normalisation, angle equality and RGB <-> HSV with one lane symbolic (the others on other "
        "branches).",
        "Trusted: z3, Kani/CBMC/cadical, and the 28 lane-wise models of the SSE/SSE2 intrinsics that Kani cannot translate or mistreats "
        "(cmp/max/min/add/sub/mul/div ps and pd, kani/src/c17_support.rs, installed with #[kani::stub]); counterexamples are replayed "
        "against the real SSE instructions. No AVX/SSE4.1 target feature: wide's SSE2 code paths are the ones checked. SymM's trait impls "
        "model palette's glue in Engine S. Transcendental functions of the wide crate (sin, cos, powf, ln, exp, cbrt), Round::round (not "
        "used by any colour operation on wide types) and f32-vs-f64 agreement are not checked.",
        engines=("kani", "symx")),
    "C14": sprop(
        "Symbolic execution of the real RGB<->XYZ, XYZ->Lab/Luv/Oklab and chromatic-adaptation code for every RGB standard / white point "
        "pair; z3 decides, for ALL greys / colours in the stated boxes, that white maps to the white point, neutrals stay neutral, the "
        "matrices are mutual inverses and agree with the primaries, and adaptation maps white to white, is the identity for equal white "
        "points and round-trips - for the static white-point pairs and for run-time white points of luminance factor other than 1 "
        "(adaptation_matrix(Some, Some)).",
        "Trusted: z3; the independent derivation of the RGB matrices from the published chromaticities (symx/src/reference/rgbspace.rs). "
        "Rounding of individual float operations is outside the claim."),
    "C05": sprop(
        "Bit-precise bounded model checking of the integer fast paths: for each encoding the real from_linear/into_linear impls and "
        "the real lookup tables are executed symbolically over ALL f32 (2^32) / f64 (2^64) inputs and all codes: totality and "
        "memory safety of the unchecked table read, saturation, monotonicity (adjacent-pair), error < 0.6 code against threshold "
        "tables computed with mpmath from the published curve constants, decode->encode identity, decode tables vs the standard curve.",
        "Trusted: Kani/CBMC/cadical; the mpmath evaluation of the published curves in kani/gen/c05.py (tables in kani/src/c05_tables.rs). "
        "The generic float<->float curves (powf) are decided by Engine S, not here. 16-bit ProPhoto error/round-trip obligations are thorough-tier.",
        ["reference thresholds come from the standards' constants, not from /repo"], engines=("kani", "symx")),
    "C11": sprop(
        "Bit-precise bounded model checking of hue normalisation, equality and 8-bit conversion: all f32 (quick) / f64 (thorough) "
        "angles with |x| <= 2^20 are one symbolic input; range, congruence modulo 360 (the signed form to within 2 ulp of the STORED "
        "angle, however small), equality under whole turns, inequality, "
        "accessor consistency, u8 round trip and circle mapping are SAT-decided on the compiled code for all five hue types.",
        "Trusted: Kani/CBMC/cadical. The trigonometric half (from_cartesian / into_cartesian direction) is decided by Engine S. "
        "Obligations containing two float divisions are thorough-tier.", engines=("kani", "symx")),
    "C06": {
        "engines": ["kani"],
        "technique": K_TECH,
        "technique_short": K_SHORT,
        "assumptions": K_FLOAT_ASSUME,
        "level_text": "Bit-precise bounded model checking of every IntoStimulus impl: each obligation (saturation, nearest-integer, "
                      "monotonicity, end points, round trips) is decided by SAT over ALL bit patterns of the source format(s) at once "
                      "(no loops, so no unwinding bound); one harness per ordered pair of formats and obligation.",
        "level_note": "Trusted: Kani/CBMC/cadical and CBMC's IEEE-754 model. Obligations whose SAT instance needs minutes are thorough-tier; "
                      "those that do not finish within the cap are listed in DESIGN.md section 9 as outside the claim.",
    },
}
