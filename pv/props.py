"""Per-property configuration: which engines decide it, and what the evidence / manifest say about technique and assumptions."""

TRUSTED = [
    "rustc / Kani 0.68 compiler front end (MIR -> goto), CBMC 6.11 symbolic execution and bit-blasting, cadical",
    "native replay uses the same harness source compiled by cargo (Kani concrete playback) against /repo",
]

K_TECH = ("bounded model checking of the compiled palette code: Kani proof harnesses with kani::any() inputs, "
          "CBMC symbolic execution + SAT (cadical) over all values within the stated bounds; unwinding assertions on; "
          "kani::cover!(true) reachability witness per harness; counterexamples replayed natively before VIOLATION")
K_SHORT = "Kani/CBMC bounded model checking of the compiled code (SAT verdict over symbolic inputs), native replay of counterexamples"
K_FLOAT_ASSUME = [
    "CBMC's IEEE-754 bit-blasting equals the target's float semantics (x86-64 SSE2, round-to-nearest-even)",
    "CBMC's NaN-production and float-overflow side checks are ignored (they are not Rust panics)",
]

NOTES = ("Every check is solver-based (DESIGN.md): Engine K = Kani/CBMC over the compiled palette code, Engine S = z3 over the term DAG "
         "obtained by instantiating palette's generic code with a symbolic number type. Exit 2 = inconclusive (solver cap hit or a "
         "counterexample that did not reproduce natively); it is never reported as success or as a violation. Known findings: known_findings.txt.")

NOT_APPLICABLE = {
    "C01": "not built yet (Engine S, see DESIGN.md section 5)",
    "C02": "not built yet (Engine S, see DESIGN.md section 5)",
    "C04": "not built yet",
    "C07": "not built yet",
    "C08": "not built yet",
    "C09": "not built yet",
    "C10": "not built yet",
    "C12": "not built yet",
    "C13": "not built yet",
    "C14": "not built yet",
    "C15": "not built yet",
    "C16": "not built yet",
    "C17": "not built yet",
    "C18": "not built yet",
    "C19": "not built yet",
    "C20": "not built yet",
}

def kprop(level_text, level_note, assumptions=None, engines=("kani",), trusted=None):
    return {"engines": list(engines), "technique": K_TECH, "technique_short": K_SHORT,
            "assumptions": K_FLOAT_ASSUME + (assumptions or []), "level_text": level_text, "level_note": level_note,
            "trusted": trusted or []}


PROPS = {
    "C03": kprop(
        "Bit-precise bounded model checking of the bounds contract for every colour type (26 types x f32/f64 (+u8), plain and "
        "Alpha-wrapped): all finite component combinations are symbolic at once; clamp => within bounds, identity on in-bounds, "
        "idempotence, clamp_assign agreement, is_within_bounds <=> min/max accessors, slices up to length 3, and the FromColor / "
        "TryFromColor blanket impls on four cheap conversion pairs.",
        "Trusted: Kani/CBMC/cadical. NaN/inf components are outside the property. FromColor/TryFromColor are blanket impls (one "
        "piece of code for all pairs); they are instantiated on Hsv<->Hwb and Xyz<->Yxy."),
    "C05": kprop(
        "Bit-precise bounded model checking of the integer fast paths: for each encoding the real from_linear/into_linear impls and "
        "the real lookup tables are executed symbolically over ALL f32 (2^32) / f64 (2^64) inputs and all codes: totality and "
        "memory safety of the unchecked table read, saturation, monotonicity (adjacent-pair), error < 0.6 code against threshold "
        "tables computed with mpmath from the published curve constants, decode->encode identity, decode tables vs the standard curve.",
        "Trusted: Kani/CBMC/cadical; the mpmath evaluation of the published curves in kani/gen/c05.py (tables in kani/src/c05_tables.rs). "
        "The generic float<->float curves (powf) are decided by Engine S, not here. 16-bit ProPhoto error/round-trip obligations are thorough-tier.",
        ["reference thresholds come from the standards' constants, not from /repo"]),
    "C11": kprop(
        "Bit-precise bounded model checking of hue normalisation, equality and 8-bit conversion: all f32 (quick) / f64 (thorough) "
        "angles with |x| <= 2^20 are one symbolic input; range, congruence modulo 360, equality under whole turns, inequality, "
        "accessor consistency, u8 round trip and circle mapping are SAT-decided on the compiled code for all five hue types.",
        "Trusted: Kani/CBMC/cadical. The trigonometric half (from_cartesian / into_cartesian direction) is decided by Engine S. "
        "Obligations containing two float divisions are thorough-tier."),
    "C06": {
        "engines": ["kani"],
        "technique": K_TECH,
        "technique_short": K_SHORT,
        "assumptions": K_FLOAT_ASSUME,
        "level_text": "Bit-precise bounded model checking of every IntoStimulus impl: each obligation (saturation, nearest-integer, "
                      "monotonicity, end points, round trips) is decided by SAT over ALL bit patterns of the source format(s) at once "
                      "(no loops, so no unwinding bound); one harness per ordered pair of formats and obligation.",
        "level_note": "Trusted: Kani/CBMC/cadical and CBMC's IEEE-754 model. Obligations whose SAT instance needs minutes are thorough-tier; "
                      "those that do not finish within the cap are listed in DESIGN.md section 9 as outside the claim.",
    },
}
