#!/usr/bin/env python3
"""Regenerates /verif/MANIFEST.json from pv/props.py (single source of truth for claimed / not-applicable properties)."""
import json, os, sys
sys.path.insert(0, os.path.dirname(os.path.dirname(os.path.abspath(__file__))))
from pv import props as P

ROOT = os.path.dirname(os.path.dirname(os.path.abspath(__file__)))


def main():
    checks = []
    for pid in sorted(P.PROPS):
        if pid in P.NOT_APPLICABLE:
            continue
        info = P.PROPS[pid]
        checks.append({
            "property_id": pid,
            "quick_cmd": f"./check {pid} --tier quick",
            "thorough_cmd": f"./check {pid} --tier thorough",
            "evidence_file": f"/verif/evidence/{pid}.json",
            "replay_cmd_template": f"./check {pid} --replay {{path}}",
            "engine": "+".join(info["engines"]),
            "level_claimed": {"category": "model_checking", "text": info["level_text"], "design_ref": info.get("design_ref", f"DESIGN.md section 1 ({pid}) and section 9")},
            "level_note": info["level_note"],
            "technique": info["technique_short"],
        })
    man = {
        "version": 1,
        "setup_cmd": "./setup.sh",
        "hooks": {
            "guard": "palette_verif",
            "enable": "no source hooks are needed: the harness crates depend on /repo/palette by path and CBMC's own pointer checks "
                      "observe out-of-bounds get_unchecked directly; nothing in /repo is built with a verification cfg",
            "baseline_off_cmd": "cd /repo && cargo test --workspace --no-fail-fast --offline",
            "source_commits": [],
            "add_only": True,
        },
        "engines": [
            {"name": "kani", "path": "/verif/kani", "serves_properties": sorted(p for p in P.PROPS if "kani" in P.PROPS[p]["engines"] and p not in P.NOT_APPLICABLE),
             "kind_free_text": "Kani 0.68 proof harnesses (out-of-tree crate, path dependency on /repo/palette), CBMC 6.11 + cadical; "
                               "counterexamples replayed natively with Kani concrete playback"},
            {"name": "symx", "path": "/verif/symx", "serves_properties": sorted(p for p in P.PROPS if "symx" in P.PROPS[p]["engines"] and p not in P.NOT_APPLICABLE),
             "kind_free_text": "symbolic instantiation of palette's generic code with a term-building number type, z3 over the term DAG; "
                               "counterexamples replayed natively in f32 and f64"},
        ],
        "checks": checks,
        "notes": P.NOTES,
        "not_applicable": [{"property_id": k, "reason": v} for k, v in sorted(P.NOT_APPLICABLE.items())],
    }
    with open(os.path.join(ROOT, "MANIFEST.json"), "w") as f:
        json.dump(man, f, indent=1)
    print("MANIFEST.json:", len(checks), "checks,", len(man["not_applicable"]), "not applicable")


if __name__ == "__main__":
    main()
