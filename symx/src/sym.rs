//! `SymM`: a Copy handle into the term arena that implements palette's public number traits with a *symbolic* mask
//! (`SymB`), so that palette's generic (SIMD-capable, branch-free) code runs symbolically by instantiation.
use crate::arena::{with, Id, Node};
use core::ops::*;
use palette::angle::{AngleEq, FullRotation, HalfRotation, RealAngle, SignedAngle, UnsignedAngle};
use palette::bool_mask::{BoolMask, HasBoolMask, LazySelect, Select};
use palette::num::*;

#[derive(Clone, Copy, PartialEq, Eq, Hash, Debug)]
pub struct SymM(pub Id);
/// Same arena, but `Mask = bool`: comparisons made by palette's code are answered from a decision vector and recorded
/// as the path condition; the driver re-executes once per decision vector (scalar code path).
#[derive(Clone, Copy, Debug)]
pub struct SymF(pub Id);
#[derive(Clone, Copy, PartialEq, Eq, Hash, Debug)]
pub struct SymB(pub Id);

impl SymB {
    pub fn c(v: bool) -> SymB {
        SymB(with(|a| a.bool(v)))
    }
    pub fn konst(self) -> Option<bool> {
        with(|a| a.bkonst(self.0))
    }
    pub fn ite(self, x: SymM, y: SymM) -> SymM {
        SymM(with(|a| a.mk(Node::Ite(self.0, x.0, y.0))))
    }
    pub fn ite_f(self, x: SymF, y: SymF) -> SymF {
        SymF(with(|a| a.mk(Node::Ite(self.0, x.0, y.0))))
    }
}


macro_rules! binop {
    ($S:ident, $tr:ident, $f:ident, $atr:ident, $af:ident, $node:ident) => {
        impl $tr for $S {
            type Output = $S;
            fn $f(self, o: $S) -> $S {
                self.bin(o, Node::$node)
            }
        }
        impl<'a> $tr<&'a $S> for $S {
            type Output = $S;
            fn $f(self, o: &$S) -> $S {
                self.bin(*o, Node::$node)
            }
        }
        impl<'a> $tr<$S> for &'a $S {
            type Output = $S;
            fn $f(self, o: $S) -> $S {
                self.bin(o, Node::$node)
            }
        }
        impl<'a, 'b> $tr<&'b $S> for &'a $S {
            type Output = $S;
            fn $f(self, o: &$S) -> $S {
                self.bin(*o, Node::$node)
            }
        }
        impl $atr for $S {
            fn $af(&mut self, o: $S) {
                *self = self.bin(o, Node::$node);
            }
        }
        impl<'a> $atr<&'a $S> for $S {
            fn $af(&mut self, o: &$S) {
                *self = self.bin(*o, Node::$node);
            }
        }
    };
}

macro_rules! common {
    ($S:ident) => {
impl $S {
    pub fn var(i: u32) -> $S {
        $S(with(|a| a.var(i)))
    }
    pub fn c(v: f64) -> $S {
        $S(with(|a| a.num(v)))
    }
    fn un(self, f: fn(Id) -> Node) -> $S {
        $S(with(|a| a.mk(f(self.0))))
    }
    fn bin(self, o: $S, f: fn(Id, Id) -> Node) -> $S {
        $S(with(|a| a.mk(f(self.0, o.0))))
    }
    fn cmp(self, o: $S, f: fn(Id, Id) -> Node) -> SymB {
        SymB(with(|a| a.mk(f(self.0, o.0))))
    }
    pub fn konst(self) -> Option<f64> {
        with(|a| a.konst(self.0))
    }
}

impl Default for $S {
    fn default() -> Self {
        $S::c(0.0)
    }
}

binop!($S, Add, add, AddAssign, add_assign, Add);
binop!($S, Sub, sub, SubAssign, sub_assign, Sub);
binop!($S, Mul, mul, MulAssign, mul_assign, Mul);
binop!($S, Div, div, DivAssign, div_assign, Div);

impl Neg for $S {
    type Output = $S;
    fn neg(self) -> $S {
        self.un(Node::Neg)
    }
}
impl<'a> Neg for &'a $S {
    type Output = $S;
    fn neg(self) -> $S {
        self.un(Node::Neg)
    }
}

impl Real for $S {
    fn from_f64(n: f64) -> Self {
        $S::c(n)
    }
}
impl FromScalar for $S {
    type Scalar = f64;
    fn from_scalar(s: f64) -> Self {
        $S::c(s)
    }
}
impl Zero for $S {
    fn zero() -> Self {
        $S::c(0.0)
    }
}
impl One for $S {
    fn one() -> Self {
        $S::c(1.0)
    }
}
impl MinMax for $S {
    fn min(self, o: Self) -> Self {
        self.bin(o, Node::Min)
    }
    fn max(self, o: Self) -> Self {
        self.bin(o, Node::Max)
    }
    fn min_max(self, o: Self) -> (Self, Self) {
        (self.bin(o, Node::Min), self.bin(o, Node::Max))
    }
}
impl Trigonometry for $S {
    fn sin(self) -> Self {
        self.un(Node::Sin)
    }
    fn cos(self) -> Self {
        self.un(Node::Cos)
    }
    fn sin_cos(self) -> (Self, Self) {
        (self.un(Node::Sin), self.un(Node::Cos))
    }
    fn tan(self) -> Self {
        self.un(Node::Tan)
    }
    fn asin(self) -> Self {
        self.un(Node::Asin)
    }
    fn acos(self) -> Self {
        self.un(Node::Acos)
    }
    fn atan(self) -> Self {
        self.un(Node::Atan)
    }
    fn atan2(self, o: Self) -> Self {
        self.bin(o, Node::Atan2)
    }
}
impl Abs for $S {
    fn abs(self) -> Self {
        self.un(Node::Abs)
    }
}
impl Sqrt for $S {
    fn sqrt(self) -> Self {
        self.un(Node::Sqrt)
    }
}
impl Cbrt for $S {
    fn cbrt(self) -> Self {
        self.un(Node::Cbrt)
    }
}
impl Powf for $S {
    fn powf(self, e: Self) -> Self {
        self.bin(e, Node::Pow)
    }
}
impl Powi for $S {
    fn powi(self, e: i32) -> Self {
        $S(with(|a| a.mk(Node::Powi(self.0, e))))
    }
}
impl Powu for $S {
    fn powu(self, e: u32) -> Self {
        $S(with(|a| a.mk(Node::Powi(self.0, e as i32))))
    }
}
impl Recip for $S {
    fn recip(self) -> Self {
        $S::c(1.0) / self
    }
}
impl Exp for $S {
    fn exp(self) -> Self {
        self.un(Node::Exp)
    }
}
impl Ln for $S {
    fn ln(self) -> Self {
        self.un(Node::Ln)
    }
}
impl Hypot for $S {
    fn hypot(self, o: Self) -> Self {
        (self * self + o * o).sqrt()
    }
}
impl Round for $S {
    fn round(self) -> Self {
        self.un(Node::Round)
    }
    fn floor(self) -> Self {
        self.un(Node::Floor)
    }
    fn ceil(self) -> Self {
        self.un(Node::Ceil)
    }
}
impl Clamp for $S {
    fn clamp(self, min: Self, max: Self) -> Self {
        MinMax::min(MinMax::max(self, min), max)
    }
    fn clamp_min(self, min: Self) -> Self {
        MinMax::max(self, min)
    }
    fn clamp_max(self, max: Self) -> Self {
        MinMax::min(self, max)
    }
}
impl ClampAssign for $S {
    fn clamp_assign(&mut self, min: Self, max: Self) {
        *self = Clamp::clamp(*self, min, max);
    }
    fn clamp_min_assign(&mut self, min: Self) {
        *self = MinMax::max(*self, min);
    }
    fn clamp_max_assign(&mut self, max: Self) {
        *self = MinMax::min(*self, max);
    }
}
impl MulAdd for $S {
    fn mul_add(self, m: Self, a: Self) -> Self {
        self * m + a
    }
}
impl MulSub for $S {
    fn mul_sub(self, m: Self, s: Self) -> Self {
        self * m - s
    }
}
impl Signum for $S {
    fn signum(self) -> Self {
        self.un(Node::Signum)
    }
}
// ---- angles -------------------------------------------------------------------------------------------------------
impl HalfRotation for $S {
    fn half_rotation() -> Self {
        $S::c(180.0)
    }
}
impl FullRotation for $S {
    fn full_rotation() -> Self {
        $S::c(360.0)
    }
}
impl RealAngle for $S {
    fn radians_to_degrees(self) -> Self {
        self * $S::c(180.0f64 / core::f64::consts::PI)
    }
    fn degrees_to_radians(self) -> Self {
        self * $S::c(core::f64::consts::PI / 180.0)
    }
}
impl SignedAngle for $S {
    fn normalize_signed_angle(self) -> Self {
        self - Round::ceil(((self + $S::c(180.0)) / $S::c(360.0)) - $S::c(1.0)) * $S::c(360.0)
    }
}
impl UnsignedAngle for $S {
    fn normalize_unsigned_angle(self) -> Self {
        self - (Round::floor(self / $S::c(360.0)) * $S::c(360.0))
    }
}

    };
}
common!(SymM);
common!(SymF);

impl HasBoolMask for SymM {
    type Mask = SymB;
}
impl IsValidDivisor for SymM {
    /// real-number reading of `f32::is_normal`: |x| >= f32::MIN_POSITIVE
    fn is_valid_divisor(&self) -> SymB {
        SymM::c(f32::MIN_POSITIVE as f64).cmp(Abs::abs(*self), Node::Le)
    }
}
impl PartialCmp for SymM {
    fn lt(&self, o: &Self) -> SymB {
        self.cmp(*o, Node::Lt)
    }
    fn lt_eq(&self, o: &Self) -> SymB {
        self.cmp(*o, Node::Le)
    }
    fn eq(&self, o: &Self) -> SymB {
        self.cmp(*o, Node::Eq)
    }
    fn neq(&self, o: &Self) -> SymB {
        !self.cmp(*o, Node::Eq)
    }
    fn gt_eq(&self, o: &Self) -> SymB {
        o.cmp(*self, Node::Le)
    }
    fn gt(&self, o: &Self) -> SymB {
        o.cmp(*self, Node::Lt)
    }
}

// ---- masks -------------------------------------------------------------------------------------------------------
impl BoolMask for SymB {
    fn from_bool(v: bool) -> Self {
        SymB::c(v)
    }
    fn is_true(&self) -> bool {
        self.konst() == Some(true)
    }
    fn is_false(&self) -> bool {
        self.konst() == Some(false)
    }
}
macro_rules! bbin {
    ($tr:ident, $f:ident, $atr:ident, $af:ident, |$x:ident, $y:ident| $e:expr) => {
        impl $tr for SymB {
            type Output = SymB;
            fn $f(self, o: SymB) -> SymB {
                let ($x, $y) = (self, o);
                $e
            }
        }
        impl<'a> $tr<&'a SymB> for SymB {
            type Output = SymB;
            fn $f(self, o: &SymB) -> SymB {
                let ($x, $y) = (self, *o);
                $e
            }
        }
        impl $atr for SymB {
            fn $af(&mut self, o: SymB) {
                let ($x, $y) = (*self, o);
                *self = $e;
            }
        }
    };
}
fn band(x: SymB, y: SymB) -> SymB {
    SymB(with(|a| a.mk(Node::And(x.0, y.0))))
}
fn bor(x: SymB, y: SymB) -> SymB {
    SymB(with(|a| a.mk(Node::Or(x.0, y.0))))
}
bbin!(BitAnd, bitand, BitAndAssign, bitand_assign, |x, y| band(x, y));
bbin!(BitOr, bitor, BitOrAssign, bitor_assign, |x, y| bor(x, y));
bbin!(BitXor, bitxor, BitXorAssign, bitxor_assign, |x, y| bor(band(x, !y), band(!x, y)));
impl Not for SymB {
    type Output = SymB;
    fn not(self) -> SymB {
        SymB(with(|a| a.mk(Node::Not(self.0))))
    }
}
impl Select<SymM> for SymB {
    fn select(self, a: SymM, b: SymM) -> SymM {
        self.ite(a, b)
    }
}
impl LazySelect<SymM> for SymB {
    /// Both branches are evaluated (that is what a SIMD lane does); the branch condition is pushed on the arena's
    /// path stack so that partial operations inside a branch are recorded under their guard.
    fn lazy_select<A, B>(self, a: A, b: B) -> SymM
    where
        A: FnOnce() -> SymM,
        B: FnOnce() -> SymM,
    {
        with(|ar| ar.path.push(self.0));
        let va = a();
        let n = (!self).0;
        with(|ar| {
            ar.path.pop();
            ar.path.push(n)
        });
        let vb = b();
        with(|ar| {
            ar.path.pop();
        });
        self.ite(va, vb)
    }
}


impl AngleEq for SymM {
    fn angle_eq(&self, o: &Self) -> SymB {
        self.normalize_unsigned_angle().cmp(o.normalize_unsigned_angle(), Node::Eq)
    }
}

// ---- SymF: bool mask, decisions ---------------------------------------------------------------------------------------
use std::cell::RefCell;
use std::collections::HashMap;

#[derive(Default)]
pub struct Decider {
    /// outcomes to take for the first decisions of this run (further ones default to `true`)
    pub prefix: Vec<bool>,
    /// decisions made in this run: (condition id, outcome)
    pub trail: Vec<(Id, bool)>,
    seen: HashMap<Id, bool>,
    /// bounds implied by earlier decisions on comparisons of a term with a constant: (lo, lo_strict, hi, hi_strict)
    bounds: HashMap<Id, (f64, bool, f64, bool)>,
}
thread_local! {
    pub static DECIDER: RefCell<Decider> = RefCell::new(Decider::default());
}
pub fn decider_start(prefix: Vec<bool>) {
    DECIDER.with(|d| *d.borrow_mut() = Decider { prefix, trail: vec![], seen: HashMap::new(), bounds: HashMap::new() });
}
pub fn decider_trail() -> Vec<(Id, bool)> {
    DECIDER.with(|d| d.borrow().trail.clone())
}

/// (term, constant, term_is_left, strict): the condition is `term < c` / `term <= c` (left) or `c < term` / `c <= term`
fn const_cmp(c: SymB) -> Option<(Id, f64, bool, bool)> {
    with(|a| {
        let (x, y, strict) = match a.get(c.0) {
            Node::Lt(x, y) => (*x, *y, true),
            Node::Le(x, y) => (*x, *y, false),
            _ => return None,
        };
        match (a.konst(x), a.konst(y)) {
            (None, Some(k)) => Some((x, k, true, strict)),
            (Some(k), None) => Some((y, k, false, strict)),
            _ => None,
        }
    })
}

/// Concrete answer for a symbolic condition on the current path. Outcomes that are implied by earlier decisions of the
/// same path (repeated condition, complementary comparison, comparison of the same term with another constant) are not
/// new decisions: this prunes the infeasible combinations of range tests such as the six hue zones.
pub fn decide(c: SymB) -> bool {
    if let Some(v) = c.konst() {
        return v;
    }
    let cc = const_cmp(c);
    // complementary condition: !(a < b) == (b <= a)
    let compl = with(|a| match a.get(c.0).clone() {
        Node::Lt(x, y) => Some(a.mk(Node::Le(y, x))),
        Node::Le(x, y) => Some(a.mk(Node::Lt(y, x))),
        _ => None,
    });
    DECIDER.with(|d| {
        let mut d = d.borrow_mut();
        if let Some(v) = d.seen.get(&c.0) {
            return *v;
        }
        if let Some((t, k, left, strict)) = cc {
            let (lo, los, hi, his) = *d.bounds.get(&t).unwrap_or(&(f64::NEG_INFINITY, false, f64::INFINITY, false));
            // implied outcome?
            let implied = if left {
                // t < k  /  t <= k
                if hi < k || (hi == k && (his || !strict)) { Some(true) }
                else if lo > k || (lo == k && (strict || los)) { Some(false) }
                else { None }
            } else {
                // k < t  /  k <= t
                if lo > k || (lo == k && (los || !strict)) { Some(true) }
                else if hi < k || (hi == k && (strict || his)) { Some(false) }
                else { None }
            };
            if let Some(v) = implied {
                d.seen.insert(c.0, v);
                return v;
            }
        }
        let i = d.trail.len();
        let v = if i < d.prefix.len() { d.prefix[i] } else { true };
        assert!(i < 200, "more than 200 decisions on one path");
        d.trail.push((c.0, v));
        d.seen.insert(c.0, v);
        if let Some(cid) = compl {
            d.seen.insert(cid, !v);
        }
        if let Some((t, k, left, strict)) = cc {
            let e = d.bounds.entry(t).or_insert((f64::NEG_INFINITY, false, f64::INFINITY, false));
            // the condition (or its negation) as a bound on t
            match (left, v) {
                (true, true) => { if k < e.2 || (k == e.2 && strict) { e.2 = k; e.3 = strict; } }      // t < k / t <= k
                (true, false) => { if k > e.0 || (k == e.0 && !strict) { e.0 = k; e.1 = !strict; } }    // t >= k / t > k
                (false, true) => { if k > e.0 || (k == e.0 && strict) { e.0 = k; e.1 = strict; } }      // t > k / t >= k
                (false, false) => { if k < e.2 || (k == e.2 && !strict) { e.2 = k; e.3 = !strict; } }   // t <= k / t < k
            }
        }
        v
    })
}
impl HasBoolMask for SymF {
    type Mask = bool;
}
impl IsValidDivisor for SymF {
    fn is_valid_divisor(&self) -> bool {
        decide(SymF::c(f32::MIN_POSITIVE as f64).cmp(Abs::abs(*self), Node::Le))
    }
}
impl PartialCmp for SymF {
    fn lt(&self, o: &Self) -> bool {
        decide(self.cmp(*o, Node::Lt))
    }
    fn lt_eq(&self, o: &Self) -> bool {
        decide(self.cmp(*o, Node::Le))
    }
    fn eq(&self, o: &Self) -> bool {
        decide(self.cmp(*o, Node::Eq))
    }
    fn neq(&self, o: &Self) -> bool {
        !decide(self.cmp(*o, Node::Eq))
    }
    fn gt_eq(&self, o: &Self) -> bool {
        decide(o.cmp(*self, Node::Le))
    }
    fn gt(&self, o: &Self) -> bool {
        decide(o.cmp(*self, Node::Lt))
    }
}
impl PartialEq for SymF {
    fn eq(&self, o: &Self) -> bool {
        decide(self.cmp(*o, Node::Eq))
    }
}
impl PartialOrd for SymF {
    fn partial_cmp(&self, o: &Self) -> Option<core::cmp::Ordering> {
        Some(if decide(self.cmp(*o, Node::Lt)) {
            core::cmp::Ordering::Less
        } else if decide(self.cmp(*o, Node::Eq)) {
            core::cmp::Ordering::Equal
        } else {
            core::cmp::Ordering::Greater
        })
    }
    fn lt(&self, o: &Self) -> bool {
        decide(self.cmp(*o, Node::Lt))
    }
    fn le(&self, o: &Self) -> bool {
        decide(self.cmp(*o, Node::Le))
    }
    fn gt(&self, o: &Self) -> bool {
        decide(o.cmp(*self, Node::Lt))
    }
    fn ge(&self, o: &Self) -> bool {
        decide(o.cmp(*self, Node::Le))
    }
}
impl AngleEq for SymF {
    fn angle_eq(&self, o: &Self) -> bool {
        decide(self.normalize_unsigned_angle().cmp(o.normalize_unsigned_angle(), Node::Eq))
    }
}


// palette's HSLuv gamut boundary (luv_bounds.rs) leaves the generic number type and works in f64 (`T: Into<f64>`): a symbolic
// number can only follow it when it is a constant (obligations that fix lightness and hue as a configuration)
impl From<SymF> for f64 {
    fn from(x: SymF) -> f64 {
        x.konst().expect("Into<f64> on a symbolic (non-constant) number: luv_bounds needs concrete lightness and hue")
    }
}
impl From<SymM> for f64 {
    fn from(x: SymM) -> f64 {
        x.konst().expect("Into<f64> on a symbolic (non-constant) number: luv_bounds needs concrete lightness and hue")
    }
}
