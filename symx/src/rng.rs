//! Environment stub for randomness: every draw of rand's `Standard` float distribution becomes one declared variable
//! u in [0,1) (symbolic run) resp. the RNG word that makes rand's real f32/f64 `Standard` return that value (native replay).
use crate::sym::SymM;
use rand::distributions::{Distribution, Standard};
use rand::RngCore;
use std::cell::RefCell;

thread_local! {
    static QUEUE: RefCell<Vec<SymM>> = RefCell::new(Vec::new());
}

/// Symbolic "generator": `Standard.sample` for SymM pops the next declared variable.
pub struct SymRng;
impl RngCore for SymRng {
    fn next_u32(&mut self) -> u32 {
        panic!("raw RNG words are not modelled: only Standard float draws")
    }
    fn next_u64(&mut self) -> u64 {
        panic!("raw RNG words are not modelled: only Standard float draws")
    }
    fn fill_bytes(&mut self, _: &mut [u8]) {
        panic!("raw RNG bytes are not modelled")
    }
    fn try_fill_bytes(&mut self, _: &mut [u8]) -> Result<(), rand::Error> {
        panic!("raw RNG bytes are not modelled")
    }
}
impl Distribution<SymM> for Standard {
    fn sample<R: rand::Rng + ?Sized>(&self, _rng: &mut R) -> SymM {
        QUEUE.with(|q| q.borrow_mut().pop().expect("more Standard draws than declared variables"))
    }
}

/// Native generator: the i-th Standard float draw returns (the float nearest below) the i-th given value.
pub struct WordRng {
    vals: Vec<f64>,
    i: usize,
}
impl RngCore for WordRng {
    fn next_u32(&mut self) -> u32 {
        // rand 0.8 Standard for f32: (next_u32() >> 8) as f32 * 2^-24
        let v = self.vals[self.i.min(self.vals.len() - 1)];
        self.i += 1;
        (((v * 16777216.0) as u32).min(16777215)) << 8
    }
    fn next_u64(&mut self) -> u64 {
        // rand 0.8 Standard for f64: (next_u64() >> 11) as f64 * 2^-53
        let v = self.vals[self.i.min(self.vals.len() - 1)];
        self.i += 1;
        (((v * 9007199254740992.0) as u64).min(9007199254740991)) << 11
    }
    fn fill_bytes(&mut self, d: &mut [u8]) {
        for b in d {
            *b = 0;
        }
    }
    fn try_fill_bytes(&mut self, d: &mut [u8]) -> Result<(), rand::Error> {
        self.fill_bytes(d);
        Ok(())
    }
}

pub trait RngFor: Sized {
    type R: RngCore;
    fn rng(draws: &[Self]) -> Self::R;
}
impl RngFor for SymM {
    type R = SymRng;
    fn rng(draws: &[SymM]) -> SymRng {
        QUEUE.with(|q| *q.borrow_mut() = draws.iter().rev().cloned().collect());
        SymRng
    }
}
impl RngFor for f64 {
    type R = WordRng;
    fn rng(draws: &[f64]) -> WordRng {
        WordRng { vals: draws.to_vec(), i: 0 }
    }
}
impl RngFor for f32 {
    type R = WordRng;
    fn rng(draws: &[f32]) -> WordRng {
        WordRng { vals: draws.iter().map(|x| *x as f64).collect(), i: 0 }
    }
}

// ---- scalar-path symbolic type (SymF): Standard draws and rand's Uniform as its documented contract ----------------------
use crate::sym::SymF;
use rand::distributions::uniform::{SampleBorrow, SampleUniform, UniformSampler};

thread_local! {
    static QUEUE_F: RefCell<Vec<SymF>> = RefCell::new(Vec::new());
}
impl Distribution<SymF> for Standard {
    fn sample<R: rand::Rng + ?Sized>(&self, _rng: &mut R) -> SymF {
        QUEUE_F.with(|q| q.borrow_mut().pop().expect("more draws than declared variables"))
    }
}
impl RngFor for SymF {
    type R = SymRng;
    fn rng(draws: &[SymF]) -> SymRng {
        QUEUE_F.with(|q| *q.borrow_mut() = draws.iter().rev().cloned().collect());
        SymRng
    }
}
/// rand's `Uniform<float>` as its contract: `new(lo, hi)` / `new_inclusive(lo, hi)` sample lo + (hi - lo) u with u the next
/// declared draw in [0, 1] (rand guarantees [lo, hi) resp. [lo, hi]; the closed interval is the weaker statement). Natively the
/// real `UniformFloat<f32 / f64>` runs on a generator whose words reproduce the same u.
pub struct SymUniform {
    lo: SymF,
    hi: SymF,
}
impl SampleUniform for SymF {
    type Sampler = SymUniform;
}
impl UniformSampler for SymUniform {
    type X = SymF;
    fn new<B1, B2>(low: B1, high: B2) -> Self
    where
        B1: SampleBorrow<SymF> + Sized,
        B2: SampleBorrow<SymF> + Sized,
    {
        SymUniform { lo: *low.borrow(), hi: *high.borrow() }
    }
    fn new_inclusive<B1, B2>(low: B1, high: B2) -> Self
    where
        B1: SampleBorrow<SymF> + Sized,
        B2: SampleBorrow<SymF> + Sized,
    {
        SymUniform { lo: *low.borrow(), hi: *high.borrow() }
    }
    fn sample<R: rand::Rng + ?Sized>(&self, _rng: &mut R) -> SymF {
        let u = QUEUE_F.with(|q| q.borrow_mut().pop().expect("more draws than declared variables"));
        self.lo + (self.hi - self.lo) * u
    }
}
