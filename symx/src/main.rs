//! symx: symbolic instantiation of palette's generic code.
//!   symx list [PROP]                 -> one JSON line per obligation (metadata)
//!   symx emit PROP [quick|thorough]  -> one JSON line per obligation: metadata + term DAG + assumption/goal ids
//!   symx replay NAME SCALE v0 v1 ... -> native f64 and f32 evaluation of the same obligation body
mod arena;
mod obl;
mod props;
mod reference;
mod rng;
mod sym;

use arena::Node;
use obl::{Obl, Tier, TOL_SCALE};
use sym::SymM;

fn esc(s: &str) -> String {
    let mut o = String::new();
    for ch in s.chars() {
        match ch {
            '"' => o.push_str("\\\""),
            '\\' => o.push_str("\\\\"),
            '\n' => o.push_str("\\n"),
            c => o.push(c),
        }
    }
    o
}

fn meta_json(o: &Obl) -> String {
    let vars: Vec<String> = o.vars.iter().map(|v| format!("{{\"name\":\"{}\",\"lo\":{:e},\"hi\":{:e}}}", esc(&v.name), v.lo, v.hi)).collect();
    let fns: Vec<String> = o.fns.iter().map(|f| format!("\"{}\"", esc(f))).collect();
    format!(
        "\"name\":\"{}\",\"prop\":\"{}\",\"tier\":\"{}\",\"desc\":\"{}\",\"functions\":[{}],\"vars\":[{}]",
        esc(&o.name), o.prop, match o.tier { Tier::Quick => "quick", Tier::Thorough => "thorough", Tier::Open => "open" }, esc(&o.desc), fns.join(","), vars.join(",")
    )
}

fn node_json(n: &Node) -> String {
    use Node::*;
    let u = |t: &str, a: &u32| format!("[\"{}\",{}]", t, a);
    let b = |t: &str, a: &u32, c: &u32| format!("[\"{}\",{},{}]", t, a, c);
    match n {
        Var(i) => format!("[\"var\",{}]", i),
        Const(bits) => format!("[\"const\",\"{}\"]", bits),
        Add(x, y) => b("add", x, y),
        Sub(x, y) => b("sub", x, y),
        Mul(x, y) => b("mul", x, y),
        Div(x, y) => b("div", x, y),
        Neg(x) => u("neg", x),
        Min(x, y) => b("min", x, y),
        Max(x, y) => b("max", x, y),
        Abs(x) => u("abs", x),
        Sqrt(x) => u("sqrt", x),
        Cbrt(x) => u("cbrt", x),
        Pow(x, y) => b("pow", x, y),
        Powi(x, e) => format!("[\"powi\",{},{}]", x, e),
        Exp(x) => u("exp", x),
        Ln(x) => u("ln", x),
        Sin(x) => u("sin", x),
        Cos(x) => u("cos", x),
        Tan(x) => u("tan", x),
        Asin(x) => u("asin", x),
        Acos(x) => u("acos", x),
        Atan(x) => u("atan", x),
        Atan2(y, x) => b("atan2", y, x),
        Floor(x) => u("floor", x),
        Ceil(x) => u("ceil", x),
        Round(x) => u("round", x),
        Signum(x) => u("signum", x),
        Ite(c, x, y) => format!("[\"ite\",{},{},{}]", c, x, y),
        BConst(v) => format!("[\"bconst\",{}]", v),
        Lt(x, y) => b("lt", x, y),
        Le(x, y) => b("le", x, y),
        Eq(x, y) => b("eq", x, y),
        And(x, y) => b("and", x, y),
        Or(x, y) => b("or", x, y),
        Not(x) => u("not", x),
    }
}

fn dump(o: &Obl, paths: &[(Vec<(u32, bool)>, obl::Res<sym::SymB>)], mode: &str, truncated: bool) {
    dump_x(o, paths, mode, truncated, "")
}

fn dump_x(o: &Obl, paths: &[(Vec<(u32, bool)>, obl::Res<sym::SymB>)], mode: &str, truncated: bool, extra: &str) {
    let ps: Vec<String> = paths
        .iter()
        .map(|(trail, res)| {
            let pc: Vec<String> = trail.iter().map(|(c, t)| format!("[{},{}]", c, t)).collect();
            let assume: Vec<String> = res.assume.iter().map(|b| b.0.to_string()).collect();
            let goals: Vec<String> = res.goals.iter().map(|(n, b)| format!("[\"{}\",{}]", esc(n), b.0)).collect();
            format!("{{\"pc\":[{}],\"assume\":[{}],\"goals\":[{}]}}", pc.join(","), assume.join(","), goals.join(","))
        })
        .collect();
    arena::with(|a| {
        let nodes: Vec<String> = a.nodes.iter().map(node_json).collect();
        let partial: Vec<String> = a
            .partial
            .iter()
            .map(|(k, ops, pc, run)| format!("[\"{}\",[{}],{},{}]", k, ops.iter().map(|x| x.to_string()).collect::<Vec<_>>().join(","), pc, run))
            .collect();
        println!(
            "{{{},\"mode\":\"{}\",\"paths_truncated\":{},{}\"nodes\":[{}],\"paths\":[{}],\"partial\":[{}]}}",
            meta_json(o), mode, truncated, extra, nodes.join(","), ps.join(","), partial.join(",")
        );
    });
}

const MAX_PATHS: usize = 4096;

fn emit(o: &Obl) {
    arena::reset();
    TOL_SCALE.with(|t| t.set(1.0));
    if let Some(f) = &o.sym {
        let vars: Vec<SymM> = (0..o.vars.len()).map(|i| SymM::var(i as u32)).collect();
        let res = f(&vars);
        dump(o, &[(vec![], res)], "mask-generic (SymM)", false);
    } else if let Some((fm, ff, tol)) = &o.mf {
        use obl::Num;
        let vm: Vec<SymM> = (0..o.vars.len()).map(|i| SymM::var(i as u32)).collect();
        let outs_m = fm(&vm);
        let vars: Vec<sym::SymF> = (0..o.vars.len()).map(|i| sym::SymF::var(i as u32)).collect();
        let mut stack: Vec<Vec<bool>> = vec![vec![]];
        let mut paths = Vec::new();
        let mut truncated = false;
        while let Some(prefix) = stack.pop() {
            if paths.len() >= MAX_PATHS {
                truncated = true;
                break;
            }
            sym::decider_start(prefix.clone());
            arena::with(|a| a.run = paths.len() as u32);
            let outs_f = ff(&vars);
            let trail = sym::decider_trail();
            for i in (prefix.len()..trail.len()).rev() {
                let mut p: Vec<bool> = trail[..i].iter().map(|(_, t)| *t).collect();
                p.push(!trail[i].1);
                stack.push(p);
            }
            let mut res = obl::Res::<sym::SymB>::new();
            for ((n, m), (_, f)) in outs_m.iter().zip(outs_f.iter()) {
                // both handles live in the same arena: compare the SIMD-path term with the scalar-path term
                res.goal(n, m.close(SymM(f.0), *tol));
            }
            paths.push((trail, res));
        }
        let mo: Vec<String> = outs_m.iter().map(|(n, m)| format!("[\"{}\",{}]", esc(n), m.0)).collect();
        dump_x(o, &paths, "simd-vs-scalar (SymM DAG against every SymF path)", truncated, &format!("\"tol\":{:e},\"m_outputs\":[{}],", tol, mo.join(",")));
    } else if let Some(f) = &o.symf {
        let vars: Vec<sym::SymF> = (0..o.vars.len()).map(|i| sym::SymF::var(i as u32)).collect();
        // depth-first enumeration of decision vectors; every run extends its prefix with `true` outcomes
        let mut stack: Vec<Vec<bool>> = vec![vec![]];
        let mut paths = Vec::new();
        let mut truncated = false;
        while let Some(prefix) = stack.pop() {
            if paths.len() >= MAX_PATHS {
                truncated = true;
                break;
            }
            sym::decider_start(prefix.clone());
            arena::with(|a| a.run = paths.len() as u32);
            let res = f(&vars);
            let trail = sym::decider_trail();
            // schedule the siblings of every decision made beyond the prefix
            for i in (prefix.len()..trail.len()).rev() {
                let mut p: Vec<bool> = trail[..i].iter().map(|(_, t)| *t).collect();
                p.push(!trail[i].1);
                stack.push(p);
            }
            paths.push((trail, res));
        }
        dump(o, &paths, "scalar (SymF, path enumeration)", truncated);
    }
}

fn replay_json(assume: &[bool], goals: &[(String, bool)], show: &[(String, Option<f64>)]) -> String {
    let g: Vec<String> = goals.iter().map(|(n, b)| format!("\"{}\":{}", esc(n), b)).collect();
    let s: Vec<String> = show.iter().map(|(n, v)| format!("\"{}\":\"{:?}\"", esc(n), v)).collect();
    format!("{{\"assume_ok\":{},\"goals\":{{{}}},\"show\":{{{}}}}}", assume.iter().all(|b| *b), g.join(","), s.join(","))
}

fn main() {
    let args: Vec<String> = std::env::args().collect();
    let all = props::all();
    match args.get(1).map(|s| s.as_str()) {
        Some("list") => {
            for o in all.iter().filter(|o| args.get(2).map_or(true, |p| o.prop.eq_ignore_ascii_case(p))) {
                println!("{{{}}}", meta_json(o));
            }
        }
        Some("emit") => {
            let prop = args.get(2).expect("PROP");
            let thorough = args.get(3).map_or(false, |t| t == "thorough");
            for o in all.iter().filter(|o| o.prop.eq_ignore_ascii_case(prop) || &o.name == prop) {
                if o.tier == Tier::Thorough && !thorough && &o.name != prop {
                    continue;
                }
                if o.tier == Tier::Open && &o.name != prop && std::env::var("PV_OPEN").is_err() {
                    continue;
                }
                emit(o);
            }
        }
        Some("replay") => {
            let name = args.get(2).expect("NAME");
            let scale: f64 = args.get(3).expect("SCALE").parse().expect("scale");
            let vals: Vec<f64> = args[4..].iter().map(|s| s.parse().expect("value")).collect();
            let o = all.iter().find(|o| &o.name == name).expect("unknown obligation");
            assert_eq!(vals.len(), o.vars.len(), "value count");
            let vals: Vec<f64> = vals.iter().zip(&o.vars).map(|(v, d)| v.max(d.lo).min(d.hi)).collect();
            TOL_SCALE.with(|t| t.set(scale));
            let r64 = (o.f64)(&vals);
            let v32: Vec<f32> = vals.iter().zip(&o.vars).map(|(v, d)| (*v as f32).max(d.lo as f32).min(d.hi as f32)).collect();
            let r32 = (o.f32)(&v32);
            println!(
                "{{\"name\":\"{}\",\"f64\":{},\"f32\":{},\"inputs_f64\":{:?},\"inputs_f32\":{:?}}}",
                esc(name), replay_json(&r64.assume, &r64.goals, &r64.show), replay_json(&r32.assume, &r32.goals, &r32.show), vals, v32
            );
        }
        _ => {
            eprintln!("usage: symx list [PROP] | emit PROP [tier] | replay NAME SCALE values...");
            std::process::exit(2);
        }
    }
}
