//! Hash-consed term DAG. Every arithmetic operation of palette's generic code, instantiated with `SymM`, lands here.
use std::cell::RefCell;
use std::collections::HashMap;

pub type Id = u32;

#[derive(Clone, Debug, PartialEq, Eq, Hash)]
pub enum Node {
    Var(u32),
    Const(u64), // f64 bits
    Add(Id, Id),
    Sub(Id, Id),
    Mul(Id, Id),
    Div(Id, Id),
    Neg(Id),
    Min(Id, Id),
    Max(Id, Id),
    Abs(Id),
    Sqrt(Id),
    Cbrt(Id),
    Pow(Id, Id),
    Powi(Id, i32),
    Exp(Id),
    Ln(Id),
    Sin(Id),
    Cos(Id),
    Tan(Id),
    Asin(Id),
    Acos(Id),
    Atan(Id),
    Atan2(Id, Id),
    Floor(Id),
    Ceil(Id),
    Round(Id),
    Signum(Id),
    Ite(Id, Id, Id),
    // booleans
    BConst(bool),
    Lt(Id, Id),
    Le(Id, Id),
    Eq(Id, Id),
    And(Id, Id),
    Or(Id, Id),
    Not(Id),
}

#[derive(Default)]
pub struct Arena {
    pub nodes: Vec<Node>,
    map: HashMap<Node, Id>,
    /// stack of path conditions (boolean ids) established by enclosing lazy_select branches
    pub path: Vec<Id>,
    /// partial operations executed: (kind, operand ids, path condition id, run number)
    pub partial: Vec<(&'static str, Vec<Id>, Id, u32)>,
    /// number of the current symbolic run (one per decision vector for SymF)
    pub run: u32,
}

thread_local! {
    pub static ARENA: RefCell<Arena> = RefCell::new(Arena::default());
}

pub fn reset() {
    ARENA.with(|a| *a.borrow_mut() = Arena::default());
}

pub fn with<R>(f: impl FnOnce(&mut Arena) -> R) -> R {
    ARENA.with(|a| f(&mut a.borrow_mut()))
}

fn c(v: f64) -> Node {
    Node::Const(if v == 0.0 { 0f64.to_bits() } else { v.to_bits() })
}

impl Arena {
    pub fn get(&self, id: Id) -> &Node {
        &self.nodes[id as usize]
    }
    pub fn konst(&self, id: Id) -> Option<f64> {
        match self.get(id) {
            Node::Const(b) => Some(f64::from_bits(*b)),
            _ => None,
        }
    }
    pub fn bkonst(&self, id: Id) -> Option<bool> {
        match self.get(id) {
            Node::BConst(b) => Some(*b),
            _ => None,
        }
    }
    fn intern(&mut self, n: Node) -> Id {
        if let Some(&id) = self.map.get(&n) {
            return id;
        }
        let id = self.nodes.len() as Id;
        self.nodes.push(n.clone());
        self.map.insert(n, id);
        id
    }
    pub fn num(&mut self, v: f64) -> Id {
        self.intern(c(v))
    }
    pub fn bool(&mut self, b: bool) -> Id {
        self.intern(Node::BConst(b))
    }
    pub fn var(&mut self, i: u32) -> Id {
        self.intern(Node::Var(i))
    }
    fn pathcond(&mut self) -> Id {
        let p = self.path.clone();
        let mut acc = self.bool(true);
        for b in p {
            acc = self.mk(Node::And(acc, b));
        }
        acc
    }
    fn log_partial(&mut self, kind: &'static str, ops: Vec<Id>) {
        let pc = self.pathcond();
        let run = self.run;
        self.partial.push((kind, ops, pc, run));
    }

    /// Builds a node with constant folding (in f64, what the code itself computes for constants) and the handful of
    /// real-arithmetic identities that keep syntactically equal computations syntactically equal.
    pub fn mk(&mut self, n: Node) -> Id {
        use Node::*;
        let k = |s: &Arena, i: Id| s.konst(i);
        let b = |s: &Arena, i: Id| s.bkonst(i);
        let n = match n {
            Add(x, y) => match (k(self, x), k(self, y)) {
                (Some(a), Some(bb)) => c(a + bb),
                (Some(a), _) if a == 0.0 => return y,
                (_, Some(bb)) if bb == 0.0 => return x,
                _ => Add(x.min(y), x.max(y)),
            },
            Sub(x, y) => match (k(self, x), k(self, y)) {
                (Some(a), Some(bb)) => c(a - bb),
                (_, Some(bb)) if bb == 0.0 => return x,
                (Some(a), _) if a == 0.0 => return self.mk(Neg(y)),
                _ if x == y => c(0.0),
                _ => Sub(x, y),
            },
            Mul(x, y) => match (k(self, x), k(self, y)) {
                (Some(a), Some(bb)) => c(a * bb),
                (Some(a), _) if a == 1.0 => return y,
                (_, Some(bb)) if bb == 1.0 => return x,
                (Some(a), _) if a == 0.0 => c(0.0),
                (_, Some(bb)) if bb == 0.0 => c(0.0),
                _ => Mul(x.min(y), x.max(y)),
            },
            Div(x, y) => {
                if k(self, y).is_none() || k(self, y) == Some(0.0) {
                    self.log_partial("div", vec![x, y]);
                }
                match (k(self, x), k(self, y)) {
                    (Some(a), Some(bb)) if bb != 0.0 => c(a / bb),
                    (_, Some(bb)) if bb == 1.0 => return x,
                    _ => Div(x, y),
                }
            }
            Neg(x) => match (k(self, x), self.get(x).clone()) {
                (Some(a), _) => c(-a),
                (_, Neg(i)) => return i,
                _ => Neg(x),
            },
            Min(x, y) => match (k(self, x), k(self, y)) {
                (Some(a), Some(bb)) => c(a.min(bb)),
                _ if x == y => return x,
                _ => Min(x.min(y), x.max(y)),
            },
            Max(x, y) => match (k(self, x), k(self, y)) {
                (Some(a), Some(bb)) => c(a.max(bb)),
                _ if x == y => return x,
                _ => Max(x.min(y), x.max(y)),
            },
            Abs(x) => match k(self, x) {
                Some(a) => c(a.abs()),
                _ => Abs(x),
            },
            Sqrt(x) => {
                if k(self, x).map_or(true, |a| a < 0.0) {
                    self.log_partial("sqrt", vec![x]);
                }
                match k(self, x) {
                    Some(a) if a >= 0.0 => c(a.sqrt()),
                    _ => Sqrt(x),
                }
            }
            Cbrt(x) => match k(self, x) {
                Some(a) => c(a.cbrt()),
                _ => Cbrt(x),
            },
            Pow(x, y) => {
                if !(k(self, x).map_or(false, |a| a > 0.0) && k(self, y).is_some()) {
                    self.log_partial("pow", vec![x, y]);
                }
                match (k(self, x), k(self, y)) {
                    (Some(a), Some(bb)) if a >= 0.0 => c(a.powf(bb)),
                    (_, Some(bb)) if bb == 1.0 => return x,
                    _ => Pow(x, y),
                }
            }
            Powi(x, e) => {
                if e < 0 && k(self, x).map_or(true, |a| a == 0.0) {
                    self.log_partial("powi_neg", vec![x]);
                }
                match k(self, x) {
                    Some(a) if !(e < 0 && a == 0.0) => c(a.powi(e)),
                    _ if e == 1 => return x,
                    _ if e == 0 => c(1.0),
                    _ => Powi(x, e),
                }
            }
            Exp(x) => match k(self, x) {
                Some(a) => c(a.exp()),
                _ => Exp(x),
            },
            Ln(x) => {
                if k(self, x).map_or(true, |a| a <= 0.0) {
                    self.log_partial("ln", vec![x]);
                }
                match k(self, x) {
                    Some(a) if a > 0.0 => c(a.ln()),
                    _ => Ln(x),
                }
            }
            Sin(x) => match k(self, x) {
                Some(a) => c(a.sin()),
                _ => Sin(x),
            },
            Cos(x) => match k(self, x) {
                Some(a) => c(a.cos()),
                _ => Cos(x),
            },
            Tan(x) => match k(self, x) {
                Some(a) => c(a.tan()),
                _ => Tan(x),
            },
            Asin(x) => {
                if k(self, x).map_or(true, |a| a.abs() > 1.0) {
                    self.log_partial("asin", vec![x]);
                }
                match k(self, x) {
                    Some(a) if a.abs() <= 1.0 => c(a.asin()),
                    _ => Asin(x),
                }
            }
            Acos(x) => {
                if k(self, x).map_or(true, |a| a.abs() > 1.0) {
                    self.log_partial("acos", vec![x]);
                }
                match k(self, x) {
                    Some(a) if a.abs() <= 1.0 => c(a.acos()),
                    _ => Acos(x),
                }
            }
            Atan(x) => match k(self, x) {
                Some(a) => c(a.atan()),
                _ => Atan(x),
            },
            Atan2(y, x) => match (k(self, y), k(self, x)) {
                (Some(a), Some(bb)) => c(a.atan2(bb)),
                _ => Atan2(y, x),
            },
            Floor(x) => match k(self, x) {
                Some(a) => c(a.floor()),
                _ => Floor(x),
            },
            Ceil(x) => match k(self, x) {
                Some(a) => c(a.ceil()),
                _ => Ceil(x),
            },
            Round(x) => match k(self, x) {
                Some(a) => c(a.round()),
                _ => Round(x),
            },
            Signum(x) => match k(self, x) {
                Some(a) => c(a.signum()),
                _ => Signum(x),
            },
            Ite(cnd, x, y) => match b(self, cnd) {
                Some(true) => return x,
                Some(false) => return y,
                _ if x == y => return x,
                _ => Ite(cnd, x, y),
            },
            Lt(x, y) => match (k(self, x), k(self, y)) {
                (Some(a), Some(bb)) => BConst(a < bb),
                _ if x == y => BConst(false),
                _ => Lt(x, y),
            },
            Le(x, y) => match (k(self, x), k(self, y)) {
                (Some(a), Some(bb)) => BConst(a <= bb),
                _ if x == y => BConst(true),
                _ => Le(x, y),
            },
            Eq(x, y) => match (k(self, x), k(self, y)) {
                (Some(a), Some(bb)) => BConst(a == bb),
                _ if x == y => BConst(true),
                _ => Eq(x.min(y), x.max(y)),
            },
            And(x, y) => match (b(self, x), b(self, y)) {
                (Some(false), _) | (_, Some(false)) => BConst(false),
                (Some(true), _) => return y,
                (_, Some(true)) => return x,
                _ if x == y => return x,
                _ => And(x.min(y), x.max(y)),
            },
            Or(x, y) => match (b(self, x), b(self, y)) {
                (Some(true), _) | (_, Some(true)) => BConst(true),
                (Some(false), _) => return y,
                (_, Some(false)) => return x,
                _ if x == y => return x,
                _ => Or(x.min(y), x.max(y)),
            },
            Not(x) => match (b(self, x), self.get(x).clone()) {
                (Some(v), _) => BConst(!v),
                (_, Not(i)) => return i,
                _ => Not(x),
            },
            other => other,
        };
        self.intern(n)
    }
}
