//! C17 - the mask-generic (SIMD) code path computes the same colour as the scalar code path.
use crate::obl::*;
use crate::oblmf;
use palette::convert::FromColorUnclamped;
use palette::encoding::Srgb;
use palette::rgb::Rgb;
use palette::white_point as wp;
use palette::{Clamp, Hsl, Hsv, Hwb, Lab, Lighten, LinSrgb, Mix, Saturate, Xyz, Yxy};

fn k<N: Num>(v: f64) -> N {
    N::k(v)
}

pub fn register(l: &mut Vec<Obl>) {
    let q = Tier::Quick;
    oblmf!(l; "c17_rgb_to_hsv", "C17", q,
        "RGB -> HSV: the SIMD (mask) branch and the scalar branch of the conversion give the same saturation, value and hue x chroma (hue compared where it is defined) within 1e-9 for every RGB in [0,1]^3 - lanes that take different branches are exactly what the mask path models",
        ["<Hsv as FromColorUnclamped<Rgb>> (both TypeId branches)"], [var("r", 0.0, 1.0), var("g", 0.0, 1.0), var("b", 0.0, 1.0)], 1e-9;
        |v| {
            let c: Hsv<Srgb, T> = Hsv::from_color_unclamped(Rgb::<Srgb, T>::new(v[0], v[1], v[2]));
            // hue weighted by chroma: the hue of a grey is arbitrary
            let chroma = c.saturation * c.value;
            vec![("saturation", c.saturation), ("value", c.value), ("hue_times_chroma", c.hue.into_positive_degrees() * chroma)]
        });
    oblmf!(l; "c17_rgb_to_hsl", "C17", q,
        "RGB -> HSL: SIMD and scalar branch agree (saturation weighted by its denominator, lightness, hue x chroma) within 1e-9 for every RGB in [0,1]^3",
        ["<Hsl as FromColorUnclamped<Rgb>> (both TypeId branches)"], [var("r", 0.0, 1.0), var("g", 0.0, 1.0), var("b", 0.0, 1.0)], 1e-9;
        |v| {
            let c: Hsl<Srgb, T> = Hsl::from_color_unclamped(Rgb::<Srgb, T>::new(v[0], v[1], v[2]));
            let mx = v[0].max_(v[1]).max_(v[2]);
            let mn = v[0].min_(v[1]).min_(v[2]);
            vec![("lightness", c.lightness), ("saturation", c.saturation), ("hue_times_chroma", c.hue.into_positive_degrees() * (mx - mn))]
        });
    oblmf!(l; "c17_hsv_hsl_to_rgb", "C17", q,
        "HSV -> RGB and HSL -> RGB: mask-selected result equals the branch the scalar code takes (1e-9), every hue in [-720,720]",
        ["<Rgb as FromColorUnclamped<Hsv>>", "<Rgb as FromColorUnclamped<Hsl>>", "lazy_select!"], [var("h", -720.0, 720.0), var("s", 0.0, 1.0), var("x", 0.0, 1.0)], 1e-9;
        |v| {
            let a: Rgb<Srgb, T> = Rgb::from_color_unclamped(Hsv::<Srgb, T>::new(v[0], v[1], v[2]));
            let b: Rgb<Srgb, T> = Rgb::from_color_unclamped(Hsl::<Srgb, T>::new(v[0], v[1], v[2]));
            vec![("hsv_red", a.red), ("hsv_green", a.green), ("hsv_blue", a.blue), ("hsl_red", b.red), ("hsl_green", b.green), ("hsl_blue", b.blue)]
        });
    oblmf!(l; "c17_hsv_hsl_hwb", "C17", q,
        "HSV <-> HSL, HSV <-> HWB: mask path equals scalar path (1e-9) for S, V, L in [0,1]",
        ["<Hsl as FromColorUnclamped<Hsv>>", "<Hsv as FromColorUnclamped<Hsl>>", "<Hsv as FromColorUnclamped<Hwb>>", "<Hwb as FromColorUnclamped<Hsv>>"],
        [var("h", -180.0, 180.0), var("a", 0.0, 1.0), var("b", 0.0, 1.0)], 1e-9;
        |v| {
            let x: Hsl<Srgb, T> = Hsl::from_color_unclamped(Hsv::<Srgb, T>::new(v[0], v[1], v[2]));
            let y: Hsv<Srgb, T> = Hsv::from_color_unclamped(Hsl::<Srgb, T>::new(v[0], v[1], v[2]));
            let z: Hsv<Srgb, T> = Hsv::from_color_unclamped(Hwb::<Srgb, T>::new(v[0], v[1], v[2] * (k::<T>(1.0) - v[1])));
            let w: Hwb<Srgb, T> = Hwb::from_color_unclamped(Hsv::<Srgb, T>::new(v[0], v[1], v[2]));
            vec![("hsl_s", x.saturation), ("hsl_l", x.lightness), ("hsv_s", y.saturation), ("hsv_v", y.value), ("hwb_hsv_s", z.saturation), ("hwb_hsv_v", z.value), ("hwb_w", w.whiteness), ("hwb_b", w.blackness)]
        });
    oblmf!(l; "c17_cie", "C17", q,
        "XYZ <-> Lab, XYZ <-> xyY: mask path equals scalar path (1e-9 on XYZ scale, 1e-6 on Lab scale)",
        ["<Lab as FromColorUnclamped<Xyz>>", "<Xyz as FromColorUnclamped<Lab>>", "<Yxy as FromColorUnclamped<Xyz>>", "<Xyz as FromColorUnclamped<Yxy>>"],
        [var("x", 0.0, 0.95047), var("y", 0.0, 1.0), var("z", 0.0, 1.08883)], 1e-6;
        |v| {
            let lab: Lab<wp::D65, T> = Lab::from_color_unclamped(Xyz::<wp::D65, T>::new(v[0], v[1], v[2]));
            let xyz: Xyz<wp::D65, T> = Xyz::from_color_unclamped(Lab::<wp::D65, T>::new(v[1] * k::<T>(100.0), v[0] * k::<T>(200.0) - k::<T>(100.0), v[2] * k::<T>(200.0) - k::<T>(100.0)));
            let yxy: Yxy<wp::D65, T> = Yxy::from_color_unclamped(Xyz::<wp::D65, T>::new(v[0], v[1], v[2]));
            let back: Xyz<wp::D65, T> = Xyz::from_color_unclamped(Yxy::<wp::D65, T>::new(v[0], v[1], v[2]));
            vec![("l", lab.l), ("a", lab.a), ("b", lab.b), ("x", xyz.x), ("y", xyz.y), ("z", xyz.z), ("yxy_x", yxy.x), ("yxy_y", yxy.y), ("back_x", back.x), ("back_z", back.z)]
        });
    oblmf!(l; "c17_operators", "C17", q,
        "clamp, mix, lighten, saturate, Hwb clamp: mask path equals scalar path (1e-9), components in [-0.5,1.5], factor in [-1,2]",
        ["Clamp::clamp", "Mix::mix", "Lighten::lighten", "Saturate::saturate", "impl_clamp_hwb!"],
        [var("a", -0.5, 1.5), var("b", -0.5, 1.5), var("f", -1.0, 2.0)], 1e-9;
        |v| {
            let c = LinSrgb::<T>::new(v[0], v[1], v[0]).clamp();
            let m = Hsv::<Srgb, T>::new(v[0] * k::<T>(360.0), v[0], v[1]).mix(Hsv::new(v[1] * k::<T>(360.0), v[1], v[0]), v[2]);
            let li = Hsl::<Srgb, T>::new(v[0] * k::<T>(360.0), v[0], v[1]).clamp().lighten(v[2]);
            let sa = Hsv::<Srgb, T>::new(v[0] * k::<T>(360.0), v[0], v[1]).clamp().saturate(v[2]);
            let hw = Hwb::<Srgb, T>::new(v[0] * k::<T>(360.0), v[0], v[1]).clamp();
            vec![("clamp_red", c.red), ("clamp_green", c.green), ("mix_hue", m.hue.into_inner()), ("mix_s", m.saturation), ("lighten", li.lightness), ("saturate", sa.saturation), ("hwb_w", hw.whiteness), ("hwb_b", hw.blackness)]
        });
}
