//! C09 - colour difference measures: closed forms, metric laws, WCAG contrast, CIEDE2000.
use crate::obl::*;
use crate::obl;
use crate::reference::ciede2000::ciede2000;
use palette::color_difference::{Ciede2000, DeltaE, EuclideanDistance, HyAb, ImprovedDeltaE, Wcag21RelativeContrast};
use palette::encoding::Srgb;
use palette::rgb::Rgb;
use palette::white_point as wp;
use palette::{Lab, Lch, LinSrgb, Luv, Oklab};

fn lab_pair() -> Vec<Var> {
    vec![var("l1", 0.0, 100.0), var("a1", -128.0, 127.0), var("b1", -128.0, 127.0), var("l2", 0.0, 100.0), var("a2", -128.0, 127.0), var("b2", -128.0, 127.0)]
}

pub fn register(l: &mut Vec<Obl>) {
    obl!(l; "c09_lab_simple_metrics", "C09", Tier::Quick,
        "Lab: Delta E = sqrt(dL^2+da^2+db^2), squared Euclidean distance, HyAB = |dL| + sqrt(da^2+db^2) and the improved Delta E 1.26 x dE^0.55 (Huang et al.) equal their closed forms (1e-9); all are non-negative, symmetric and zero for identical colours",
        ["<Lab as DeltaE>::delta_e", "<Lab as EuclideanDistance>::distance_squared", "<Lab as HyAb>::hybrid_distance", "<Lab as ImprovedDeltaE>::improved_delta_e"],
        [var("l1", 0.0, 100.0), var("a1", -128.0, 127.0), var("b1", -128.0, 127.0), var("l2", 0.0, 100.0), var("a2", -128.0, 127.0), var("b2", -128.0, 127.0)];
        |v| {
            let mut r = Res::<B>::new();
            let x = Lab::<wp::D65, T>::new(v[0], v[1], v[2]);
            let y = Lab::<wp::D65, T>::new(v[3], v[4], v[5]);
            let (dl, da, db) = (v[0] - v[3], v[1] - v[4], v[2] - v[5]);
            let sq = dl * dl + da * da + db * db;
            r.goal("distance_squared", x.distance_squared(y).close(sq, 1e-9));
            r.goal("delta_e", x.delta_e(y).close(sq.sqrt_(), 1e-9) & T::k(0.0).le(x.delta_e(y)));
            r.goal("hyab", x.hybrid_distance(y).close(dl.abs_() + (da * da + db * db).sqrt_(), 1e-9));
            r.goal("delta_e_symmetric", x.delta_e(y).close(y.delta_e(x), 1e-9));
            r.goal("hyab_symmetric", x.hybrid_distance(y).close(y.hybrid_distance(x), 1e-9));
            r.goal("distance_squared_symmetric", x.distance_squared(y).close(y.distance_squared(x), 1e-9));
            r.goal("identical_is_zero", x.delta_e(x).eqv(T::k(0.0)) & x.hybrid_distance(x).eqv(T::k(0.0)) & x.distance_squared(x).eqv(T::k(0.0)));
            r.goal("improved_delta_e", x.improved_delta_e(y).close(T::k(1.26) * sq.powf_(T::k(0.55 * 0.5)), 1e-9) & x.improved_delta_e(y).close(y.improved_delta_e(x), 1e-9));
            r
        });
    obl!(l; "c09_other_spaces_metrics", "C09", Tier::Quick,
        "Luv, Oklab, LinSrgb: Euclidean distance / HyAB equal their closed forms (1e-9), symmetric, zero for identical colours",
        ["impl_euclidean_distance! (Luv, Oklab, Rgb)", "impl_hyab! (Luv, Oklab)"],
        [var("p1", 0.0, 1.0), var("q1", -1.0, 1.0), var("s1", -1.0, 1.0), var("p2", 0.0, 1.0), var("q2", -1.0, 1.0), var("s2", -1.0, 1.0)];
        |v| {
            let mut r = Res::<B>::new();
            let (dp, dq, ds) = (v[0] - v[3], v[1] - v[4], v[2] - v[5]);
            let (x, y) = (Oklab::<T>::new(v[0], v[1], v[2]), Oklab::<T>::new(v[3], v[4], v[5]));
            r.goal("oklab", x.distance_squared(y).close(dp * dp + dq * dq + ds * ds, 1e-9) & x.hybrid_distance(y).close(dp.abs_() + (dq * dq + ds * ds).sqrt_(), 1e-9)
                & x.hybrid_distance(y).close(y.hybrid_distance(x), 1e-9) & x.distance_squared(x).eqv(T::k(0.0)));
            let k = T::k(100.0);
            let (x, y) = (Luv::<wp::D65, T>::new(v[0] * k, v[1] * k, v[2] * k), Luv::<wp::D65, T>::new(v[3] * k, v[4] * k, v[5] * k));
            r.goal("luv", x.distance_squared(y).close((dp * dp + dq * dq + ds * ds) * T::k(10000.0), 1e-6) & x.hybrid_distance(y).close((dp.abs_() + (dq * dq + ds * ds).sqrt_()) * k, 1e-6)
                & x.hybrid_distance(x).eqv(T::k(0.0)));
            let (x, y) = (LinSrgb::<T>::new(v[0], v[1], v[2]), LinSrgb::<T>::new(v[3], v[4], v[5]));
            r.goal("rgb", x.distance_squared(y).close(dp * dp + dq * dq + ds * ds, 1e-9) & x.distance_squared(y).close(y.distance_squared(x), 1e-9));
            r
        });
    obl!(l; "c09_lch_equals_lab", "C09", Tier::Quick,
        "the polar (Lch) Delta E and improved Delta E equal the rectangular (Lab) ones on the converted colours within 1e-4 (today the same terms, decided by hash-consing; a different but equivalent polar closed form would be decided by the solver and must not raise an alarm for differing only by rounding)",
        ["<Lch as DeltaE>::delta_e", "<Lch as ImprovedDeltaE>::improved_delta_e", "<Lab as FromColorUnclamped<Lch>>"],
        [var("l1", 0.0, 100.0), var("c1", 0.0, 150.0), var("h1", -180.0, 180.0), var("l2", 0.0, 100.0), var("c2", 0.0, 150.0), var("h2", -180.0, 180.0)];
        |v| {
            use palette::convert::FromColorUnclamped;
            let mut r = Res::<B>::new();
            let (x, y) = (Lch::<wp::D65, T>::new(v[0], v[1], v[2]), Lch::<wp::D65, T>::new(v[3], v[4], v[5]));
            let (lx, ly) = (Lab::<wp::D65, T>::from_color_unclamped(x), Lab::<wp::D65, T>::from_color_unclamped(y));
            r.goal("delta_e_equal", x.delta_e(y).close(lx.delta_e(ly), 1e-4));
            r.goal("improved_equal", x.improved_delta_e(y).close(lx.improved_delta_e(ly), 1e-4));
            r
        });
    obl!(l; "c09_cam16_ucs_delta_e", "C09", Tier::Quick,
        "CAM16-UCS: Delta E of two J'a'b' colours is the Euclidean distance sqrt(dJ'^2 + da'^2 + db'^2) (1e-9 on its square), the improved form is 1.41 dE^0.63 (Huang et al. 2015; compared as its 1/0.315-th power being dE^2 up to the constant: same uninterpreted power of the same radicand), both are symmetric and zero for identical colours, and the polar J'M'h versions equal the rectangular ones on the converted colours (1e-4)",
        ["<Cam16UcsJab as DeltaE>::delta_e", "<Cam16UcsJab as ImprovedDeltaE>::improved_delta_e", "<Cam16UcsJmh as DeltaE>::delta_e", "<Cam16UcsJmh as ImprovedDeltaE>::improved_delta_e", "<Cam16UcsJab as FromColorUnclamped<Cam16UcsJmh>>"],
        [var("j1", 0.0, 100.0), var("a1", -50.0, 50.0), var("b1", -50.0, 50.0), var("j2", 0.0, 100.0), var("a2", -50.0, 50.0), var("b2", -50.0, 50.0), var("h1", -180.0, 180.0), var("h2", -180.0, 180.0)];
        |v| {
            use palette::cam16::{Cam16UcsJab, Cam16UcsJmh};
            use palette::convert::FromColorUnclamped;
            let mut r = Res::<B>::new();
            let (x, y) = (Cam16UcsJab::<T>::new(v[0], v[1], v[2]), Cam16UcsJab::<T>::new(v[3], v[4], v[5]));
            let (dj, da, db) = (v[0] - v[3], v[1] - v[4], v[2] - v[5]);
            let d2 = dj * dj + da * da + db * db;
            let d = x.delta_e(y);
            r.goal("delta_e_is_euclidean", (d * d).close(d2, 1e-9) & T::k(0.0).le(d));
            r.goal("delta_e_symmetric", d.close(y.delta_e(x), 1e-9));
            r.goal("delta_e_identical_is_zero", x.delta_e(x).close(T::k(0.0), 1e-9));
            r.goal("improved_closed_form", x.improved_delta_e(y).close(T::k(1.41) * d2.powf_(T::k(0.63 * 0.5)), 1e-9));
            r.goal("improved_symmetric", x.improved_delta_e(y).close(y.improved_delta_e(x), 1e-9));
            // polar versions: M' = |a'|, |b'| reused as colourfulness, symbolic hues
            let (p, q) = (Cam16UcsJmh::<T>::new(v[0], v[1].abs_(), v[6]), Cam16UcsJmh::<T>::new(v[3], v[4].abs_(), v[7]));
            let (pr, qr) = (Cam16UcsJab::<T>::from_color_unclamped(p), Cam16UcsJab::<T>::from_color_unclamped(q));
            r.goal("polar_delta_e_equals_rectangular", p.delta_e(q).close(pr.delta_e(qr), 1e-4));
            r.goal("polar_improved_equals_rectangular", p.improved_delta_e(q).close(pr.improved_delta_e(qr), 1e-4));
            r
        });
    obl!(l; "c09_wcag_contrast", "C09", Tier::Quick,
        "WCAG 2.1 relative contrast of linear RGB colours in [0,1]^3 is (Lmax + 0.05)/(Lmin + 0.05) with L = 0.2126 R + 0.7152 G + 0.0722 B (within 0.05 of the ratio: palette uses the sRGB matrix row 0.2126729/0.7151522/0.0721750, of which the WCAG constants are the 4-digit rounding), symmetric, in [1, 21] (1e-9: the relative luminance is clamped to [0,1]), and each threshold predicate holds exactly when the ratio reaches its constant (4.5, 3, 7, 4.5, 3)",
        ["Wcag21RelativeContrast::relative_contrast", "has_min_contrast_text", "has_min_contrast_large_text", "has_enhanced_contrast_text", "has_enhanced_contrast_large_text", "has_min_contrast_graphics", "relative_luminance"],
        [var("r1", 0.0, 1.0), var("g1", 0.0, 1.0), var("b1", 0.0, 1.0), var("r2", 0.0, 1.0), var("g2", 0.0, 1.0), var("b2", 0.0, 1.0)];
        |v| {
            let mut r = Res::<B>::new();
            let (x, y) = (LinSrgb::<T>::new(v[0], v[1], v[2]), LinSrgb::<T>::new(v[3], v[4], v[5]));
            let lum = |c: &[T]| T::k(0.2126) * c[0] + T::k(0.7152) * c[1] + T::k(0.0722) * c[2];
            let (l1, l2) = (lum(&v[0..3]), lum(&v[3..6]));
            let expect = (l1.max_(l2) + T::k(0.05)) / (l1.min_(l2) + T::k(0.05));
            let c = x.relative_contrast(y);
            r.goal("ratio", c.close(expect, 0.05));
            r.goal("symmetric", c.close(y.relative_contrast(x), 1e-9));
            r.goal("range", c.within_tol(1.0, 21.0, 1e-9));
            // threshold predicates: exactly "ratio >= constant" with the constants of WCAG 2.1 SC 1.4.3 / 1.4.6 / 1.4.11
            let iff = |p: B, q: B| p.implies(q) & q.implies(p);
            r.goal("min_contrast_text_is_4_5", iff(x.has_min_contrast_text(y), c.ge(T::k(4.5))));
            r.goal("min_contrast_large_text_is_3", iff(x.has_min_contrast_large_text(y), c.ge(T::k(3.0))));
            r.goal("enhanced_contrast_text_is_7", iff(x.has_enhanced_contrast_text(y), c.ge(T::k(7.0))));
            r.goal("enhanced_contrast_large_text_is_4_5", iff(x.has_enhanced_contrast_large_text(y), c.ge(T::k(4.5))));
            r.goal("min_contrast_graphics_is_3", iff(x.has_min_contrast_graphics(y), c.ge(T::k(3.0))));
            r
        });
    obl!(l; "c09_ciede2000_laws", "C09", Tier::Thorough,
        "CIEDE2000 is zero for identical colours (1e-9)",
        ["color_difference::get_ciede2000_difference", "<Lab as Ciede2000>::difference", "LabColorDiff::from"],
        [var("l1", 0.0, 100.0), var("a1", -128.0, 127.0), var("b1", -128.0, 127.0)];
        |v| {
            let mut r = Res::<B>::new();
            let x = Lab::<wp::D65, T>::new(v[0], v[1], v[2]);
            r.goal("identical_is_zero", x.difference(x).close(T::k(0.0), 1e-9));
            r
        });
    obl!(l; "c09_ciede2000_symmetric", "C09", Tier::Open,
        "CIEDE2000 is symmetric (1e-6) for every pair of Lab colours in the box whose hue difference is not within 1e-3 of 180 degrees",
        ["color_difference::get_ciede2000_difference"],
        [var("l1", 0.0, 100.0), var("a1", -128.0, 127.0), var("b1", -128.0, 127.0), var("l2", 0.0, 100.0), var("a2", -128.0, 127.0), var("b2", -128.0, 127.0)];
        |v| {
            let mut r = Res::<B>::new();
            let (x, y) = (Lab::<wp::D65, T>::new(v[0], v[1], v[2]), Lab::<wp::D65, T>::new(v[3], v[4], v[5]));
            r.goal("symmetric", x.difference(y).close(y.difference(x), 1e-6));
            r
        });
    obl!(l; "c09_ciede2000_vs_sharma", "C09", Tier::Open,
        "CIEDE2000 equals the Sharma-Wu-Dalal reference formula (1e-6) for every pair of Lab colours in the box, including hues straddling 0/360 and zero chroma",
        ["color_difference::get_ciede2000_difference", "<Lab as Ciede2000>::difference", "LabColorDiff::from"],
        [var("l1", 0.0, 100.0), var("a1", -128.0, 127.0), var("b1", -128.0, 127.0), var("l2", 0.0, 100.0), var("a2", -128.0, 127.0), var("b2", -128.0, 127.0)];
        |v| {
            let mut r = Res::<B>::new();
            let (x, y) = (Lab::<wp::D65, T>::new(v[0], v[1], v[2]), Lab::<wp::D65, T>::new(v[3], v[4], v[5]));
            r.goal("equals_reference", x.difference(y).close(ciede2000(v[0], v[1], v[2], v[3], v[4], v[5]), 1e-6));
            r
        });
    // hue / chroma configurations with symbolic lightness: the chromatic part (a', C', h', the wrap-around case split of
    // delta h' and mean h', T, R_T) is evaluated on constants by the real code, the lightness part stays symbolic
    let hues = [20.0f64, 75.0, 135.0, 195.0, 255.0, 315.0];
    for (i, h1) in hues.iter().enumerate() {
        for (j, h2) in hues.iter().enumerate() {
            let (h1, h2) = (*h1, *h2 + 7.0);
            let (c1, c2) = (30.0f64, 45.0f64);
            let l2 = [5.0f64, 20.0, 35.0, 50.0, 65.0, 80.0, 95.0, 100.0][(i + 3 * j) % 8];
            let (a1, b1, a2, b2) = (c1 * h1.to_radians().cos(), c1 * h1.to_radians().sin(), c2 * h2.to_radians().cos(), c2 * h2.to_radians().sin());
            obl!(l; format!("c09_ciede2000_grid_h{}_h{}", i, j), "C09", Tier::Quick,
                format!("CIEDE2000 for the chroma/hue configuration C1 = 30 at {} deg, C2 = 45 at {} deg, L2 = {} and EVERY lightness L1: equals the Sharma-Wu-Dalal reference formula (1e-6) and is symmetric (1e-6); the 36 configurations include hue pairs straddling 0/360 in both orders and pairs more than 180 deg apart", h1, h2, l2),
                ["color_difference::get_ciede2000_difference", "<Lab as Ciede2000>::difference", "LabColorDiff::from"],
                [var("l1", 0.0, 100.0)];
                |v| {
                    let mut r = Res::<B>::new();
                    let (x, y) = (Lab::<wp::D65, T>::new(v[0], T::k(a1), T::k(b1)), Lab::<wp::D65, T>::new(T::k(l2), T::k(a2), T::k(b2)));
                    let d = x.difference(y);
                    r.goal("equals_reference", d.close(ciede2000(v[0], T::k(a1), T::k(b1), T::k(l2), T::k(a2), T::k(b2)), 1e-6));
                    r.goal("symmetric", d.close(y.difference(x), 1e-6));
                    r
                });
        }
    }
}
