use crate::obl::Obl;
pub mod c02;
pub mod c08;
pub mod c14;

pub fn all() -> Vec<Obl> {
    let mut l = Vec::new();
    c02::register(&mut l);
    c08::register(&mut l);
    c14::register(&mut l);
    l
}
