use crate::obl::Obl;
pub mod c14;

pub fn all() -> Vec<Obl> {
    let mut l = Vec::new();
    c14::register(&mut l);
    l
}
