use crate::obl::Obl;
pub mod c01;
pub mod c02;
pub mod c07;
pub mod c08;
pub mod c09;
pub mod c10;
pub mod c14;
pub mod c15;
pub mod c16;
pub mod c17;
pub mod c19;

pub fn all() -> Vec<Obl> {
    let mut l = Vec::new();
    c01::register(&mut l);
    c02::register(&mut l);
    c07::register(&mut l);
    c08::register(&mut l);
    c09::register(&mut l);
    c10::register(&mut l);
    c14::register(&mut l);
    c15::register(&mut l);
    c16::register(&mut l);
    c17::register(&mut l);
    c19::register(&mut l);
    l
}
