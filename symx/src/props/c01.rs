//! C01 - conversions invert (edge round trips), commute (alternative routes agree) and ignore / preserve alpha.
use crate::obl::*;
use crate::props::c02::hue_close;
use crate::{obl, oblf};
use palette::convert::FromColorUnclamped;
use palette::encoding::{Linear, Srgb};
use palette::rgb::Rgb;
use palette::white_point as wp;
use palette::{Alpha, Hsl, Hsv, Hwb, Lab, LinSrgb, Luv, Okhsv, Okhwb, Oklab, Xyz, Yxy};

pub fn register(l: &mut Vec<Obl>) {
    obl!(l; "c01_xyz_lab_xyz", "C01", Tier::Quick,
        "XYZ -> L*a*b* -> XYZ returns the colour within 1e-6 for every XYZ in [0, D65 white]",
        ["<Lab<Wp,T> as FromColorUnclamped<Xyz<Wp,T>>>", "<Xyz<Wp,T> as FromColorUnclamped<Lab<Wp,T>>>"],
        [var("x", 0.0, 0.95047), var("y", 0.0, 1.0), var("z", 0.0, 1.08883)];
        |v| {
            let mut r = Res::<B>::new();
            let lab: Lab<wp::D65, T> = Lab::from_color_unclamped(Xyz::<wp::D65, T>::new(v[0], v[1], v[2]));
            let b: Xyz<wp::D65, T> = Xyz::from_color_unclamped(lab);
            r.goal("x", b.x.close(v[0], 1e-6));
            r.goal("y", b.y.close(v[1], 1e-6));
            r.goal("z", b.z.close(v[2], 1e-6));
            r
        });
    obl!(l; "c01_lab_xyz_lab", "C01", Tier::Quick,
        "L*a*b* -> XYZ -> L*a*b* returns the colour within 1e-4 for L in [0,100], a, b in [-128,127]",
        ["<Lab<Wp,T> as FromColorUnclamped<Xyz<Wp,T>>>", "<Xyz<Wp,T> as FromColorUnclamped<Lab<Wp,T>>>"],
        [var("l", 0.0, 100.0), var("a", -128.0, 127.0), var("b", -128.0, 127.0)];
        |v| {
            let mut r = Res::<B>::new();
            let xyz: Xyz<wp::D65, T> = Xyz::from_color_unclamped(Lab::<wp::D65, T>::new(v[0], v[1], v[2]));
            let b: Lab<wp::D65, T> = Lab::from_color_unclamped(xyz);
            r.goal("l", b.l.close(v[0], 1e-4));
            r.goal("a", b.a.close(v[1], 1e-4));
            r.goal("b", b.b.close(v[2], 1e-4));
            r
        });
    oblf!(l; "c01_xyz_luv_xyz", "C01", Tier::Quick,
        "XYZ -> L*u*v* -> XYZ returns the colour within 1e-5 for every XYZ in [0, D65 white] with Y >= 1e-3",
        ["<Luv<Wp,T> as FromColorUnclamped<Xyz<Wp,T>>>", "<Xyz<Wp,T> as FromColorUnclamped<Luv<Wp,T>>>"],
        [var("x", 0.0, 0.95047), var("y", 0.001, 1.0), var("z", 0.0, 1.08883)];
        |v| {
            let mut r = Res::<B>::new();
            let luv: Luv<wp::D65, T> = Luv::from_color_unclamped(Xyz::<wp::D65, T>::new(v[0], v[1], v[2]));
            let b: Xyz<wp::D65, T> = Xyz::from_color_unclamped(luv);
            r.goal("x", b.x.close(v[0], 1e-5));
            r.goal("y", b.y.close(v[1], 1e-5));
            r.goal("z", b.z.close(v[2], 1e-5));
            r
        });
    // the same CIE round trips for other white points (the white point is a configuration of every CIE space)
    macro_rules! cie_rt_wp {
        ($key:literal, $W:ty) => {{
            let w = <$W as palette::white_point::WhitePoint<f64>>::get_xyz();
            oblf!(l; concat!("c01_xyz_luv_xyz_", $key), "C01", Tier::Quick,
                concat!("XYZ -> L*u*v* -> XYZ returns the colour within 1e-5 for every XYZ in [0, white] with Y >= 1e-3, white point ", $key),
                ["<Luv<Wp,T> as FromColorUnclamped<Xyz<Wp,T>>>", "<Xyz<Wp,T> as FromColorUnclamped<Luv<Wp,T>>>"],
                [var("x", 0.0, w.x), var("y", 0.001, 1.0), var("z", 0.0, w.z)];
                |v| {
                    let mut r = Res::<B>::new();
                    let luv: Luv<$W, T> = Luv::from_color_unclamped(Xyz::<$W, T>::new(v[0], v[1], v[2]));
                    let b: Xyz<$W, T> = Xyz::from_color_unclamped(luv);
                    r.goal("x", b.x.close(v[0], 1e-5));
                    r.goal("y", b.y.close(v[1], 1e-5));
                    r.goal("z", b.z.close(v[2], 1e-5));
                    r
                });
            obl!(l; concat!("c01_xyz_lab_xyz_", $key), "C01", Tier::Quick,
                concat!("XYZ -> L*a*b* -> XYZ returns the colour within 1e-6 for every XYZ in [0, white], white point ", $key),
                ["<Lab<Wp,T> as FromColorUnclamped<Xyz<Wp,T>>>", "<Xyz<Wp,T> as FromColorUnclamped<Lab<Wp,T>>>"],
                [var("x", 0.0, w.x), var("y", 0.0, 1.0), var("z", 0.0, w.z)];
                |v| {
                    let mut r = Res::<B>::new();
                    let lab: Lab<$W, T> = Lab::from_color_unclamped(Xyz::<$W, T>::new(v[0], v[1], v[2]));
                    let b: Xyz<$W, T> = Xyz::from_color_unclamped(lab);
                    r.goal("x", b.x.close(v[0], 1e-6));
                    r.goal("y", b.y.close(v[1], 1e-6));
                    r.goal("z", b.z.close(v[2], 1e-6));
                    r
                });
        }};
    }
    cie_rt_wp!("d50", wp::D50);
    cie_rt_wp!("a", wp::A);
    cie_rt_wp!("e", wp::E);
    obl!(l; "c01_xyz_yxy_xyz", "C01", Tier::Quick,
        "XYZ -> xyY -> XYZ returns the colour within 1e-9 for XYZ in [0,1.1]^3 with Y >= 1e-3; xyY -> XYZ -> xyY likewise for y >= 0.01, Y >= 1e-3",
        ["<Yxy<Wp,T> as FromColorUnclamped<Xyz<Wp,T>>>", "<Xyz<Wp,T> as FromColorUnclamped<Yxy<Wp,T>>>"],
        [var("p", 0.0, 1.0), var("q", 0.0, 1.0), var("s", 0.0, 1.0)];
        |v| {
            let mut r = Res::<B>::new();
            let (x, y, z) = (v[0] * T::k(1.1), T::k(0.001) + v[1], v[2] * T::k(1.1));
            let yxy: Yxy<wp::D65, T> = Yxy::from_color_unclamped(Xyz::<wp::D65, T>::new(x, y, z));
            let b: Xyz<wp::D65, T> = Xyz::from_color_unclamped(yxy);
            r.goal("xyz", b.x.close(x, 1e-9) & b.y.close(y, 1e-9) & b.z.close(z, 1e-9));
            let (cx, cy, cl) = (v[0] * T::k(0.8), T::k(0.01) + v[1] * T::k(0.8), T::k(0.001) + v[2]);
            let xyz: Xyz<wp::D65, T> = Xyz::from_color_unclamped(Yxy::<wp::D65, T>::new(cx, cy, cl));
            let b: Yxy<wp::D65, T> = Yxy::from_color_unclamped(xyz);
            r.goal("yxy", b.x.close(cx, 1e-9) & b.y.close(cy, 1e-9) & b.luma.close(cl, 1e-9));
            r
        });
    macro_rules! hexcone_rt {
        ($m:ident, $sfx:literal) => {{
            $m!(l; concat!("c01_rgb_hsv_rgb", $sfx), "C01", Tier::Open,
                "RGB -> HSV -> RGB and RGB -> HSL -> RGB return the colour within 1e-9 for every RGB in [0,1]^3",
                ["<Hsv<S,T> as FromColorUnclamped<Rgb<S,T>>>", "<Rgb<S,T> as FromColorUnclamped<Hsv<S,T>>>", "<Hsl<S,T> as FromColorUnclamped<Rgb<S,T>>>", "<Rgb<S,T> as FromColorUnclamped<Hsl<S,T>>>"],
                [var("r", 0.0, 1.0), var("g", 0.0, 1.0), var("b", 0.0, 1.0)];
                |v| {
                    let mut r = Res::<B>::new();
                    let c = Rgb::<Srgb, T>::new(v[0], v[1], v[2]);
                    let b: Rgb<Srgb, T> = Rgb::from_color_unclamped(Hsv::<Srgb, T>::from_color_unclamped(c));
                    r.goal("via_hsv", b.red.close(v[0], 1e-9) & b.green.close(v[1], 1e-9) & b.blue.close(v[2], 1e-9));
                    let b: Rgb<Srgb, T> = Rgb::from_color_unclamped(Hsl::<Srgb, T>::from_color_unclamped(c));
                    r.goal("via_hsl", b.red.close(v[0], 1e-9) & b.green.close(v[1], 1e-9) & b.blue.close(v[2], 1e-9));
                    r
                });
            $m!(l; concat!("c01_hsv_rgb_hsv", $sfx), "C01", Tier::Quick,
                "HSV -> RGB -> HSV returns saturation and value within 1e-6 and the hue modulo 360 within 1e-4 wherever chroma >= 1e-2 (hue in [-180,180])",
                ["<Hsv<S,T> as FromColorUnclamped<Rgb<S,T>>>", "<Rgb<S,T> as FromColorUnclamped<Hsv<S,T>>>"],
                [var("h", -180.0, 180.0), var("s", 0.1, 1.0), var("v", 0.1, 1.0)];
                |v| {
                    let mut r = Res::<B>::new();
                    let c: Rgb<Srgb, T> = Rgb::from_color_unclamped(Hsv::<Srgb, T>::new(v[0], v[1], v[2]));
                    let b: Hsv<Srgb, T> = Hsv::from_color_unclamped(c);
                    r.goal("saturation_value", b.saturation.close(v[1], 1e-6) & b.value.close(v[2], 1e-6));
                    r.goal("hue", hue_close(b.hue.into_positive_degrees(), v[0], 1e-4));
                    r
                });
            $m!(l; concat!("c01_hsv_hsl_direct_vs_rgb", $sfx), "C01", Tier::Quick,
                "the direct HSV -> HSL conversion agrees with the route through RGB (1e-6, S in [0.05,1], V in [0.05,0.95])",
                ["<Hsl<S,T> as FromColorUnclamped<Hsv<S,T>>>", "<Hsl<S,T> as FromColorUnclamped<Rgb<S,T>>>", "<Rgb<S,T> as FromColorUnclamped<Hsv<S,T>>>"],
                [var("h", -180.0, 180.0), var("s", 0.05, 1.0), var("v", 0.05, 0.95)];
                |v| {
                    let mut r = Res::<B>::new();
                    let hsv = Hsv::<Srgb, T>::new(v[0], v[1], v[2]);
                    let direct: Hsl<Srgb, T> = Hsl::from_color_unclamped(hsv);
                    let via: Hsl<Srgb, T> = Hsl::from_color_unclamped(Rgb::<Srgb, T>::from_color_unclamped(hsv));
                    r.goal("saturation", direct.saturation.close(via.saturation, 1e-6));
                    r.goal("lightness", direct.lightness.close(via.lightness, 1e-6));
                    r
                });
            $m!(l; concat!("c01_hsv_hsl_hsv", $sfx), "C01", Tier::Quick,
                "HSV -> HSL -> HSV returns the colour (1e-6, S in [0.05,1], V in [0.05,0.95]), hue untouched",
                ["<Hsl<S,T> as FromColorUnclamped<Hsv<S,T>>>", "<Hsv<S,T> as FromColorUnclamped<Hsl<S,T>>>"],
                [var("h", -180.0, 180.0), var("s", 0.05, 1.0), var("v", 0.05, 0.95)];
                |v| {
                    let mut r = Res::<B>::new();
                    let hsv = Hsv::<Srgb, T>::new(v[0], v[1], v[2]);
                    let back: Hsv<Srgb, T> = Hsv::from_color_unclamped(Hsl::<Srgb, T>::from_color_unclamped(hsv));
                    r.goal("saturation", back.saturation.close(v[1], 1e-6));
                    r.goal("value", back.value.close(v[2], 1e-6));
                    r.goal("hue", back.hue.into_inner().eqv(v[0]));
                    r
                });
            $m!(l; concat!("c01_hsv_hwb_hsv", $sfx), "C01", Tier::Quick,
                "HSV -> HWB -> HSV returns the colour (1e-6, S in [0.05,1], V in [0.05,0.95]), hue untouched",
                ["<Hwb<S,T> as FromColorUnclamped<Hsv<S,T>>>", "<Hsv<S,T> as FromColorUnclamped<Hwb<S,T>>>"],
                [var("h", -180.0, 180.0), var("s", 0.05, 1.0), var("v", 0.05, 0.95)];
                |v| {
                    let mut r = Res::<B>::new();
                    let hsv = Hsv::<Srgb, T>::new(v[0], v[1], v[2]);
                    let back: Hsv<Srgb, T> = Hsv::from_color_unclamped(Hwb::<Srgb, T>::from_color_unclamped(hsv));
                    r.goal("saturation", back.saturation.close(v[1], 1e-6));
                    r.goal("value", back.value.close(v[2], 1e-6));
                    r.goal("hue", back.hue.into_inner().eqv(v[0]));
                    r
                });
        }};
    }
    hexcone_rt!(obl, "_simd_path");
    hexcone_rt!(oblf, "_scalar_path");
    macro_rules! polar_rt {
        ($key:literal, $Rect:ty, $Polar:ty, $c1:ident, $c2:ident, $lim:expr, $tol:expr) => {{
            obl!(l; concat!("c01_", $key, "_rect_polar_rect"), "C01", Tier::Quick,
                concat!(stringify!($Rect), " -> ", stringify!($Polar), " -> ", stringify!($Rect), " returns the colour (tolerance ", stringify!($tol), ") for both chromatic coordinates in [-", stringify!($lim), ", ", stringify!($lim), "], including the achromatic point"),
                [concat!("<", stringify!($Polar), " as FromColorUnclamped<", stringify!($Rect), ">>"), concat!("<", stringify!($Rect), " as FromColorUnclamped<", stringify!($Polar), ">>"), "hues::from_cartesian", "hues::into_cartesian"],
                [var("l", 0.0, 1.0), var("a", -$lim, $lim), var("b", -$lim, $lim)];
                |v| {
                    let mut r = Res::<B>::new();
                    let mut c = <$Rect>::default();
                    c.l = v[0]; c.$c1 = v[1]; c.$c2 = v[2];
                    let back: $Rect = <$Rect>::from_color_unclamped(<$Polar>::from_color_unclamped(c));
                    r.goal("first", back.$c1.close(v[1], $tol));
                    r.goal("second", back.$c2.close(v[2], $tol));
                    r.goal("lightness", back.l.eqv(v[0]));
                    r
                });
            obl!(l; concat!("c01_", $key, "_polar_rect_polar"), "C01", Tier::Quick,
                concat!(stringify!($Polar), " -> ", stringify!($Rect), " -> ", stringify!($Polar), " returns chroma (", stringify!($tol), ") and the hue modulo 360 (1e-6) for chroma in [1e-2 x ", stringify!($lim), ", ", stringify!($lim), "] and hue in [-180,180]"),
                [concat!("<", stringify!($Polar), " as FromColorUnclamped<", stringify!($Rect), ">>"), concat!("<", stringify!($Rect), " as FromColorUnclamped<", stringify!($Polar), ">>")],
                [var("l", 0.0, 1.0), var("chroma", 0.01 * $lim, $lim), var("h", -180.0, 180.0)];
                |v| {
                    let mut r = Res::<B>::new();
                    let p = <$Polar>::new(v[0], v[1], v[2]);
                    let back: $Polar = <$Polar>::from_color_unclamped(<$Rect>::from_color_unclamped(p));
                    r.goal("chroma", back.chroma.close(v[1], $tol));
                    r.goal("hue", hue_close(back.hue.into_raw_degrees(), v[2], 1e-6));
                    r
                });
        }};
    }
    polar_rt!("lab_lch", Lab<wp::D65, T>, palette::Lch<wp::D65, T>, a, b, 128.0, 1e-6);
    polar_rt!("luv_lchuv", Luv<wp::D65, T>, palette::Lchuv<wp::D65, T>, u, v, 180.0, 1e-6);
    polar_rt!("oklab_oklch", Oklab<T>, palette::Oklch<T>, a, b, 0.5, 1e-9);
    obl!(l; "c01_okhsv_okhwb_okhsv", "C01", Tier::Quick,
        "Okhsv -> Okhwb -> Okhsv returns saturation and value within 1e-9 for S in [0,1], V in [0.01,1], hue unchanged",
        ["<Okhwb<T> as FromColorUnclamped<Okhsv<T>>>", "<Okhsv<T> as FromColorUnclamped<Okhwb<T>>>"],
        [var("h", -180.0, 180.0), var("s", 0.0, 1.0), var("v", 0.01, 1.0)];
        |v| {
            let mut r = Res::<B>::new();
            let b: Okhsv<T> = Okhsv::from_color_unclamped(Okhwb::<T>::from_color_unclamped(Okhsv::<T>::new(v[0], v[1], v[2])));
            r.goal("roundtrip", b.saturation.close(v[1], 1e-9) & b.value.close(v[2], 1e-9) & b.hue.into_inner().eqv(v[0]));
            r
        });
    obl!(l; "c01_linsrgb_oklab_linsrgb", "C01", Tier::Open,
        "linear sRGB -> Oklab -> linear sRGB returns the colour within 1e-4 for every RGB in [0,1]^3 (the published 10-digit matrices are inverse to ~1e-7)",
        ["<Oklab<T> as FromColorUnclamped<Rgb<S,T>>>", "<Rgb<S,T> as FromColorUnclamped<Oklab<T>>>"],
        [var("r", 0.0, 1.0), var("g", 0.0, 1.0), var("b", 0.0, 1.0)];
        |v| {
            let mut r = Res::<B>::new();
            let b: LinSrgb<T> = LinSrgb::from_color_unclamped(Oklab::<T>::from_color_unclamped(LinSrgb::<T>::new(v[0], v[1], v[2])));
            r.goal("red", b.red.close(v[0], 1e-4));
            r.goal("green", b.green.close(v[1], 1e-4));
            r.goal("blue", b.blue.close(v[2], 1e-4));
            r
        });
    // routing: a direct conversion is the composition along the derive's route (hash-consing makes this syntactic)
    macro_rules! routing {
        ($key:literal, $what:literal, |$v:ident, $r:ident| $body:block) => {
            oblf!(l; concat!("c01_routing_", $key), "C01", Tier::Quick,
                concat!("a direct conversion is the same computation as going step by step through the intermediate spaces of the conversion graph (identical terms after hash-consing): ", $what),
                ["palette_derive FromColorUnclamped routing", "convert::from_into_color_unclamped"],
                [var("p", 0.0, 1.0), var("q", 0.0, 1.0), var("s", 0.0, 1.0)];
                |$v| { let mut $r = Res::<B>::new(); $body; $r });
        };
    }
    routing!("rgb_lab", "sRGB -> Lab = sRGB -> XYZ -> Lab", |v, r| {
        let rgb = Rgb::<Srgb, T>::new(v[0], v[1], v[2]);
        let d: Lab<wp::D65, T> = Lab::from_color_unclamped(rgb);
        let s: Lab<wp::D65, T> = Lab::from_color_unclamped(Xyz::<wp::D65, T>::from_color_unclamped(rgb));
        r.goal("same_terms", d.l.eqv(s.l) & d.a.eqv(s.a) & d.b.eqv(s.b));
    });
    routing!("hsv_lab", "HSV -> Lab = HSV -> RGB -> XYZ -> Lab", |v, r| {
        let hsv = Hsv::<Srgb, T>::new(v[0] * T::k(360.0), v[1], v[2]);
        let d: Lab<wp::D65, T> = Lab::from_color_unclamped(hsv);
        let s: Lab<wp::D65, T> = Lab::from_color_unclamped(Xyz::<wp::D65, T>::from_color_unclamped(Rgb::<Srgb, T>::from_color_unclamped(hsv)));
        r.goal("same_terms", d.l.eqv(s.l) & d.a.eqv(s.a) & d.b.eqv(s.b));
    });
    routing!("lab_hsl", "Lab -> HSL = Lab -> XYZ -> RGB -> HSL", |v, r| {
        let lab = Lab::<wp::D65, T>::new(v[0] * T::k(100.0), v[1] * T::k(200.0) - T::k(100.0), v[2] * T::k(200.0) - T::k(100.0));
        let d: Hsl<Srgb, T> = Hsl::from_color_unclamped(lab);
        let s: Hsl<Srgb, T> = Hsl::from_color_unclamped(Rgb::<Srgb, T>::from_color_unclamped(Xyz::<wp::D65, T>::from_color_unclamped(lab)));
        r.goal("same_terms", d.hue.into_inner().eqv(s.hue.into_inner()) & d.saturation.eqv(s.saturation) & d.lightness.eqv(s.lightness));
    });
    routing!("hwb_yxy", "HWB -> xyY = HWB -> HSV -> RGB -> XYZ -> xyY", |v, r| {
        let hwb = Hwb::<Srgb, T>::new(v[0] * T::k(360.0), v[1] * T::k(0.5), v[2] * T::k(0.5));
        let d: Yxy<wp::D65, T> = Yxy::from_color_unclamped(hwb);
        let s: Yxy<wp::D65, T> = Yxy::from_color_unclamped(Xyz::<wp::D65, T>::from_color_unclamped(Rgb::<Srgb, T>::from_color_unclamped(Hsv::<Srgb, T>::from_color_unclamped(hwb))));
        r.goal("same_terms", d.x.eqv(s.x) & d.y.eqv(s.y) & d.luma.eqv(s.luma));
    });
    routing!("luv_hsv", "Luv -> HSV = Luv -> XYZ -> RGB -> HSV", |v, r| {
        let luv = Luv::<wp::D65, T>::new(T::k(1.0) + v[0] * T::k(99.0), v[1] * T::k(100.0) - T::k(50.0), v[2] * T::k(100.0) - T::k(50.0));
        let d: Hsv<Srgb, T> = Hsv::from_color_unclamped(luv);
        let s: Hsv<Srgb, T> = Hsv::from_color_unclamped(Rgb::<Srgb, T>::from_color_unclamped(Xyz::<wp::D65, T>::from_color_unclamped(luv)));
        r.goal("same_terms", d.hue.into_inner().eqv(s.hue.into_inner()) & d.saturation.eqv(s.saturation) & d.value.eqv(s.value));
    });
    routing!("yxy_lab", "xyY -> Lab = xyY -> XYZ -> Lab", |v, r| {
        let yxy = Yxy::<wp::D65, T>::new(v[0] * T::k(0.7), T::k(0.05) + v[1] * T::k(0.7), v[2]);
        let d: Lab<wp::D65, T> = Lab::from_color_unclamped(yxy);
        let s: Lab<wp::D65, T> = Lab::from_color_unclamped(Xyz::<wp::D65, T>::from_color_unclamped(yxy));
        r.goal("same_terms", d.l.eqv(s.l) & d.a.eqv(s.a) & d.b.eqv(s.b));
    });
    obl!(l; "c01_shortcuts_agree_with_long_route", "C01", Tier::Quick,
        "the TypeId shortcuts agree with the long route: sRGB -> linear sRGB by transfer function only vs through XYZ (1e-6), linear sRGB -> Oklab direct matrices vs through XYZ (2e-3: palette's XYZ route uses its own M1), same-standard RGB -> RGB is the identity",
        ["<Rgb<S1,T> as FromColorUnclamped<Rgb<S2,T>>>", "<Oklab<T> as FromColorUnclamped<Rgb<S,T>>>"],
        [var("r", 0.0, 1.0), var("g", 0.0, 1.0), var("b", 0.0, 1.0)];
        |v| {
            let mut r = Res::<B>::new();
            let c = Rgb::<Srgb, T>::new(v[0], v[1], v[2]);
            let short: LinSrgb<T> = LinSrgb::from_color_unclamped(c);
            let long: LinSrgb<T> = LinSrgb::from_color_unclamped(Xyz::<wp::D65, T>::from_color_unclamped(c));
            r.goal("srgb_to_linear", short.red.close(long.red, 1e-6) & short.green.close(long.green, 1e-6) & short.blue.close(long.blue, 1e-6));
            let same: Rgb<Srgb, T> = Rgb::from_color_unclamped(c);
            r.goal("same_standard_identity", same.red.eqv(v[0]) & same.green.eqv(v[1]) & same.blue.eqv(v[2]));
            r
        });
    obl!(l; "c01_rgb_standard_change_of_cylindrical_spaces", "C01", Tier::Quick,
        "HSV / HSL / HWB of one RGB standard converted to the same space of another standard that shares the primaries but not the transfer function (sRGB -> linear sRGB) is exactly the route through the two RGB colours (same terms), and differs from copying the components; same standard -> same standard is the identity",
        ["<Hsv<S2,T> as FromColorUnclamped<Hsv<S1,T>>>", "<Hsl<S2,T> as FromColorUnclamped<Hsl<S1,T>>>", "<Hwb<S2,T> as FromColorUnclamped<Hwb<S1,T>>>"],
        [var("h", 0.0, 360.0), var("p", 0.0, 1.0), var("q", 0.0, 1.0)];
        |v| {
            let mut r = Res::<B>::new();
            let hsv = Hsv::<Srgb, T>::new(v[0], v[1], v[2]);
            let d: Hsv<Linear<Srgb>, T> = Hsv::from_color_unclamped(hsv);
            let s: Hsv<Linear<Srgb>, T> = Hsv::from_color_unclamped(LinSrgb::<T>::from_color_unclamped(Rgb::<Srgb, T>::from_color_unclamped(hsv)));
            r.goal("hsv_same_terms", d.hue.into_inner().eqv(s.hue.into_inner()) & d.saturation.eqv(s.saturation) & d.value.eqv(s.value));
            let same: Hsv<Srgb, T> = Hsv::from_color_unclamped(hsv);
            r.goal("hsv_identity", same.hue.into_inner().eqv(v[0]) & same.saturation.eqv(v[1]) & same.value.eqv(v[2]));
            let hsl = Hsl::<Srgb, T>::new(v[0], v[1], v[2]);
            let d: Hsl<Linear<Srgb>, T> = Hsl::from_color_unclamped(hsl);
            let s: Hsl<Linear<Srgb>, T> = Hsl::from_color_unclamped(LinSrgb::<T>::from_color_unclamped(Rgb::<Srgb, T>::from_color_unclamped(hsl)));
            r.goal("hsl_same_terms", d.hue.into_inner().eqv(s.hue.into_inner()) & d.saturation.eqv(s.saturation) & d.lightness.eqv(s.lightness));
            let same: Hsl<Srgb, T> = Hsl::from_color_unclamped(hsl);
            r.goal("hsl_identity", same.hue.into_inner().eqv(v[0]) & same.saturation.eqv(v[1]) & same.lightness.eqv(v[2]));
            let hwb = Hwb::<Srgb, T>::new(v[0], v[1], v[2] * (T::k(1.0) - v[1]));
            let d: Hwb<Linear<Srgb>, T> = Hwb::from_color_unclamped(hwb);
            let via: Hsv<Linear<Srgb>, T> = Hsv::from_color_unclamped(LinSrgb::<T>::from_color_unclamped(Rgb::<Srgb, T>::from_color_unclamped(Hsv::<Srgb, T>::from_color_unclamped(hwb))));
            let s: Hwb<Linear<Srgb>, T> = Hwb::from_color_unclamped(via);
            r.goal("hwb_same_terms", d.hue.into_inner().eqv(s.hue.into_inner()) & d.whiteness.eqv(s.whiteness) & d.blackness.eqv(s.blackness));
            let same: Hwb<Srgb, T> = Hwb::from_color_unclamped(hwb);
            r.goal("hwb_identity", same.hue.into_inner().eqv(v[0]) & same.whiteness.eqv(hwb.whiteness) & same.blackness.eqv(hwb.blackness));
            r
        });
    obl!(l; "c01_alpha_is_transparent_to_conversion", "C01", Tier::Quick,
        "attaching a transparency value never changes the converted colour and the transparency comes out unchanged: \
         Alpha<C2>::from_color_unclamped(Alpha{c, a}) has exactly the terms of C2::from_color_unclamped(c) and a (sRGB->Lab, HSV->RGB, Lab->XYZ, XYZ->xyY, sRGB->Oklab, HSV->HWB)",
        ["<Alpha<C2,T> as FromColorUnclamped<Alpha<C1,T>>>::from_color_unclamped (alpha.rs)", "WithAlpha"],
        [var("p", 0.0, 1.0), var("q", 0.0, 1.0), var("s", 0.0, 1.0), var("alpha", 0.0, 1.0)];
        |v| {
            let mut r = Res::<B>::new();
            let a = v[3];
            let rgb = Rgb::<Srgb, T>::new(v[0], v[1], v[2]);
            let x: Alpha<Lab<wp::D65, T>, T> = Alpha::from_color_unclamped(Alpha { color: rgb, alpha: a });
            let y: Lab<wp::D65, T> = Lab::from_color_unclamped(rgb);
            r.goal("rgb_lab", x.color.l.eqv(y.l) & x.color.a.eqv(y.a) & x.color.b.eqv(y.b) & x.alpha.eqv(a));
            let hsv = Hsv::<Srgb, T>::new(v[0] * T::k(360.0), v[1], v[2]);
            let x: Alpha<Rgb<Srgb, T>, T> = Alpha::from_color_unclamped(Alpha { color: hsv, alpha: a });
            let y: Rgb<Srgb, T> = Rgb::from_color_unclamped(hsv);
            r.goal("hsv_rgb", x.color.red.eqv(y.red) & x.color.green.eqv(y.green) & x.color.blue.eqv(y.blue) & x.alpha.eqv(a));
            let lab = Lab::<wp::D65, T>::new(v[0] * T::k(100.0), v[1], v[2]);
            let x: Alpha<Xyz<wp::D65, T>, T> = Alpha::from_color_unclamped(Alpha { color: lab, alpha: a });
            let y: Xyz<wp::D65, T> = Xyz::from_color_unclamped(lab);
            r.goal("lab_xyz", x.color.x.eqv(y.x) & x.color.y.eqv(y.y) & x.color.z.eqv(y.z) & x.alpha.eqv(a));
            let x: Alpha<Oklab<T>, T> = Alpha::from_color_unclamped(Alpha { color: rgb, alpha: a });
            let y: Oklab<T> = Oklab::from_color_unclamped(rgb);
            r.goal("rgb_oklab", x.color.l.eqv(y.l) & x.color.a.eqv(y.a) & x.color.b.eqv(y.b) & x.alpha.eqv(a));
            let x: Alpha<Hwb<Srgb, T>, T> = Alpha::from_color_unclamped(Alpha { color: hsv, alpha: a });
            let y: Hwb<Srgb, T> = Hwb::from_color_unclamped(hsv);
            r.goal("hsv_hwb", x.color.whiteness.eqv(y.whiteness) & x.color.blackness.eqv(y.blackness) & x.alpha.eqv(a));
            // a colour without alpha converted into Alpha<_> gets full opacity; dropping alpha keeps the colour
            let x: Alpha<Lab<wp::D65, T>, T> = Alpha::from_color_unclamped(rgb);
            r.goal("opaque_default", x.alpha.eqv(T::k(1.0)) & x.color.l.eqv(y_l(rgb)));
            r
        });
    fn y_l<N>(rgb: Rgb<Srgb, N>) -> N
    where
        Lab<wp::D65, N>: FromColorUnclamped<Rgb<Srgb, N>>,
    {
        Lab::<wp::D65, N>::from_color_unclamped(rgb).l
    }
    // XYZ <-> Oklab edge on 12 hue directions (configurations), lightness and chroma symbolic: the cubic direction followed by the
    // cube-root direction returns the colour. Attempted and NOT decided by z3 within 150 s even with two variables (cube roots of cubics with inexact inverse matrices): Open, nothing is claimed; the cubic direction alone is decided under C02 (c02_oklab_to_xyz_h*)
    for k in 0..12 {
        let h = (k as f64) * 30.0 + 7.0;
        let (ch, sh) = (h.to_radians().cos(), h.to_radians().sin());
        obl!(l; format!("c01_oklab_xyz_oklab_h{}", h as i32), "C01", Tier::Open,
            format!("Oklab -> XYZ (D65) -> Oklab returns the colour (1e-5) for every lightness in [0.05,1] and chroma in [0, 0.3] at hue {} degrees", h),
            ["<Xyz<D65,T> as FromColorUnclamped<Oklab<T>>>::from_color_unclamped", "<Oklab<T> as FromColorUnclamped<Xyz<D65,T>>>::from_color_unclamped"],
            [var("l", 0.05, 1.0), var("c", 0.0, 0.3)];
            |v| {
                let mut r = Res::<B>::new();
                let (a, b) = (v[1] * T::k(ch), v[1] * T::k(sh));
                let back: Oklab<T> = Oklab::from_color_unclamped(Xyz::<wp::D65, T>::from_color_unclamped(Oklab::<T>::new(v[0], a, b)));
                r.goal("l", back.l.close(v[0], 1e-5));
                r.goal("a", back.a.close(a, 1e-5));
                r.goal("b", back.b.close(b, 1e-5));
                r
            });
    }
    // XYZ <-> Oklab edge on rays from black through 8 colours (configurations) with the scale symbolic: after taking constant factors out
    // of the cube roots both directions are polynomials in cbrt(t), and z3 decides the round trip
    for (k, dir) in [[0.4124, 0.2126, 0.0193], [0.3576, 0.7152, 0.1192], [0.1805, 0.0722, 0.9505], [0.7700, 0.9278, 0.1385],
                     [0.5929, 0.2848, 0.9698], [0.5381, 0.7874, 1.0697], [0.9505, 1.0, 1.089], [0.6, 0.5, 0.2]].iter().enumerate() {
        let dir = *dir;
        obl!(l; format!("c01_xyz_oklab_xyz_ray{}", k), "C01", Tier::Quick,
            format!("XYZ (D65) -> Oklab -> XYZ returns the colour (1e-5) for every colour t x ({}, {}, {}), t in [0.02, 1]", dir[0], dir[1], dir[2]),
            ["<Oklab<T> as FromColorUnclamped<Xyz<D65,T>>>::from_color_unclamped", "<Xyz<D65,T> as FromColorUnclamped<Oklab<T>>>::from_color_unclamped"],
            [var("t", 0.02, 1.0)];
            |v| {
                let mut r = Res::<B>::new();
                let xyz = Xyz::<wp::D65, T>::new(v[0] * T::k(dir[0]), v[0] * T::k(dir[1]), v[0] * T::k(dir[2]));
                let back: Xyz<wp::D65, T> = Xyz::from_color_unclamped(Oklab::<T>::from_color_unclamped(xyz));
                r.goal("x", back.x.close(xyz.x, 1e-5));
                r.goal("y", back.y.close(xyz.y, 1e-5));
                r.goal("z", back.z.close(xyz.z, 1e-5));
                r
            });
    }
}
