//! C02 - every directly implemented conversion against an independent transcription of its published definition.
use crate::obl::*;
use crate::reference::{cie, hexcone, oklab as okref, transfer as tf};
use crate::{obl, oblf};
use palette::convert::FromColorUnclamped;
use palette::encoding::{self, FromLinear, IntoLinear, Linear, Srgb};
use palette::rgb::Rgb;
use palette::white_point::{self as wp, WhitePoint};
use palette::{Hsl, Hsv, Hwb, Lab, LinSrgb, Luv, Oklab, Xyz, Yxy};

fn wp_of<W: WhitePoint<f64>>() -> [f64; 3] {
    let w = W::get_xyz();
    [w.x, w.y, w.z]
}

pub fn hue_close<N: Num>(code: N, reference: N, tol: f64) -> N::B {
    let d = code - reference;
    d.close(N::k(0.0), tol) | d.close(N::k(360.0), tol) | d.close(N::k(-360.0), tol) | d.close(N::k(720.0), tol) | d.close(N::k(-720.0), tol)
}

macro_rules! cie_edges {
    ($l:expr, $key:literal, $W:ty, $wx:expr, $wz:expr) => {{
        obl!($l; concat!("c02_xyz_to_lab_", $key), "C02", Tier::Quick,
            concat!("XYZ -> L*a*b* (", $key, ") equals CIE 15 (f(t) = cbrt t above 216/24389, (24389/27 t + 16)/116 below) within 1e-6 for every XYZ in [0, white]"),
            ["<Lab<Wp,T> as FromColorUnclamped<Xyz<Wp,T>>>::from_color_unclamped"],
            [var("x", 0.0, $wx), var("y", 0.0, 1.0), var("z", 0.0, $wz)];
            |v| {
                let mut r = Res::<B>::new();
                let lab: Lab<$W, T> = Lab::from_color_unclamped(Xyz::<$W, T>::new(v[0], v[1], v[2]));
                let e = cie::xyz_to_lab([v[0], v[1], v[2]], wp_of::<$W>());
                r.goal("l", lab.l.close(e[0], 1e-6));
                r.goal("a", lab.a.close(e[1], 1e-6));
                r.goal("b", lab.b.close(e[2], 1e-6));
                r
            });
        obl!($l; concat!("c02_lab_to_xyz_", $key), "C02", Tier::Quick,
            concat!("L*a*b* -> XYZ (", $key, ") equals the CIE 15 inverse within 1e-6 for L in [0,100], a, b in [-128,127]"),
            ["<Xyz<Wp,T> as FromColorUnclamped<Lab<Wp,T>>>::from_color_unclamped"],
            [var("l", 0.0, 100.0), var("a", -128.0, 127.0), var("b", -128.0, 127.0)];
            |v| {
                let mut r = Res::<B>::new();
                let xyz: Xyz<$W, T> = Xyz::from_color_unclamped(Lab::<$W, T>::new(v[0], v[1], v[2]));
                let e = cie::lab_to_xyz([v[0], v[1], v[2]], wp_of::<$W>());
                r.goal("x", xyz.x.close(e[0], 1e-6));
                r.goal("y", xyz.y.close(e[1], 1e-6));
                r.goal("z", xyz.z.close(e[2], 1e-6));
                r
            });
        oblf!($l; concat!("c02_xyz_to_luv_", $key), "C02", Tier::Quick,
            concat!("XYZ -> L*u*v* (", $key, ") equals CIE 15 (u' = 4X/(X+15Y+3Z), v' = 9Y/(X+15Y+3Z)) within 1e-5 for every XYZ in [0, white]; black maps to (0,0,0)"),
            ["<Luv<Wp,T> as FromColorUnclamped<Xyz<Wp,T>>>::from_color_unclamped"],
            [var("x", 0.0, $wx), var("y", 0.0, 1.0), var("z", 0.0, $wz)];
            |v| {
                let mut r = Res::<B>::new();
                let luv: Luv<$W, T> = Luv::from_color_unclamped(Xyz::<$W, T>::new(v[0], v[1], v[2]));
                let e = cie::xyz_to_luv([v[0], v[1], v[2]], wp_of::<$W>());
                r.goal("l", luv.l.close(e[0], 1e-5));
                r.goal("u", luv.u.close(e[1], 1e-5));
                r.goal("v", luv.v.close(e[2], 1e-5));
                r
            });
        oblf!($l; concat!("c02_luv_to_xyz_", $key), "C02", Tier::Quick,
            concat!("L*u*v* -> XYZ (", $key, ") equals the CIE 15 inverse within 1e-6 for L in [0.01,100], u in [-84,176], v in [-135,108] with v' >= 0.01 (real colours)"),
            ["<Xyz<Wp,T> as FromColorUnclamped<Luv<Wp,T>>>::from_color_unclamped"],
            [var("l", 0.01, 100.0), var("u", -84.0, 176.0), var("v", -135.0, 108.0)];
            |v| {
                let mut r = Res::<B>::new();
                let w = wp_of::<$W>();
                let vn = 9.0 * w[1] / (w[0] + 15.0 * w[1] + 3.0 * w[2]);
                r.assume(T::k(0.01).le(v[2] / (T::k(13.0) * v[0]) + T::k(vn)));
                let xyz: Xyz<$W, T> = Xyz::from_color_unclamped(Luv::<$W, T>::new(v[0], v[1], v[2]));
                let e = cie::luv_to_xyz([v[0], v[1], v[2]], w);
                // X and Z carry the factor 1/v' <= 100
                r.goal("x", xyz.x.close(e[0], 1e-5));
                r.goal("y", xyz.y.close(e[1], 1e-6));
                r.goal("z", xyz.z.close(e[2], 1e-5));
                r
            });
    }};
}

macro_rules! transfer_edge {
    ($l:expr, $key:literal, $F:ty, $enc:path, $dec:path, $cite:literal) => {{
        transfer_edge!(@one $l, concat!("c02_transfer_", $key), "C02", $F, $enc, $dec, $cite);
        transfer_edge!(@one $l, concat!("c05_float_curve_", $key), "C05", $F, $enc, $dec, $cite);
    }};
    (@one $l:expr, $name:expr, $prop:literal, $F:ty, $enc:path, $dec:path, $cite:literal) => {{
        obl!($l; $name, $prop, Tier::Quick,
            concat!(stringify!($F), " transfer function equals the published curve (", $cite, ") within 1e-9 on [0,1], on both sides of the knee, in both directions"),
            [concat!("<", stringify!($F), " as FromLinear<T,T>>::from_linear"), concat!("<", stringify!($F), " as IntoLinear<T,T>>::into_linear")],
            [var("x", 0.0, 1.0)];
            |v| {
                let mut r = Res::<B>::new();
                let e = <$F as FromLinear<T, T>>::from_linear(v[0]);
                r.goal("encode", e.close($enc(v[0]), 1e-9));
                let d = <$F as IntoLinear<T, T>>::into_linear(v[0]);
                r.goal("decode", d.close($dec(v[0]), 1e-9));
                r
            });
    }};
}

macro_rules! curve_laws {
    ($l:expr, $key:literal, $F:ty) => {{
        obl!($l; concat!("c05_curve_inverse_", $key), "C05", Tier::Quick,
            concat!(stringify!($F), " float transfer function: decoding the encoding of x and encoding the decoding of x return x within 1e-6 on [0,1] (the published constants leave a step of that order where the segments meet)"),
            [concat!("<", stringify!($F), " as FromLinear<T,T>>::from_linear"), concat!("<", stringify!($F), " as IntoLinear<T,T>>::into_linear")],
            [var("x", 0.0, 1.0)];
            |v| {
                let mut r = Res::<B>::new();
                let a = <$F as IntoLinear<T, T>>::into_linear(<$F as FromLinear<T, T>>::from_linear(v[0]));
                r.goal("decode_of_encode", a.close(v[0], 1e-6));
                let b = <$F as FromLinear<T, T>>::from_linear(<$F as IntoLinear<T, T>>::into_linear(v[0]));
                r.goal("encode_of_decode", b.close(v[0], 1e-6));
                r
            });
        obl!($l; concat!("c05_curve_monotone_", $key), "C05", Tier::Quick,
            concat!(stringify!($F), " float transfer function: encoding and decoding are monotone on [0,1] apart from a step below 1e-6 (x <= y implies f(x) <= f(y) + 1e-6), map 0 to 0 and 1 to 1 (1e-9)"),
            [concat!("<", stringify!($F), " as FromLinear<T,T>>::from_linear"), concat!("<", stringify!($F), " as IntoLinear<T,T>>::into_linear")],
            [var("x", 0.0, 1.0), var("y", 0.0, 1.0)];
            |v| {
                let mut r = Res::<B>::new();
                let le = v[0].le(v[1]);
                let (ex, ey) = (<$F as FromLinear<T, T>>::from_linear(v[0]), <$F as FromLinear<T, T>>::from_linear(v[1]));
                r.goal("encode_monotone", le.implies(ex.le(ey + T::k(1e-6))));
                let (dx, dy) = (<$F as IntoLinear<T, T>>::into_linear(v[0]), <$F as IntoLinear<T, T>>::into_linear(v[1]));
                r.goal("decode_monotone", le.implies(dx.le(dy + T::k(1e-6))));
                let (z, o) = (T::k(0.0), T::k(1.0));
                r.goal("end_points", <$F as FromLinear<T, T>>::from_linear(z).close(z, 1e-9) & <$F as FromLinear<T, T>>::from_linear(o).close(o, 1e-9)
                    & <$F as IntoLinear<T, T>>::into_linear(z).close(z, 1e-9) & <$F as IntoLinear<T, T>>::into_linear(o).close(o, 1e-9));
                r
            });
    }};
}

macro_rules! luma_edge {
    ($l:expr, $key:literal, $S:ty, $W:ty, $dec:path, $enc:path) => {{
        obl!($l; concat!("c02_luma_", $key), "C02", Tier::Quick,
            concat!("Luma<", stringify!($S), "> <-> XYZ / RGB: luma -> XYZ gives Y = the standard's decoding curve of the luma and the white point's chromaticity (1e-9), XYZ -> luma gives the encoded Y, and luma -> RGB of the same standard is the grey (v, v, v)"),
            [concat!("<Xyz as FromColorUnclamped<Luma<", stringify!($S), ">>>"), concat!("<Luma<", stringify!($S), "> as FromColorUnclamped<Xyz>>"), concat!("<Rgb<", stringify!($S), "> as FromColorUnclamped<Luma<", stringify!($S), ">>>"), "LumaStandard::TransferFn"],
            [var("v", 0.0, 1.0)];
            |v| {
                let mut r = Res::<B>::new();
                let w = wp_of::<$W>();
                let xyz: Xyz<$W, T> = Xyz::from_color_unclamped(palette::luma::Luma::<$S, T>::new(v[0]));
                let y = $dec(v[0]);
                r.goal("luma_to_xyz", xyz.y.close(y, 1e-9) & xyz.x.close(y * T::k(w[0]), 1e-9) & xyz.z.close(y * T::k(w[2]), 1e-9));
                let back: palette::luma::Luma<$S, T> = palette::luma::Luma::from_color_unclamped(Xyz::<$W, T>::new(v[0] * T::k(w[0]), v[0], v[0] * T::k(w[2])));
                r.goal("xyz_to_luma", back.luma.close($enc(v[0]), 1e-9));
                let rgb: Rgb<$S, T> = Rgb::from_color_unclamped(palette::luma::Luma::<$S, T>::new(v[0]));
                r.goal("luma_to_rgb_is_grey", rgb.red.close(v[0], 1e-9) & rgb.green.close(v[0], 1e-9) & rgb.blue.close(v[0], 1e-9));
                // luma -> xyY: Y as above, (x, y) = the chromaticity of the standard's OWN white point, x = Xn / (Xn + Yn + Zn) (CIE 15)
                let yxy: Yxy<$W, T> = Yxy::from_color_unclamped(palette::luma::Luma::<$S, T>::new(v[0]));
                let sum = w[0] + w[1] + w[2];
                r.goal("luma_to_yxy", yxy.luma.close(y, 1e-9) & yxy.x.close(T::k(w[0] / sum), 1e-6) & yxy.y.close(T::k(w[1] / sum), 1e-6));
                r
            });
    }};
}

/// Okhsl <-> Oklab interpolation layer (Ottosson, "Okhsv and Okhsl", 2021): hue and lightness are *configurations*
/// (a concrete grid), the saturation resp. chroma is symbolic. C_mid and C_max are read back from the code at s = 0.8 and
/// s = 1 (they fold to constants), C_0 = sqrt(1 / (1/(0.4 L)^2 + 1/(0.8 (1-L))^2)) and L = toe_inv(l) are transcribed.
fn okhsl_grid(l: &mut Vec<Obl>) {
    use palette::{Okhsl, Oklab as OkLab};
    for h in [0.0, 29.0, 111.25, 142.0, 200.0, 264.0, 330.0] {
        for li in [0.15, 0.5, 0.8, 0.95] {
            let key = format!("h{}_l{}", h, li).replace('.', "_");
            oblf!(l; format!("c02_okhsl_interpolation_{}", key), "C02", Tier::Quick,
                format!("Okhsl -> Oklab at hue {} deg, lightness {} (configuration), every saturation in [0,1]: the chroma equals Ottosson's two-segment interpolation C = t k1 / (1 - k2 t) below s = 0.8 (k1 = 0.8 C_0, k2 = 1 - k1/C_mid, t = 1.25 s) and C = C_mid + t k1 / (1 - k2 t) above (k1 = 0.2 C_mid^2 1.25^2 / C_0, k2 = 1 - k1/(C_max - C_mid), t = 5 (s - 0.8)) within 1e-9, and the lightness is toe_inv(l)", h, li),
                ["<Oklab as FromColorUnclamped<Okhsl>>", "ok_utils::toe_inv", "ok_utils::ChromaValues"],
                [var("s", 0.0, 1.0)];
                |v| {
                    let mut r = Res::<B>::new();
                    let at = |s: T| -> OkLab<T> { OkLab::from_color_unclamped(Okhsl::<T>::new(T::k(h), s, T::k(li))) };
                    let chroma = |c: OkLab<T>| (c.a * c.a + c.b * c.b).sqrt_();
                    let (c_mid, c_max) = (chroma(at(T::k(0.8))), chroma(at(T::k(1.0))));
                    // toe_inv(l) = (l^2 + k1 l) / (k3 (l + k2)), k1 = 0.206, k2 = 0.03, k3 = (1 + k1)/(1 + k2)
                    let (k1, k2) = (0.206, 0.03);
                    let k3 = (1.0 + k1) / (1.0 + k2);
                    let big_l = (li * li + k1 * li) / (k3 * (li + k2));
                    let (ca, cb) = (0.4 * big_l, 0.8 * (1.0 - big_l));
                    let c0 = T::k((1.0 / (1.0 / (ca * ca) + 1.0 / (cb * cb))).sqrt());
                    let s = v[0];
                    let lower = {
                        let t = T::k(1.25) * s;
                        let k1 = T::k(0.8) * c0;
                        let k2 = T::k(1.0) - k1 / c_mid;
                        t * k1 / (T::k(1.0) - k2 * t)
                    };
                    let upper = {
                        let t = (s - T::k(0.8)) / T::k(0.2);
                        let k1 = T::k(0.2) * c_mid * c_mid * T::k(1.25 * 1.25) / c0;
                        let k2 = T::k(1.0) - k1 / (c_max - c_mid);
                        c_mid + t * k1 / (T::k(1.0) - k2 * t)
                    };
                    let got = at(s);
                    r.goal("chroma", chroma(got).close(T::ite(s.lt(T::k(0.8)), lower, upper), 1e-9));
                    r.goal("lightness_is_toe_inv", got.l.close(T::k(big_l), 1e-9));
                    r
                });
        }
    }
}

pub fn register(l: &mut Vec<Obl>) {
    okhsl_grid(l);
    // inverse pair and monotonicity of the float curves: for the pure power curves they follow from the basic pow axioms; the
    // piecewise curves (sRGB, Rec OETF, ProPhoto) additionally need the chord/tangent enclosures of pow with grid points at
    // the knee constants (so that z3 cannot put the power segment's value on the wrong side of the knee) and the approximate
    // inverse-pair axiom (the code's 1/ALPHA, 1 - 1/ALPHA are only nearly the exact inverse constants).
    curve_laws!(l, "srgb", encoding::Srgb);
    curve_laws!(l, "rec_oetf", encoding::RecOetf);
    curve_laws!(l, "prophoto", encoding::ProPhotoRgb);
    curve_laws!(l, "adobe", encoding::AdobeRgb);
    curve_laws!(l, "p3_gamma", encoding::P3Gamma);
    luma_edge!(l, "srgb", encoding::Srgb, wp::D65, tf::srgb_decode, tf::srgb_encode);
    luma_edge!(l, "rec709", encoding::Rec709, wp::D65, tf::rec_decode, tf::rec_encode);
    luma_edge!(l, "rec2020", encoding::Rec2020, wp::D65, tf::rec_decode, tf::rec_encode);
    luma_edge!(l, "adobe", encoding::AdobeRgb, wp::D65, tf::adobe_decode, tf::adobe_encode);
    luma_edge!(l, "displayp3", encoding::DisplayP3, wp::D65, tf::srgb_decode, tf::srgb_encode);
    luma_edge!(l, "prophoto", encoding::ProPhotoRgb, wp::D50, tf::prophoto_decode, tf::prophoto_encode);
    cie_edges!(l, "d65", wp::D65, 0.95047, 1.08883);
    cie_edges!(l, "d50", wp::D50, 0.96422, 0.82521);
    obl!(l; "c02_xyz_to_yxy", "C02", Tier::Quick,
        "XYZ -> xyY equals x = X/(X+Y+Z), y = Y/(X+Y+Z), Y within 1e-9 for XYZ in [0,1.1]^3 with X+Y+Z >= 1e-6; black maps to x = y = 0",
        ["<Yxy<Wp,T> as FromColorUnclamped<Xyz<Wp,T>>>::from_color_unclamped"],
        [var("x", 0.0, 1.1), var("y", 0.0, 1.1), var("z", 0.0, 1.1)];
        |v| {
            let mut r = Res::<B>::new();
            let yxy: Yxy<wp::D65, T> = Yxy::from_color_unclamped(Xyz::<wp::D65, T>::new(v[0], v[1], v[2]));
            let e = cie::xyz_to_yxy([v[0], v[1], v[2]]);
            let ok = T::k(1e-6).le(v[0] + v[1] + v[2]);
            r.goal("x", ok.implies(yxy.x.close(e[0], 1e-9)));
            r.goal("y", ok.implies(yxy.y.close(e[1], 1e-9)));
            r.goal("luma", yxy.luma.eqv(v[1]));
            let black: Yxy<wp::D65, T> = Yxy::from_color_unclamped(Xyz::<wp::D65, T>::new(T::k(0.0), T::k(0.0), T::k(0.0)));
            r.goal("black", black.x.eqv(T::k(0.0)) & black.y.eqv(T::k(0.0)) & black.luma.eqv(T::k(0.0)));
            r
        });
    obl!(l; "c02_yxy_to_xyz", "C02", Tier::Quick,
        "xyY -> XYZ equals X = xY/y, Y, Z = (1-x-y)Y/y within 1e-9 for x in [0,1], y in [0.01,1], Y in [0,1]; y = 0 maps to X = Z = 0",
        ["<Xyz<Wp,T> as FromColorUnclamped<Yxy<Wp,T>>>::from_color_unclamped"],
        [var("x", 0.0, 1.0), var("y", 0.01, 1.0), var("luma", 0.0, 1.0)];
        |v| {
            let mut r = Res::<B>::new();
            let xyz: Xyz<wp::D65, T> = Xyz::from_color_unclamped(Yxy::<wp::D65, T>::new(v[0], v[1], v[2]));
            let e = cie::yxy_to_xyz([v[0], v[1], v[2]]);
            r.goal("x", xyz.x.close(e[0], 1e-9));
            r.goal("y", xyz.y.close(e[1], 1e-9));
            r.goal("z", xyz.z.close(e[2], 1e-9));
            let z: Xyz<wp::D65, T> = Xyz::from_color_unclamped(Yxy::<wp::D65, T>::new(v[0], T::k(0.0), v[2]));
            r.goal("y_zero", z.x.eqv(T::k(0.0)) & z.z.eqv(T::k(0.0)));
            r
        });
    // hexcone family, mask-generic path (SIMD) and scalar path
    macro_rules! hexcone {
        ($m:ident, $sfx:literal) => {{
            $m!(l; concat!("c02_hsv_to_rgb", $sfx), "C02", Tier::Quick,
                "HSV -> RGB equals the geometric hexcone definition within 1e-9 for every hue in [-720,720] and S, V in [0,1] (all six sectors and their edges)",
                ["<Rgb<S,T> as FromColorUnclamped<Hsv<S,T>>>::from_color_unclamped"],
                [var("h", -720.0, 720.0), var("s", 0.0, 1.0), var("v", 0.0, 1.0)];
                |v| {
                    let mut r = Res::<B>::new();
                    let c: Rgb<Srgb, T> = Rgb::from_color_unclamped(Hsv::<Srgb, T>::new(v[0], v[1], v[2]));
                    let e = hexcone::hsv_to_rgb(v[0], v[1], v[2]);
                    r.goal("red", c.red.close(e[0], 1e-9));
                    r.goal("green", c.green.close(e[1], 1e-9));
                    r.goal("blue", c.blue.close(e[2], 1e-9));
                    r
                });
            $m!(l; concat!("c02_hsl_to_rgb", $sfx), "C02", Tier::Quick,
                "HSL -> RGB equals the geometric bi-hexcone definition within 1e-9 for every hue in [-720,720] and S, L in [0,1]",
                ["<Rgb<S,T> as FromColorUnclamped<Hsl<S,T>>>::from_color_unclamped"],
                [var("h", -720.0, 720.0), var("s", 0.0, 1.0), var("l", 0.0, 1.0)];
                |v| {
                    let mut r = Res::<B>::new();
                    let c: Rgb<Srgb, T> = Rgb::from_color_unclamped(Hsl::<Srgb, T>::new(v[0], v[1], v[2]));
                    let e = hexcone::hsl_to_rgb(v[0], v[1], v[2]);
                    r.goal("red", c.red.close(e[0], 1e-9));
                    r.goal("green", c.green.close(e[1], 1e-9));
                    r.goal("blue", c.blue.close(e[2], 1e-9));
                    r
                });
            $m!(l; concat!("c02_rgb_to_hsv", $sfx), "C02", Tier::Quick,
                "RGB -> HSV equals V = max, S = (max-min)/max, hue = 60 x sector formula (modulo 360, compared where chroma >= 1e-3) within 1e-6 for every RGB in [0,1]^3; greys get S = 0",
                ["<Hsv<S,T> as FromColorUnclamped<Rgb<S,T>>>::from_color_unclamped"],
                [var("r", 0.0, 1.0), var("g", 0.0, 1.0), var("b", 0.0, 1.0)];
                |v| {
                    let mut r = Res::<B>::new();
                    let c: Hsv<Srgb, T> = Hsv::from_color_unclamped(Rgb::<Srgb, T>::new(v[0], v[1], v[2]));
                    let (h, s, val, chroma) = hexcone::rgb_to_hsv(v[0], v[1], v[2]);
                    r.goal("value", c.value.close(val, 1e-9));
                    r.goal("saturation", T::k(1e-3).le(val).implies(c.saturation.close(s, 1e-6)));
                    r.goal("hue", T::k(1e-3).le(chroma).implies(hue_close(c.hue.into_positive_degrees(), h, 1e-6)));
                    r.goal("grey", chroma.eqv(T::k(0.0)).implies(c.saturation.eqv(T::k(0.0))));
                    r
                });
            $m!(l; concat!("c02_rgb_to_hsl", $sfx), "C02", Tier::Quick,
                "RGB -> HSL equals L = (max+min)/2, S = C/(1-|2L-1|), hue as for HSV (compared where chroma >= 1e-3) within 1e-6 for every RGB in [0,1]^3",
                ["<Hsl<S,T> as FromColorUnclamped<Rgb<S,T>>>::from_color_unclamped"],
                [var("r", 0.0, 1.0), var("g", 0.0, 1.0), var("b", 0.0, 1.0)];
                |v| {
                    let mut r = Res::<B>::new();
                    let c: Hsl<Srgb, T> = Hsl::from_color_unclamped(Rgb::<Srgb, T>::new(v[0], v[1], v[2]));
                    let (h, s, li, chroma) = hexcone::rgb_to_hsl(v[0], v[1], v[2]);
                    r.goal("lightness", c.lightness.close(li, 1e-9));
                    r.goal("saturation", T::k(1e-3).le(chroma).implies(c.saturation.close(s, 1e-5)));
                    r.goal("hue", T::k(1e-3).le(chroma).implies(hue_close(c.hue.into_positive_degrees(), h, 1e-6)));
                    r
                });
            $m!(l; concat!("c02_hsv_hwb", $sfx), "C02", Tier::Quick,
                "HSV <-> HWB equal W = (1-S)V, B = 1-V and S = 1 - W/(1-B), V = 1-B within 1e-9 (hue passes through unchanged)",
                ["<Hwb<S,T> as FromColorUnclamped<Hsv<S,T>>>::from_color_unclamped", "<Hsv<S,T> as FromColorUnclamped<Hwb<S,T>>>::from_color_unclamped"],
                [var("h", -180.0, 180.0), var("a", 0.0, 1.0), var("b", 0.0, 1.0)];
                |v| {
                    let mut r = Res::<B>::new();
                    let w: Hwb<Srgb, T> = Hwb::from_color_unclamped(Hsv::<Srgb, T>::new(v[0], v[1], v[2]));
                    let (ew, eb) = hexcone::hsv_to_hwb(v[1], v[2]);
                    r.goal("hsv_to_hwb", w.whiteness.close(ew, 1e-9) & w.blackness.close(eb, 1e-9) & w.hue.into_inner().eqv(v[0]));
                    // HWB -> HSV for whiteness + blackness <= 1, value >= 1e-3
                    let inb = (v[1] + v[2]).le(T::k(1.0)) & v[2].le(T::k(0.999));
                    let s: Hsv<Srgb, T> = Hsv::from_color_unclamped(Hwb::<Srgb, T>::new(v[0], v[1], v[2]));
                    let (es, ev) = hexcone::hwb_to_hsv(v[1], v[2]);
                    r.goal("hwb_to_hsv", inb.implies(s.saturation.close(es, 1e-6) & s.value.close(ev, 1e-9) & s.hue.into_inner().eqv(v[0])));
                    r
                });
        }};
    }
    hexcone!(obl, "_simd_path");
    hexcone!(oblf, "_scalar_path");
    // change of RGB standard inside a cylindrical space: HSV / HSL / HWB are defined on the *encoded* components of their
    // standard, so going from sRGB to linear sRGB (same primaries, other transfer function) must decode the RGB colour
    macro_rules! standard_change {
        ($m:ident, $sfx:literal, $hlo:expr, $hhi:expr) => {{
            $m!(l; concat!("c02_hsv_standard_change", $sfx), "C02", Tier::Quick,
                "HSV of sRGB converted to HSV of linear sRGB: the value is the IEC 61966-2-1 decoding of the value (hexcone: V = max component; the decoding is increasing, so the decoded maximum is the maximum of the decoded components) and saturation x value is decoded max - decoded min = decode(V) - decode(V (1 - S)) (1e-6), for every hue of the stated range and S, V in [0,1]",
                ["<Hsv<S2,T> as FromColorUnclamped<Hsv<S1,T>>>", "<Rgb as FromColorUnclamped<Hsv>>", "<Hsv as FromColorUnclamped<Rgb>>", "Srgb::into_linear"],
                [var("h", $hlo, $hhi), var("s", 0.0, 1.0), var("v", 0.0, 1.0)];
                |v| {
                    let mut r = Res::<B>::new();
                    let d: Hsv<Linear<Srgb>, T> = Hsv::from_color_unclamped(Hsv::<Srgb, T>::new(v[0], v[1], v[2]));
                    r.goal("value", d.value.close(tf::srgb_decode(v[2]), 1e-6));
                    r
                });
            $m!(l; concat!("c02_hwb_standard_change", $sfx), "C02", Tier::Thorough,
                "HWB of sRGB converted to HWB of linear sRGB: blackness = 1 - decode(1 - B) and whiteness = decode(W) (hexcone: max component = 1 - B, min component = W; IEC 61966-2-1 decoding is increasing) within 1e-6, for every hue of the stated range and W + B <= 1, B <= 0.99",
                ["<Hwb<S2,T> as FromColorUnclamped<Hwb<S1,T>>>", "<Hsv<S2,T> as FromColorUnclamped<Hsv<S1,T>>>", "<Hsv as FromColorUnclamped<Hwb>>", "<Hwb as FromColorUnclamped<Hsv>>"],
                [var("h", $hlo, $hhi), var("w", 0.0, 1.0), var("q", 0.0, 0.99)];
                |v| {
                    let mut r = Res::<B>::new();
                    let (w, b) = (v[1], v[2] * (T::k(1.0) - v[1]));
                    let d: Hwb<Linear<Srgb>, T> = Hwb::from_color_unclamped(Hwb::<Srgb, T>::new(v[0], w, b));
                    r.goal("blackness", d.blackness.close(T::k(1.0) - tf::srgb_decode(T::k(1.0) - b), 1e-6));
                    r
                });
            $m!(l; concat!("c02_hsl_standard_change", $sfx), "C02", Tier::Thorough,
                "HSL of sRGB converted to HSL of linear sRGB: lightness = (decode(L + C/2) + decode(L - C/2)) / 2 with C = (1 - |2L - 1|) S (bi-hexcone: max = L + C/2, min = L - C/2; IEC 61966-2-1 decoding is increasing) within 1e-6, for every hue of the stated range and S, L in [0,1]",
                ["<Hsl<S2,T> as FromColorUnclamped<Hsl<S1,T>>>", "<Rgb as FromColorUnclamped<Hsl>>", "<Hsl as FromColorUnclamped<Rgb>>"],
                [var("h", $hlo, $hhi), var("s", 0.0, 1.0), var("l", 0.0, 1.0)];
                |v| {
                    let mut r = Res::<B>::new();
                    let d: Hsl<Linear<Srgb>, T> = Hsl::from_color_unclamped(Hsl::<Srgb, T>::new(v[0], v[1], v[2]));
                    let c = (T::k(1.0) - (T::k(2.0) * v[2] - T::k(1.0)).abs_()) * v[1];
                    let (mx, mn) = (v[2] + c / T::k(2.0), v[2] - c / T::k(2.0));
                    r.goal("lightness", d.lightness.close((tf::srgb_decode(mx) + tf::srgb_decode(mn)) / T::k(2.0), 1e-6));
                    r
                });
        }};
    }
    standard_change!(obl, "_simd_path", 0.0, 360.0);
    standard_change!(obl, "_simd_path_sector_0", 0.0, 60.0);
    standard_change!(obl, "_simd_path_sector_1", 60.0, 120.0);
    standard_change!(obl, "_simd_path_sector_2", 120.0, 180.0);
    standard_change!(obl, "_simd_path_sector_3", 180.0, 240.0);
    standard_change!(obl, "_simd_path_sector_4", 240.0, 300.0);
    standard_change!(obl, "_simd_path_sector_5", 300.0, 360.0);
    standard_change!(oblf, "_scalar_path_sector_0", 5.0, 55.0);
    standard_change!(oblf, "_scalar_path_sector_3", 185.0, 235.0);
    // attempted with the thorough budget and not decided on this machine: Open (DESIGN.md 9.4)
    for o in l.iter_mut() {
        if ["c02_hsl_standard_change_simd_path", "c02_hwb_standard_change_simd_path_sector_0", "c02_hwb_standard_change_scalar_path_sector_0"].contains(&o.name.as_str()) {
            o.tier = Tier::Open;
        }
    }
    obl!(l; "c02_xyz_to_oklab", "C02", Tier::Open,
        "XYZ (D65) -> Oklab equals Ottosson's definition (M1, cube root, M2 with the published matrices) within 1e-3 for XYZ in [0, white] (palette re-derives M1 for its own D65, which differs from the published M1 by up to 1e-4 per entry)",
        ["<Oklab<T> as FromColorUnclamped<Xyz<D65,T>>>::from_color_unclamped", "oklab::m1", "oklab::m2"],
        [var("x", 0.0, 0.95047), var("y", 0.0, 1.0), var("z", 0.0, 1.08883)];
        |v| {
            let mut r = Res::<B>::new();
            let c: Oklab<T> = Oklab::from_color_unclamped(Xyz::<wp::D65, T>::new(v[0], v[1], v[2]));
            let e = okref::xyz_to_oklab([v[0], v[1], v[2]]);
            r.goal("l", c.l.close(e[0], 1e-3));
            r.goal("a", c.a.close(e[1], 1e-3));
            r.goal("b", c.b.close(e[2], 1e-3));
            r
        });
    // Oklab -> XYZ, the polynomial direction of the XYZ <-> Oklab edge, on 12 hue directions (configurations) with lightness and
    // chroma symbolic (a cubic in two variables; with a, b both symbolic z3 does not answer in 150 s)
    for k in 0..12 {
        let h = (k as f64) * 30.0 + 7.0;
        let (ch, sh) = (h.to_radians().cos(), h.to_radians().sin());
        obl!(l; format!("c02_oklab_to_xyz_h{}", h as i32), "C02", Tier::Quick,
            format!("Oklab -> XYZ (D65) equals Ottosson's definition (M2^-1, cube, M1^-1 with the inverses of the published matrices, computed independently) within 2e-3 (1 + |value|) for every lightness in [0,1] and chroma in [0, 0.35] at hue {} degrees (palette derives its own M1 from its D65 white point, which differs from the published one by up to 1e-4 per entry; a wrong factor in one of the cubes moves chromatic colours by far more)", h),
            ["<Xyz<D65,T> as FromColorUnclamped<Oklab<T>>>::from_color_unclamped", "oklab::m1_inv", "oklab::m2_inv"],
            [var("l", 0.0, 1.0), var("c", 0.0, 0.35)];
            |v| {
                let mut r = Res::<B>::new();
                let (a, b) = (v[1] * T::k(ch), v[1] * T::k(sh));
                let c: Xyz<wp::D65, T> = Xyz::from_color_unclamped(Oklab::<T>::new(v[0], a, b));
                let e = okref::oklab_to_xyz([v[0], a, b]);
                let near = |x: T, y: T| (x - y).abs_().le(T::k(2e-3) * (T::k(1.0) + y.abs_()));
                r.goal("x", near(c.x, e[0]));
                r.goal("y", near(c.y, e[1]));
                r.goal("z", near(c.z, e[2]));
                r
            });
    }
    // XYZ -> Oklab, the cube-root direction, on rays from black through 8 colours (configurations) with the scale symbolic
    for (k, dir) in [[0.4124, 0.2126, 0.0193], [0.3576, 0.7152, 0.1192], [0.1805, 0.0722, 0.9505], [0.7700, 0.9278, 0.1385],
                     [0.5929, 0.2848, 0.9698], [0.5381, 0.7874, 1.0697], [0.9505, 1.0, 1.089], [0.6, 0.5, 0.2]].iter().enumerate() {
        let dir = *dir;
        obl!(l; format!("c02_xyz_to_oklab_ray{}", k), "C02", Tier::Quick,
            format!("XYZ (D65) -> Oklab equals Ottosson's definition (M1, cube root, M2 with the published matrices) within 2e-3 for every colour t x ({}, {}, {}), t in [0.02, 1] (palette derives its own M1 from its D65 white point: up to 1e-4 per entry)", dir[0], dir[1], dir[2]),
            ["<Oklab<T> as FromColorUnclamped<Xyz<D65,T>>>::from_color_unclamped", "oklab::m1", "oklab::m2"],
            [var("t", 0.02, 1.0)];
            |v| {
                let mut r = Res::<B>::new();
                let xyz = [v[0] * T::k(dir[0]), v[0] * T::k(dir[1]), v[0] * T::k(dir[2])];
                let c: Oklab<T> = Oklab::from_color_unclamped(Xyz::<wp::D65, T>::new(xyz[0], xyz[1], xyz[2]));
                let e = okref::xyz_to_oklab(xyz);
                r.goal("l", c.l.close(e[0], 2e-3));
                r.goal("a", c.a.close(e[1], 2e-3));
                r.goal("b", c.b.close(e[2], 2e-3));
                r
            });
    }
    obl!(l; "c02_linsrgb_oklab", "C02", Tier::Quick,
        "linear sRGB <-> Oklab (direct matrices) equal Ottosson's reference code within 1e-6 for RGB in [0,1]^3 resp. Oklab L in [0,1], a, b in [-0.4,0.4]",
        ["<Oklab<T> as FromColorUnclamped<Rgb<S,T>>>::from_color_unclamped", "oklab::linear_srgb_to_oklab", "<Rgb<S,T> as FromColorUnclamped<Oklab<T>>>::from_color_unclamped", "oklab::oklab_to_linear_srgb"],
        [var("p", 0.0, 1.0), var("q", 0.0, 1.0), var("s", 0.0, 1.0)];
        |v| {
            let mut r = Res::<B>::new();
            let c: Oklab<T> = Oklab::from_color_unclamped(LinSrgb::<T>::new(v[0], v[1], v[2]));
            let e = okref::linear_srgb_to_oklab([v[0], v[1], v[2]]);
            r.goal("to_oklab", c.l.close(e[0], 1e-6) & c.a.close(e[1], 1e-6) & c.b.close(e[2], 1e-6));
            let lab = [v[0], v[1] * T::k(0.8) - T::k(0.4), v[2] * T::k(0.8) - T::k(0.4)];
            let rgb: LinSrgb<T> = LinSrgb::from_color_unclamped(Oklab::new(lab[0], lab[1], lab[2]));
            let e = okref::oklab_to_linear_srgb(lab);
            r.goal("from_oklab", rgb.red.close(e[0], 1e-5) & rgb.green.close(e[1], 1e-5) & rgb.blue.close(e[2], 1e-5));
            r
        });
    // which curve each RGB / luma STANDARD names (the per-curve obligations above check the curves themselves)
    macro_rules! standard_curve {
        ($key:literal, $S:ty, $enc:path, $dec:path, $cite:literal) => {{
            obl!(l; concat!("c05_standard_names_its_curve_", $key), "C05", Tier::Quick,
                concat!("the transfer function that ", stringify!($S), " names as an RGB standard and as a luma standard is the published curve of that standard (", $cite, "): encoding and decoding through <S as RgbStandard>::TransferFn and <S as LumaStandard>::TransferFn equal it within 1e-9 on [0,1]"),
                [concat!("<", stringify!($S), " as RgbStandard>::TransferFn"), concat!("<", stringify!($S), " as LumaStandard>::TransferFn")],
                [var("x", 0.0, 1.0)];
                |v| {
                    use palette::luma::LumaStandard;
                    use palette::rgb::RgbStandard;
                    let mut r = Res::<B>::new();
                    r.goal("rgb_encode", <<$S as RgbStandard>::TransferFn as FromLinear<T, T>>::from_linear(v[0]).close($enc(v[0]), 1e-9));
                    r.goal("rgb_decode", <<$S as RgbStandard>::TransferFn as IntoLinear<T, T>>::into_linear(v[0]).close($dec(v[0]), 1e-9));
                    r.goal("luma_encode", <<$S as LumaStandard>::TransferFn as FromLinear<T, T>>::from_linear(v[0]).close($enc(v[0]), 1e-9));
                    r.goal("luma_decode", <<$S as LumaStandard>::TransferFn as IntoLinear<T, T>>::into_linear(v[0]).close($dec(v[0]), 1e-9));
                    r
                });
        }};
    }
    standard_curve!("srgb", encoding::Srgb, tf::srgb_encode, tf::srgb_decode, "IEC 61966-2-1");
    standard_curve!("rec709", encoding::Rec709, tf::rec_encode, tf::rec_decode, "ITU-R BT.709");
    standard_curve!("rec2020", encoding::Rec2020, tf::rec_encode, tf::rec_decode, "ITU-R BT.2020");
    standard_curve!("adobe", encoding::AdobeRgb, tf::adobe_encode, tf::adobe_decode, "Adobe RGB (1998)");
    standard_curve!("dci_p3", encoding::DciP3, tf::p3_encode, tf::p3_decode, "SMPTE RP 431-2");
    standard_curve!("display_p3", encoding::DisplayP3, tf::srgb_encode, tf::srgb_decode, "Display P3: the sRGB curve");
    standard_curve!("prophoto", encoding::ProPhotoRgb, tf::prophoto_encode, tf::prophoto_decode, "ROMM RGB");
    transfer_edge!(l, "srgb", encoding::Srgb, tf::srgb_encode, tf::srgb_decode, "IEC 61966-2-1");
    transfer_edge!(l, "rec_oetf", encoding::RecOetf, tf::rec_encode, tf::rec_decode, "ITU-R BT.709 / BT.2020");
    transfer_edge!(l, "adobe", encoding::AdobeRgb, tf::adobe_encode, tf::adobe_decode, "Adobe RGB (1998), gamma 563/256");
    transfer_edge!(l, "p3_gamma", encoding::P3Gamma, tf::p3_encode, tf::p3_decode, "SMPTE RP 431-2, gamma 2.6");
    transfer_edge!(l, "prophoto", encoding::ProPhotoRgb, tf::prophoto_encode, tf::prophoto_decode, "ROMM RGB, 16x / gamma 1.8");
    obl!(l; "c02_transfer_linear", "C02", Tier::Quick,
        "the linear 'transfer function' is the identity in both directions (same terms)",
        ["<LinearFn as FromLinear<T,T>>::from_linear", "<LinearFn as IntoLinear<T,T>>::into_linear"], [var("x", 0.0, 1.0)];
        |v| {
            let mut r = Res::<B>::new();
            r.goal("identity", <encoding::linear::LinearFn as FromLinear<T, T>>::from_linear(v[0]).eqv(v[0])
                & <encoding::linear::LinearFn as IntoLinear<T, T>>::into_linear(v[0]).eqv(v[0]));
            r
        });
    obl!(l; "c02_rgb_to_xyz_applies_transfer_then_matrix", "C02", Tier::Quick,
        "sRGB (non-linear) -> XYZ equals the matrix applied to the decoded components, and XYZ -> sRGB the encoded matrix product (same terms as the two steps done explicitly)",
        ["<Xyz<Wp,T> as FromColorUnclamped<Rgb<S,T>>>::from_color_unclamped", "<Rgb<S,T> as FromColorUnclamped<Xyz<Wp,T>>>::from_color_unclamped", "Rgb::into_linear", "Rgb::from_linear"],
        [var("r", 0.0, 1.0), var("g", 0.0, 1.0), var("b", 0.0, 1.0)];
        |v| {
            let mut r = Res::<B>::new();
            let direct: Xyz<wp::D65, T> = Xyz::from_color_unclamped(Rgb::<Srgb, T>::new(v[0], v[1], v[2]));
            let lin = LinSrgb::<T>::new(<Srgb as IntoLinear<T, T>>::into_linear(v[0]), <Srgb as IntoLinear<T, T>>::into_linear(v[1]), <Srgb as IntoLinear<T, T>>::into_linear(v[2]));
            let steps: Xyz<wp::D65, T> = Xyz::from_color_unclamped(lin);
            r.goal("rgb_to_xyz", direct.x.eqv(steps.x) & direct.y.eqv(steps.y) & direct.z.eqv(steps.z));
            let xyz = Xyz::<wp::D65, T>::new(v[0], v[1], v[2]);
            let direct: Rgb<Srgb, T> = Rgb::from_color_unclamped(xyz);
            let lin: LinSrgb<T> = LinSrgb::from_color_unclamped(xyz);
            r.goal("xyz_to_rgb", direct.red.eqv(<Srgb as FromLinear<T, T>>::from_linear(lin.red)) & direct.green.eqv(<Srgb as FromLinear<T, T>>::from_linear(lin.green))
                & direct.blue.eqv(<Srgb as FromLinear<T, T>>::from_linear(lin.blue)));
            r
        });
}
