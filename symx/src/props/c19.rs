//! C19 (volume law, real arithmetic) - the cone / bicone samplers are the inverse CDF of the volume measure.
use crate::obl::*;
use crate::obl;
use crate::rng::RngFor;
use palette::convert::FromColorUnclamped;
use palette::encoding::Srgb;
use palette::{Hsl, Hsv, Hwb, IsWithinBounds, Okhsl, Okhsv, Okhwb};
use rand::Rng;

pub fn register(l: &mut Vec<Obl>) {
    // the three draws are consumed in the order the sampler makes them: hue, r1 (height), r2 (radius)
    macro_rules! cone {
        ($key:literal, $Ty:ty, $hue_scale:expr) => {
            obl!(l; concat!("c19_", $key, "_standard_is_cone_volume_law"), "C19", Tier::Quick,
                concat!("Standard sample of ", stringify!($Ty), " as a function of the three uniform draws (hue, r1, r2) in [0,1): value^3 = r1 and saturation^2 = r2 (1e-9) - the inverse CDF of the cone's volume measure (height ~ h^2 dh, radius ~ r dr) -, the hue is the first draw scaled to the circle, and the sample is within the type's bounds"),
                ["impl_rand_traits_hsv_cone! (Distribution<_> for Standard)", "random_sampling::cone::sample_hsv"],
                [var("u_hue", 0.0, 1.0), var("r1", 0.0, 1.0), var("r2", 0.0, 1.0)];
                |v| {
                    let mut r = Res::<B>::new();
                    let mut rng = <T as RngFor>::rng(&v[..]);
                    let c: $Ty = rng.gen();
                    r.goal("value_cubed_is_r1", (c.value * c.value * c.value).close(v[1], 1e-6));
                    r.goal("saturation_squared_is_r2", (c.saturation * c.saturation).close(v[2], 1e-6));
                    r.goal("within_bounds", c.saturation.within_tol(0.0, 1.0, 1e-9) & c.value.within_tol(0.0, 1.0, 1e-9));
                    r.goal("hue_is_first_draw", c.hue.into_inner().close(v[0] * T::k($hue_scale), 1e-4));
                    r
                });
        };
    }
    cone!("hsv", Hsv<Srgb, T>, 360.0);
    cone!("okhsv", Okhsv<T>, 360.0);
    macro_rules! bicone {
        ($key:literal, $Ty:ty) => {
            obl!(l; concat!("c19_", $key, "_standard_is_bicone_volume_law"), "C19", Tier::Quick,
                concat!("Standard sample of ", stringify!($Ty), ": the lightness l satisfies the bicone CDF 4 l^3 = r1 for r1 <= 1/2 and 4 (1-l)^3 = 1 - r1 above, saturation^2 = r2 (1e-6), sample within bounds"),
                ["impl_rand_traits_hsl_bicone! (Distribution<_> for Standard)", "random_sampling::cone::sample_hsl", "random_sampling::cone::sample_bicone_height"],
                [var("u_hue", 0.0, 1.0), var("r1", 0.0, 1.0), var("r2", 0.0, 1.0)];
                |v| {
                    let mut r = Res::<B>::new();
                    let mut rng = <T as RngFor>::rng(&v[..]);
                    let c: $Ty = rng.gen();
                    let li = c.lightness;
                    let lower = v[1].le(T::k(0.5));
                    let up = T::k(1.0) - li;
                    r.goal("lightness_cdf", (lower & (T::k(4.0) * li * li * li).close(v[1], 1e-6)) | (!lower & (T::k(4.0) * up * up * up).close(T::k(1.0) - v[1], 1e-6)));
                    r.goal("saturation_squared_is_r2", (c.saturation * c.saturation).close(v[2], 1e-6));
                    r.goal("within_bounds", c.saturation.within_tol(0.0, 1.0, 1e-9) & li.within_tol(0.0, 1.0, 1e-9));
                    r
                });
        };
    }
    bicone!("hsl", Hsl<Srgb, T>);
    bicone!("okhsl", Okhsl<T>);
    macro_rules! hwb {
        ($key:literal, $Ty:ty, $Hsv:ty) => {
            obl!(l; concat!("c19_", $key, "_standard_is_cone_volume_law"), "C19", Tier::Quick,
                concat!("Standard sample of ", stringify!($Ty), ": its equivalent HSV value v = 1 - blackness and saturation s = 1 - whiteness / v satisfy v^3 = r1, (s v)^2 = r2 v^2 (1e-6; written without division), and whiteness + blackness <= 1, both >= 0"),
                ["impl_rand_traits_hwb_cone! (Distribution<_> for Standard)", "random_sampling::cone::sample_hsv"],
                [var("u_hue", 0.0, 1.0), var("r1", 0.0, 1.0), var("r2", 0.0, 1.0)];
                |v| {
                    let mut r = Res::<B>::new();
                    let mut rng = <T as RngFor>::rng(&v[..]);
                    let c: $Ty = rng.gen();
                    let val = T::k(1.0) - c.blackness;
                    let sv = val - c.whiteness; // s * v
                    r.goal("value_cubed_is_r1", (val * val * val).close(v[1], 1e-6));
                    r.goal("saturation_squared_is_r2", (sv * sv).close(v[2] * val * val, 1e-6));
                    r.goal("within_bounds", T::k(-1e-9).le(c.whiteness) & T::k(-1e-9).le(c.blackness) & (c.whiteness + c.blackness).le(T::k(1.0 + 1e-9)));
                    r
                });
        };
    }
    hwb!("hwb", Hwb<Srgb, T>, Hsv<Srgb, T>);
    hwb!("okhwb", Okhwb<T>, Okhsv<T>);
}
