//! C19 (volume law, real arithmetic) - the cone / bicone samplers are the inverse CDF of the volume measure.
use crate::obl::*;
use crate::{obl, oblf};
use crate::rng::RngFor;
use palette::convert::FromColorUnclamped;
use palette::encoding::Srgb;
use palette::{Hsl, Hsv, Hwb, IsWithinBounds, Okhsl, Okhsv, Okhwb};
use rand::Rng;

pub fn register(l: &mut Vec<Obl>) {
    // the three draws are consumed in the order the sampler makes them: hue, r1 (height), r2 (radius)
    macro_rules! cone {
        ($key:literal, $Ty:ty, $hue_scale:expr) => {
            obl!(l; concat!("c19_", $key, "_standard_is_cone_volume_law"), "C19", Tier::Quick,
                concat!("Standard sample of ", stringify!($Ty), " as a function of the three uniform draws (hue, r1, r2) in [0,1): value^3 = r1 and saturation^2 = r2 (1e-9) - the inverse CDF of the cone's volume measure (height ~ h^2 dh, radius ~ r dr) -, the hue is the first draw scaled to the circle, and the sample is within the type's bounds"),
                ["impl_rand_traits_hsv_cone! (Distribution<_> for Standard)", "random_sampling::cone::sample_hsv"],
                [var("u_hue", 0.0, 1.0), var("r1", 0.0, 1.0), var("r2", 0.0, 1.0)];
                |v| {
                    let mut r = Res::<B>::new();
                    let mut rng = <T as RngFor>::rng(&v[..]);
                    let c: $Ty = rng.gen();
                    r.goal("value_cubed_is_r1", (c.value * c.value * c.value).close(v[1], 1e-6));
                    r.goal("saturation_squared_is_r2", (c.saturation * c.saturation).close(v[2], 1e-6));
                    r.goal("within_bounds", c.saturation.within_tol(0.0, 1.0, 1e-9) & c.value.within_tol(0.0, 1.0, 1e-9));
                    r.goal("hue_is_first_draw", c.hue.into_inner().close(v[0] * T::k($hue_scale), 1e-4));
                    r
                });
        };
    }
    cone!("hsv", Hsv<Srgb, T>, 360.0);
    cone!("okhsv", Okhsv<T>, 360.0);
    macro_rules! bicone {
        ($key:literal, $Ty:ty, $height:ident, $scale:expr) => {
            obl!(l; concat!("c19_", $key, "_standard_is_bicone_volume_law"), "C19", Tier::Quick,
                concat!("Standard sample of ", stringify!($Ty), ": the lightness l satisfies the bicone CDF 4 l^3 = r1 for r1 <= 1/2 and 4 (1-l)^3 = 1 - r1 above, saturation^2 = r2 (1e-6), sample within bounds"),
                ["impl_rand_traits_hsl_bicone! (Distribution<_> for Standard)", "random_sampling::cone::sample_hsl", "random_sampling::cone::sample_bicone_height"],
                [var("u_hue", 0.0, 1.0), var("r1", 0.0, 1.0), var("r2", 0.0, 1.0)];
                |v| {
                    let mut r = Res::<B>::new();
                    let mut rng = <T as RngFor>::rng(&v[..]);
                    let c: $Ty = rng.gen();
                    let li = c.$height / T::k($scale);
                    let sat = c.saturation / T::k($scale);
                    let lower = v[1].le(T::k(0.5));
                    let up = T::k(1.0) - li;
                    r.goal("lightness_cdf", (lower & (T::k(4.0) * li * li * li).close(v[1], 1e-6)) | (!lower & (T::k(4.0) * up * up * up).close(T::k(1.0) - v[1], 1e-6)));
                    r.goal("saturation_squared_is_r2", (sat * sat).close(v[2], 1e-6));
                    r.goal("within_bounds", sat.within_tol(0.0, 1.0, 1e-9) & li.within_tol(0.0, 1.0, 1e-9));
                    r
                });
        };
    }
    bicone!("hsl", Hsl<Srgb, T>, lightness, 1.0);
    bicone!("okhsl", Okhsl<T>, lightness, 1.0);
    bicone!("hsluv", palette::Hsluv<palette::white_point::D65, T>, l, 100.0);
    macro_rules! hwb {
        ($key:literal, $Ty:ty, $Hsv:ty) => {
            obl!(l; concat!("c19_", $key, "_standard_is_cone_volume_law"), "C19", Tier::Quick,
                concat!("Standard sample of ", stringify!($Ty), ": its equivalent HSV value v = 1 - blackness and saturation s = 1 - whiteness / v satisfy v^3 = r1, (s v)^2 = r2 v^2 (1e-6; written without division), and whiteness + blackness <= 1, both >= 0"),
                ["impl_rand_traits_hwb_cone! (Distribution<_> for Standard)", "random_sampling::cone::sample_hsv"],
                [var("u_hue", 0.0, 1.0), var("r1", 0.0, 1.0), var("r2", 0.0, 1.0)];
                |v| {
                    let mut r = Res::<B>::new();
                    let mut rng = <T as RngFor>::rng(&v[..]);
                    let c: $Ty = rng.gen();
                    let val = T::k(1.0) - c.blackness;
                    let sv = val - c.whiteness; // s * v
                    r.goal("value_cubed_is_r1", (val * val * val).close(v[1], 1e-6));
                    r.goal("saturation_squared_is_r2", (sv * sv).close(v[2] * val * val, 1e-6));
                    r.goal("within_bounds", T::k(-1e-9).le(c.whiteness) & T::k(-1e-9).le(c.blackness) & (c.whiteness + c.blackness).le(T::k(1.0 + 1e-9)));
                    r
                });
        };
    }
    hwb!("hwb", Hwb<Srgb, T>, Hsv<Srgb, T>);
    hwb!("okhwb", Okhwb<T>, Okhsv<T>);
    // uniform samplers of the bicone-shaped spaces: every component of the sample lies between the ends (scalar path: the hue
    // sampler compares with PartialOrd). Draw order of the sampler: hue, r1 (height), r2 (radius).
    macro_rules! uniform_bicone {
        ($key:literal, $Ty:ty, $Hue:ty, $height:ident, $scale:expr) => {
            uniform_bicone!(@one $key, "new", new, $Ty, $Hue, $height, $scale);
            uniform_bicone!(@one $key, "new_inclusive", new_inclusive, $Ty, $Hue, $height, $scale);
        };
        (@one $key:literal, $kname:literal, $kind:ident, $Ty:ty, $Hue:ty, $height:ident, $scale:expr) => {
            oblf!(l; concat!("c19_", $key, "_uniform_", $kname, "_between"), "C19", Tier::Quick,
                concat!("Uniform::", $kname, "(lo, hi).sample of ", stringify!($Ty), ": saturation and lightness of the sample lie between those of lo and hi (1e-6 of the component's scale) for all ends with lo + 1% <= hi in both components and every triple of uniform draws (rand's Uniform taken as its contract lo + (hi - lo) u, u in [0,1]); hue ends 10 and 200 degrees"),
                ["impl_rand_traits_hsl_bicone! (UniformSampler::new / new_inclusive / sample)", "random_sampling::cone::{invert_hsl_sample, sample_hsl, sample_bicone_height, invert_bicone_height_sample}"],
                [var("lo_s", 0.0, 1.0), var("hi_s", 0.0, 1.0), var("lo_l", 0.0, 1.0), var("hi_l", 0.0, 1.0), var("u_hue", 0.0, 1.0), var("u1", 0.0, 1.0), var("u2", 0.0, 1.0)];
                |v| {
                    use rand::distributions::uniform::UniformSampler;
                    let mut r = Res::<B>::new();
                    r.assume((v[0] + T::k(0.01)).le(v[1]) & (v[2] + T::k(0.01)).le(v[3]));
                    let k = T::k($scale);
                    let lo = <$Ty>::new(<$Hue>::new(T::k(10.0)), v[0] * k, v[2] * k);
                    let hi = <$Ty>::new(<$Hue>::new(T::k(200.0)), v[1] * k, v[3] * k);
                    let mut rng = <T as RngFor>::rng(&v[4..7]);
                    let u = <<$Ty as rand::distributions::uniform::SampleUniform>::Sampler as UniformSampler>::$kind(lo, hi);
                    let c = u.sample(&mut rng);
                    r.goal("saturation_between", (v[0] * k - T::k(1e-6 * $scale)).le(c.saturation) & c.saturation.le(v[1] * k + T::k(1e-6 * $scale)));
                    r.goal("lightness_between", (v[2] * k - T::k(1e-6 * $scale)).le(c.$height) & c.$height.le(v[3] * k + T::k(1e-6 * $scale)));
                    r
                });
        };
    }
    uniform_bicone!("hsl", Hsl<Srgb, T>, palette::RgbHue<T>, lightness, 1.0);
    uniform_bicone!("okhsl", Okhsl<T>, palette::OklabHue<T>, lightness, 1.0);
    uniform_bicone!("hsluv", palette::Hsluv<palette::white_point::D65, T>, palette::LuvHue<T>, l, 100.0);
    // uniform samplers of the cone-shaped spaces and of their HWB forms (equivalent HSV saturation and value between the ends)
    macro_rules! uniform_cone {
        ($key:literal, $Ty:ty, $Hue:ty) => {
            uniform_cone!(@one $key, "new", new, $Ty, $Hue);
            uniform_cone!(@one $key, "new_inclusive", new_inclusive, $Ty, $Hue);
        };
        (@one $key:literal, $kname:literal, $kind:ident, $Ty:ty, $Hue:ty) => {
            oblf!(l; concat!("c19_", $key, "_uniform_", $kname, "_between_real"), "C19", Tier::Quick,
                concat!("Uniform::", $kname, "(lo, hi).sample of ", stringify!($Ty), " in real arithmetic (cube / cube root and square / square root exact): saturation and value of the sample lie between those of lo and hi (1e-6) for all ends with lo + 1% <= hi in both components and every triple of uniform draws (rand's Uniform taken as its contract); hue ends 10 and 200 degrees"),
                ["impl_rand_traits_hsv_cone! (UniformSampler::new / new_inclusive / sample)", "random_sampling::cone::{invert_hsv_sample, sample_hsv}"],
                [var("lo_s", 0.0, 1.0), var("hi_s", 0.0, 1.0), var("lo_v", 0.0, 1.0), var("hi_v", 0.0, 1.0), var("u_hue", 0.0, 1.0), var("u1", 0.0, 1.0), var("u2", 0.0, 1.0)];
                |v| {
                    use rand::distributions::uniform::UniformSampler;
                    let mut r = Res::<B>::new();
                    r.assume((v[0] + T::k(0.01)).le(v[1]) & (v[2] + T::k(0.01)).le(v[3]));
                    let lo = <$Ty>::new(<$Hue>::new(T::k(10.0)), v[0], v[2]);
                    let hi = <$Ty>::new(<$Hue>::new(T::k(200.0)), v[1], v[3]);
                    let mut rng = <T as RngFor>::rng(&v[4..7]);
                    let u = <<$Ty as rand::distributions::uniform::SampleUniform>::Sampler as UniformSampler>::$kind(lo, hi);
                    let c = u.sample(&mut rng);
                    r.goal("saturation_between", (v[0] - T::k(1e-6)).le(c.saturation) & c.saturation.le(v[1] + T::k(1e-6)));
                    r.goal("value_between", (v[2] - T::k(1e-6)).le(c.value) & c.value.le(v[3] + T::k(1e-6)));
                    r
                });
        };
    }
    uniform_cone!("hsv", Hsv<Srgb, T>, palette::RgbHue<T>);
    uniform_cone!("okhsv", Okhsv<T>, palette::OklabHue<T>);
    macro_rules! uniform_hwb {
        ($key:literal, $Ty:ty, $Hue:ty) => {
            uniform_hwb!(@one $key, "new", new, $Ty, $Hue);
            uniform_hwb!(@one $key, "new_inclusive", new_inclusive, $Ty, $Hue);
        };
        (@one $key:literal, $kname:literal, $kind:ident, $Ty:ty, $Hue:ty) => {
            oblf!(l; concat!("c19_", $key, "_uniform_", $kname, "_between_real"), "C19", Tier::Quick,
                concat!("Uniform::", $kname, "(lo, hi).sample of ", stringify!($Ty), " in real arithmetic: the equivalent HSV value v = 1 - blackness and saturation s (s v = v - whiteness) of the sample lie between those of the two ends (1e-6), the ends being given by their HSV saturation in [0,1] and value in [0.05,1] (whiteness = (1 - s) v, blackness = 1 - v), lo + 1% <= hi in both; every triple of uniform draws; hue ends 10 and 200 degrees"),
                ["impl_rand_traits_hwb_cone! (UniformSampler::new / new_inclusive / sample)", "<Hsv as FromColorUnclamped<Hwb>>", "<Hwb as FromColorUnclamped<Hsv>>", "random_sampling::cone::{invert_hsv_sample, sample_hsv}"],
                [var("lo_s", 0.0, 1.0), var("hi_s", 0.0, 1.0), var("lo_v", 0.05, 1.0), var("hi_v", 0.05, 1.0), var("u_hue", 0.0, 1.0), var("u1", 0.0, 1.0), var("u2", 0.0, 1.0)];
                |v| {
                    use rand::distributions::uniform::UniformSampler;
                    let mut r = Res::<B>::new();
                    r.assume((v[0] + T::k(0.01)).le(v[1]) & (v[2] + T::k(0.01)).le(v[3]));
                    let one = T::k(1.0);
                    let lo = <$Ty>::new(<$Hue>::new(T::k(10.0)), (one - v[0]) * v[2], one - v[2]);
                    let hi = <$Ty>::new(<$Hue>::new(T::k(200.0)), (one - v[1]) * v[3], one - v[3]);
                    let mut rng = <T as RngFor>::rng(&v[4..7]);
                    let u = <<$Ty as rand::distributions::uniform::SampleUniform>::Sampler as UniformSampler>::$kind(lo, hi);
                    let c = u.sample(&mut rng);
                    let val = one - c.blackness;
                    let sv = val - c.whiteness;
                    r.goal("value_between", (v[2] - T::k(1e-6)).le(val) & val.le(v[3] + T::k(1e-6)));
                    r.goal("saturation_between", (v[0] * val - T::k(1e-6)).le(sv) & sv.le(v[1] * val + T::k(1e-6)));
                    r
                });
        };
    }
    uniform_hwb!("hwb", Hwb<Srgb, T>, palette::RgbHue<T>);
    uniform_hwb!("okhwb", Okhwb<T>, palette::OklabHue<T>);
}
