//! C14 - white stays white, neutrals stay neutral, matrices are inverses / match primaries, chromatic adaptation.
use crate::obl::*;
use crate::{obl, oblf};
use crate::reference::rgbspace;
use palette::convert::FromColorUnclamped;
use palette::encoding::{AdobeRgb, DciP3, DisplayP3, Linear, ProPhotoRgb, Rec2020, Rec709, Srgb};
use palette::rgb::{Rgb, RgbSpace, RgbStandard};
use palette::white_point::{self as wp, WhitePoint};
use palette::{Lab, Luv, Xyz};

macro_rules! per_standard {
    ($l:expr, $key:literal, $S:ty, $refname:literal) => {{
        type Sp = <$S as RgbStandard>::Space;
        type W = <Sp as RgbSpace>::WhitePoint;
        let fns_fwd = concat!("<Xyz<Wp,T> as FromColorUnclamped<Rgb<Linear<", stringify!($S), ">,T>>>::from_color_unclamped");
        let fns_bwd = concat!("<Rgb<Linear<", stringify!($S), ">,T> as FromColorUnclamped<Xyz<Wp,T>>>::from_color_unclamped");
        obl!($l; concat!("c14_", $key, "_white_to_whitepoint"), "C14", Tier::Quick,
            concat!(stringify!($S), ": linear RGB (1,1,1) converts to the XYZ of the standard's white point (1e-6), which has Y = 1"),
            [fns_fwd, "WhitePoint::get_xyz"], [];
            |v| {
                let mut r = Res::<B>::new();
                let white = Rgb::<Linear<Sp>, T>::new(T::k(1.0), T::k(1.0), T::k(1.0));
                let xyz: Xyz<W, T> = Xyz::from_color_unclamped(white);
                let w: Xyz<wp::Any, T> = <W as WhitePoint<T>>::get_xyz();
                r.goal("x", xyz.x.close(w.x, 1e-6));
                r.goal("y", xyz.y.close(w.y, 1e-6) & w.y.close(T::k(1.0), 1e-12));
                r.goal("z", xyz.z.close(w.z, 1e-6));
                r
            });
        obl!($l; concat!("c14_", $key, "_matrix_roundtrip"), "C14", Tier::Quick,
            concat!(stringify!($S), ": for every linear RGB in [0,1]^3, RGB -> XYZ -> RGB returns the colour within 1e-6 (the two matrices are mutual inverses)"),
            [fns_fwd, fns_bwd], [var("r", 0.0, 1.0), var("g", 0.0, 1.0), var("b", 0.0, 1.0)];
            |v| {
                let mut r = Res::<B>::new();
                let c = Rgb::<Linear<Sp>, T>::new(v[0], v[1], v[2]);
                let xyz: Xyz<W, T> = Xyz::from_color_unclamped(c);
                let back = Rgb::<Linear<Sp>, T>::from_color_unclamped(xyz);
                r.goal("red", back.red.close(v[0], 1e-6));
                r.goal("green", back.green.close(v[1], 1e-6));
                r.goal("blue", back.blue.close(v[2], 1e-6));
                r
            });
        obl!($l; concat!("c14_", $key, "_matrix_vs_primaries"), "C14", Tier::Quick,
            concat!(stringify!($S), ": the RGB->XYZ matrix the conversion uses agrees entry-wise (5e-6) with the matrix palette derives from the primaries and white point, and with an independent derivation from the published chromaticities; XYZ->RGB likewise with the inverse"),
            [fns_fwd, fns_bwd, "palette::matrix::rgb_to_xyz_matrix", "RgbSpace::rgb_to_xyz_matrix"], [];
            |v| {
                let mut r = Res::<B>::new();
                // the matrix the conversion really applies, read off by converting the unit vectors
                let mut used = [0.0f64; 9];
                let mut used_inv = [0.0f64; 9];
                for (j, e) in [[1.0, 0.0, 0.0], [0.0, 1.0, 0.0], [0.0, 0.0, 1.0]].iter().enumerate() {
                    let x: Xyz<W, f64> = Xyz::from_color_unclamped(Rgb::<Linear<Sp>, f64>::new(e[0], e[1], e[2]));
                    used[j] = x.x; used[3 + j] = x.y; used[6 + j] = x.z;
                    let c = Rgb::<Linear<Sp>, f64>::from_color_unclamped(Xyz::<W, f64>::new(e[0], e[1], e[2]));
                    used_inv[j] = c.red; used_inv[3 + j] = c.green; used_inv[6 + j] = c.blue;
                }
                let derived = palette::matrix::rgb_to_xyz_matrix::<Sp, f64>();
                let std = rgbspace::standards().into_iter().find(|s| s.name == $refname).unwrap();
                let wxyz: Xyz<wp::Any, f64> = <W as WhitePoint<f64>>::get_xyz();
                let reference = rgbspace::rgb_to_xyz(&std, [wxyz.x, wxyz.y, wxyz.z]);
                let reference_inv = rgbspace::inv3(reference);
                let mut ok_d = true; let mut ok_r = true; let mut ok_i = true;
                for i in 0..9 {
                    ok_d &= (used[i] - derived[i]).abs() <= 5e-6;
                    ok_r &= (used[i] - reference[i]).abs() <= 5e-6;
                    ok_i &= (used_inv[i] - reference_inv[i]).abs() <= 2e-5;
                }
                // the white point itself agrees with the published chromaticity
                let wref = rgbspace::white_xyz(std.w);
                let ok_w = (wxyz.x - wref[0]).abs() <= 5e-4 && (wxyz.z - wref[2]).abs() <= 5e-4 && wxyz.y == 1.0;
                r.goal("used_vs_palette_derived", B::k(ok_d));
                r.goal("used_vs_published_primaries", B::k(ok_r));
                r.goal("inverse_vs_published_primaries", B::k(ok_i));
                r.goal("white_point_vs_published_chromaticity", B::k(ok_w));
                r
            });
        oblf!($l; concat!("c14_", $key, "_grey_is_neutral"), "C14", Tier::Quick,
            concat!(stringify!($S), ": every linear grey (g,g,g), g in [0,1], has a*, b*, u*, v* and chroma numerically zero (5e-4 resp. 1e-3), L*(1) = 100, and converts back to equal RGB components"),
            [fns_fwd, fns_bwd, "<Lab<Wp,T> as FromColorUnclamped<Xyz<Wp,T>>>", "<Luv<Wp,T> as FromColorUnclamped<Xyz<Wp,T>>>", "<Xyz<Wp,T> as FromColorUnclamped<Lab<Wp,T>>>"],
            [var("g", 0.0, 1.0)];
            |v| {
                let mut r = Res::<B>::new();
                let g = v[0];
                let xyz: Xyz<W, T> = Xyz::from_color_unclamped(Rgb::<Linear<Sp>, T>::new(g, g, g));
                let lab: Lab<W, T> = Lab::from_color_unclamped(xyz);
                let luv: Luv<W, T> = Luv::from_color_unclamped(xyz);
                r.goal("lab_a", lab.a.close(T::k(0.0), 5e-4));
                r.goal("lab_b", lab.b.close(T::k(0.0), 5e-4));
                r.goal("luv_u", luv.u.close(T::k(0.0), 1e-3));
                r.goal("luv_v", luv.v.close(T::k(0.0), 1e-3));
                r.goal("lab_l_range", lab.l.within_tol(0.0, 100.0, 1e-3));
                let back: Xyz<W, T> = Xyz::from_color_unclamped(lab);
                let rgb = Rgb::<Linear<Sp>, T>::from_color_unclamped(back);
                r.goal("back_equal_components", rgb.red.close(rgb.green, 1e-5) & rgb.green.close(rgb.blue, 1e-5) & rgb.red.close(g, 1e-5));
                r
            });
        oblf!($l; concat!("c14_", $key, "_white_lightness"), "C14", Tier::Quick,
            concat!(stringify!($S), ": white has L* = 100 (Lab and Luv, 1e-3) and zero a*, b*, u*, v*"),
            [fns_fwd, "<Lab<Wp,T> as FromColorUnclamped<Xyz<Wp,T>>>", "<Luv<Wp,T> as FromColorUnclamped<Xyz<Wp,T>>>"], [];
            |v| {
                let mut r = Res::<B>::new();
                let xyz: Xyz<W, T> = Xyz::from_color_unclamped(Rgb::<Linear<Sp>, T>::new(T::k(1.0), T::k(1.0), T::k(1.0)));
                let lab: Lab<W, T> = Lab::from_color_unclamped(xyz);
                let luv: Luv<W, T> = Luv::from_color_unclamped(xyz);
                r.goal("lab_l", lab.l.close(T::k(100.0), 1e-3));
                r.goal("luv_l", luv.l.close(T::k(100.0), 1e-3));
                r.goal("lab_ab", lab.a.close(T::k(0.0), 5e-4) & lab.b.close(T::k(0.0), 5e-4));
                r.goal("luv_uv", luv.u.close(T::k(0.0), 1e-3) & luv.v.close(T::k(0.0), 1e-3));
                r
            });
    }};
}

pub fn register(l: &mut Vec<Obl>) {
    per_standard!(l, "srgb", Srgb, "srgb");
    per_standard!(l, "adobe", AdobeRgb, "adobe");
    per_standard!(l, "rec709", Rec709, "srgb");
    per_standard!(l, "rec2020", Rec2020, "rec2020");
    per_standard!(l, "displayp3", DisplayP3, "displayp3");
    per_standard!(l, "dcip3", DciP3, "dcip3");
    per_standard!(l, "prophoto", ProPhotoRgb, "prophoto");
}
