//! C14 - white stays white, neutrals stay neutral, matrices are inverses / match primaries, chromatic adaptation.
use crate::obl::*;
use crate::{obl, oblf};
use crate::reference::rgbspace;
use palette::convert::FromColorUnclamped;
use palette::encoding::{AdobeRgb, DciP3, DisplayP3, Linear, ProPhotoRgb, Rec2020, Rec709, Srgb};
use palette::rgb::{Rgb, RgbSpace, RgbStandard};
use palette::white_point::{self as wp, WhitePoint};
use palette::{Lab, Luv, Oklab, Xyz};
use palette::chromatic_adaptation::AdaptFromUnclamped;
use palette::lms::matrix::{Bradford, UnitMatrix, VonKries};

macro_rules! per_standard {
    ($l:expr, $key:literal, $S:ty, $refname:literal) => {{
        type Sp = <$S as RgbStandard>::Space;
        type W = <Sp as RgbSpace>::WhitePoint;
        let fns_fwd = concat!("<Xyz<Wp,T> as FromColorUnclamped<Rgb<Linear<", stringify!($S), ">,T>>>::from_color_unclamped");
        let fns_bwd = concat!("<Rgb<Linear<", stringify!($S), ">,T> as FromColorUnclamped<Xyz<Wp,T>>>::from_color_unclamped");
        obl!($l; concat!("c14_", $key, "_white_to_whitepoint"), "C14", Tier::Quick,
            concat!(stringify!($S), ": linear RGB (1,1,1) converts to the XYZ of the standard's white point (1e-6), which has Y = 1"),
            [fns_fwd, "WhitePoint::get_xyz"], [];
            |v| {
                let mut r = Res::<B>::new();
                let white = Rgb::<Linear<Sp>, T>::new(T::k(1.0), T::k(1.0), T::k(1.0));
                let xyz: Xyz<W, T> = Xyz::from_color_unclamped(white);
                let w: Xyz<wp::Any, T> = <W as WhitePoint<T>>::get_xyz();
                r.goal("x", xyz.x.close(w.x, 1e-6));
                r.goal("y", xyz.y.close(w.y, 1e-6) & w.y.close(T::k(1.0), 1e-12));
                r.goal("z", xyz.z.close(w.z, 1e-6));
                r
            });
        obl!($l; concat!("c14_", $key, "_matrix_roundtrip"), "C14", Tier::Quick,
            concat!(stringify!($S), ": for every linear RGB in [0,1]^3, RGB -> XYZ -> RGB returns the colour within 1e-6 (the two matrices are mutual inverses)"),
            [fns_fwd, fns_bwd], [var("r", 0.0, 1.0), var("g", 0.0, 1.0), var("b", 0.0, 1.0)];
            |v| {
                let mut r = Res::<B>::new();
                let c = Rgb::<Linear<Sp>, T>::new(v[0], v[1], v[2]);
                let xyz: Xyz<W, T> = Xyz::from_color_unclamped(c);
                let back = Rgb::<Linear<Sp>, T>::from_color_unclamped(xyz);
                r.goal("red", back.red.close(v[0], 1e-6));
                r.goal("green", back.green.close(v[1], 1e-6));
                r.goal("blue", back.blue.close(v[2], 1e-6));
                r
            });
        obl!($l; concat!("c14_", $key, "_matrix_vs_primaries"), "C14", Tier::Quick,
            concat!(stringify!($S), ": the RGB->XYZ matrix the conversion uses agrees entry-wise (5e-6) with the matrix palette derives from the primaries and white point, and with an independent derivation from the published chromaticities; XYZ->RGB likewise with the inverse"),
            [fns_fwd, fns_bwd, "palette::matrix::rgb_to_xyz_matrix", "RgbSpace::rgb_to_xyz_matrix"], [];
            |v| {
                let mut r = Res::<B>::new();
                // the matrix the conversion really applies, read off by converting the unit vectors
                let mut used = [0.0f64; 9];
                let mut used_inv = [0.0f64; 9];
                for (j, e) in [[1.0, 0.0, 0.0], [0.0, 1.0, 0.0], [0.0, 0.0, 1.0]].iter().enumerate() {
                    let x: Xyz<W, f64> = Xyz::from_color_unclamped(Rgb::<Linear<Sp>, f64>::new(e[0], e[1], e[2]));
                    used[j] = x.x; used[3 + j] = x.y; used[6 + j] = x.z;
                    let c = Rgb::<Linear<Sp>, f64>::from_color_unclamped(Xyz::<W, f64>::new(e[0], e[1], e[2]));
                    used_inv[j] = c.red; used_inv[3 + j] = c.green; used_inv[6 + j] = c.blue;
                }
                let derived = palette::matrix::rgb_to_xyz_matrix::<Sp, f64>();
                let std = rgbspace::standards().into_iter().find(|s| s.name == $refname).unwrap();
                let wxyz: Xyz<wp::Any, f64> = <W as WhitePoint<f64>>::get_xyz();
                let reference = rgbspace::rgb_to_xyz(&std, [wxyz.x, wxyz.y, wxyz.z]);
                let reference_inv = rgbspace::inv3(reference);
                let mut ok_d = true; let mut ok_r = true; let mut ok_i = true;
                for i in 0..9 {
                    ok_d &= (used[i] - derived[i]).abs() <= 5e-6;
                    ok_r &= (used[i] - reference[i]).abs() <= 5e-6;
                    ok_i &= (used_inv[i] - reference_inv[i]).abs() <= 2e-5;
                }
                // the white point itself agrees with the published chromaticity
                let wref = rgbspace::white_xyz(std.w);
                let ok_w = (wxyz.x - wref[0]).abs() <= 5e-4 && (wxyz.z - wref[2]).abs() <= 5e-4 && wxyz.y == 1.0;
                r.goal("used_vs_palette_derived", B::k(ok_d));
                r.goal("used_vs_published_primaries", B::k(ok_r));
                r.goal("inverse_vs_published_primaries", B::k(ok_i));
                r.goal("white_point_vs_published_chromaticity", B::k(ok_w));
                r
            });
        oblf!($l; concat!("c14_", $key, "_grey_is_neutral"), "C14", Tier::Quick,
            concat!(stringify!($S), ": every linear grey (g,g,g), g in [0,1], has a*, b*, u*, v* and chroma numerically zero (5e-4 resp. 1e-3), L*(1) = 100, and converts back to equal RGB components"),
            [fns_fwd, fns_bwd, "<Lab<Wp,T> as FromColorUnclamped<Xyz<Wp,T>>>", "<Luv<Wp,T> as FromColorUnclamped<Xyz<Wp,T>>>", "<Xyz<Wp,T> as FromColorUnclamped<Lab<Wp,T>>>"],
            [var("g", 0.0, 1.0)];
            |v| {
                let mut r = Res::<B>::new();
                let g = v[0];
                let xyz: Xyz<W, T> = Xyz::from_color_unclamped(Rgb::<Linear<Sp>, T>::new(g, g, g));
                let lab: Lab<W, T> = Lab::from_color_unclamped(xyz);
                let luv: Luv<W, T> = Luv::from_color_unclamped(xyz);
                r.goal("lab_a", lab.a.close(T::k(0.0), 5e-4));
                r.goal("lab_b", lab.b.close(T::k(0.0), 5e-4));
                r.goal("luv_u", luv.u.close(T::k(0.0), 1e-3));
                r.goal("luv_v", luv.v.close(T::k(0.0), 1e-3));
                r.goal("lab_l_range", lab.l.within_tol(0.0, 100.0, 1e-3));
                let back: Xyz<W, T> = Xyz::from_color_unclamped(lab);
                let rgb = Rgb::<Linear<Sp>, T>::from_color_unclamped(back);
                r.goal("back_equal_components", rgb.red.close(rgb.green, 1e-5) & rgb.green.close(rgb.blue, 1e-5) & rgb.red.close(g, 1e-5));
                r
            });
        oblf!($l; concat!("c14_", $key, "_white_lightness"), "C14", Tier::Quick,
            concat!(stringify!($S), ": white has L* = 100 (Lab and Luv, 1e-3) and zero a*, b*, u*, v*"),
            [fns_fwd, "<Lab<Wp,T> as FromColorUnclamped<Xyz<Wp,T>>>", "<Luv<Wp,T> as FromColorUnclamped<Xyz<Wp,T>>>"], [];
            |v| {
                let mut r = Res::<B>::new();
                let xyz: Xyz<W, T> = Xyz::from_color_unclamped(Rgb::<Linear<Sp>, T>::new(T::k(1.0), T::k(1.0), T::k(1.0)));
                let lab: Lab<W, T> = Lab::from_color_unclamped(xyz);
                let luv: Luv<W, T> = Luv::from_color_unclamped(xyz);
                r.goal("lab_l", lab.l.close(T::k(100.0), 1e-3));
                r.goal("luv_l", luv.l.close(T::k(100.0), 1e-3));
                r.goal("lab_ab", lab.a.close(T::k(0.0), 5e-4) & lab.b.close(T::k(0.0), 5e-4));
                r.goal("luv_uv", luv.u.close(T::k(0.0), 1e-3) & luv.v.close(T::k(0.0), 1e-3));
                r
            });
    }};
}

macro_rules! oklab_std {
    ($l:expr, $key:literal, $S:ty) => {{
        type Sp = <$S as RgbStandard>::Space;
        obl!($l; concat!("c14_", $key, "_oklab_neutral"), "C14", Tier::Quick,
            concat!(stringify!($S), " (D65): white converts to Oklab (1, 0, 0) and every linear grey to a = b = 0 (1e-3), through the direct RGB->Oklab conversion and through XYZ"),
            ["<Oklab<T> as FromColorUnclamped<Rgb<S,T>>>::from_color_unclamped", "<Oklab<T> as FromColorUnclamped<Xyz<D65,T>>>::from_color_unclamped", "palette::oklab::linear_srgb_to_oklab"],
            [var("g", 0.0, 1.0)];
            |v| {
                let mut r = Res::<B>::new();
                let g = v[0];
                let grey = Rgb::<Linear<Sp>, T>::new(g, g, g);
                let direct: Oklab<T> = Oklab::from_color_unclamped(grey);
                let xyz: Xyz<wp::D65, T> = Xyz::from_color_unclamped(grey);
                let via: Oklab<T> = Oklab::from_color_unclamped(xyz);
                r.goal("direct_ab", direct.a.close(T::k(0.0), 1e-3) & direct.b.close(T::k(0.0), 1e-3));
                r.goal("via_xyz_ab", via.a.close(T::k(0.0), 1e-3) & via.b.close(T::k(0.0), 1e-3));
                // an achromatic Oklab colour converts back to equal RGB components, for every L in [0,1]
                let back: Rgb<Linear<Sp>, T> = Rgb::from_color_unclamped(Oklab::<T>::new(g, T::k(0.0), T::k(0.0)));
                // direct sRGB matrices: 1e-6; the other standards go through XYZ with palette's re-derived M1 (3.4e-4 at white): 1e-3
                let tol = if $key == "srgb" { 1e-6 } else { 1e-3 };
                r.goal("oklab_grey_back_to_equal_rgb", back.red.close(back.green, tol) & back.green.close(back.blue, tol) & back.red.close(g * g * g, tol));
                let w = Rgb::<Linear<Sp>, T>::new(T::k(1.0), T::k(1.0), T::k(1.0));
                let ow: Oklab<T> = Oklab::from_color_unclamped(w);
                r.goal("white", ow.l.close(T::k(1.0), 1e-3) & ow.a.close(T::k(0.0), 1e-3) & ow.b.close(T::k(0.0), 1e-3));
                r
            });
    }};
}

macro_rules! adapt {
    ($l:expr, $tier:expr, $mk:literal, $M:ty, $k1:literal, $W1:ty, $k2:literal, $W2:ty) => {{
        obl!($l; concat!("c14_adapt_", $mk, "_", $k1, "_to_", $k2), "C14", $tier,
            concat!("chromatic adaptation ", stringify!($M), " ", $k1, " -> ", $k2, ": the source white point maps onto the destination white point (1e-6: the published 7-digit cone matrices and their published inverses leave ~5e-8) and adapting there and back returns every XYZ in [0,1.2]^3 (1e-6)"),
            ["<Xyz<Wp2,T> as AdaptFromUnclamped<Xyz<Wp1,T>>>::adapt_from_unclamped_with", "chromatic_adaptation::adaptation_matrix", "chromatic_adaptation::diagonal_matrix", "Matrix3::then", "lms::matrix"],
            [var("x", 0.0, 1.2), var("y", 0.0, 1.2), var("z", 0.0, 1.2)];
            |v| {
                let mut r = Res::<B>::new();
                let w1: Xyz<$W1, T> = <$W1 as WhitePoint<T>>::get_xyz().with_white_point();
                let w2: Xyz<wp::Any, T> = <$W2 as WhitePoint<T>>::get_xyz();
                let aw: Xyz<$W2, T> = <Xyz<$W2, T> as AdaptFromUnclamped<Xyz<$W1, T>>>::adapt_from_unclamped_with::<$M>(w1);
                r.goal("white_to_white", aw.x.close(w2.x, 1e-6) & aw.y.close(w2.y, 1e-6) & aw.z.close(w2.z, 1e-6));
                r.show("white_err_x", aw.x - w2.x); r.show("white_err_y", aw.y - w2.y); r.show("white_err_z", aw.z - w2.z);
                let c: Xyz<$W1, T> = Xyz::new(v[0], v[1], v[2]);
                let there: Xyz<$W2, T> = <Xyz<$W2, T> as AdaptFromUnclamped<Xyz<$W1, T>>>::adapt_from_unclamped_with::<$M>(c);
                let back: Xyz<$W1, T> = <Xyz<$W1, T> as AdaptFromUnclamped<Xyz<$W2, T>>>::adapt_from_unclamped_with::<$M>(there);
                r.goal("there_and_back", back.x.close(v[0], 1e-6) & back.y.close(v[1], 1e-6) & back.z.close(v[2], 1e-6));
                r
            });
    }};
}

macro_rules! adapt_same {
    ($l:expr, $mk:literal, $M:ty, $k1:literal, $W1:ty) => {{
        obl!($l; concat!("c14_adapt_", $mk, "_", $k1, "_identity"), "C14", Tier::Quick,
            concat!("chromatic adaptation ", stringify!($M), " between equal white points (", $k1, ") is the identity (syntactically the same terms)"),
            ["<Xyz<Wp,T> as AdaptFromUnclamped<Xyz<Wp,T>>>::adapt_from_unclamped_with"],
            [var("x", 0.0, 1.2), var("y", 0.0, 1.2), var("z", 0.0, 1.2)];
            |v| {
                let mut r = Res::<B>::new();
                let c: Xyz<$W1, T> = Xyz::new(v[0], v[1], v[2]);
                let same: Xyz<$W1, T> = <Xyz<$W1, T> as AdaptFromUnclamped<Xyz<$W1, T>>>::adapt_from_unclamped_with::<$M>(c);
                r.goal("identity", same.x.eqv(v[0]) & same.y.eqv(v[1]) & same.z.eqv(v[2]));
                r
            });
    }};
}

macro_rules! adapt_methods {
    ($l:expr, $tier:expr, $k1:literal, $W1:ty, $k2:literal, $W2:ty) => {{
        adapt!($l, $tier, "bradford", Bradford, $k1, $W1, $k2, $W2);
        adapt!($l, $tier, "vonkries", VonKries, $k1, $W1, $k2, $W2);
        adapt!($l, $tier, "xyzscaling", UnitMatrix, $k1, $W1, $k2, $W2);
    }};
}

#[allow(deprecated)]
fn legacy(l: &mut Vec<Obl>) {
    use palette::chromatic_adaptation::{AdaptFrom, Method};
    obl!(l; "c14_adapt_legacy_api_d65_d50", "C14", Tier::Quick,
        "deprecated AdaptFrom::adapt_from_using (Bradford / VonKries / XyzScaling), D65 -> D50: agrees with the current AdaptFromUnclamped API (1e-9) and maps white to white",
        ["AdaptFrom::adapt_from_using", "TransformMatrix::generate_transform_matrix"],
        [var("x", 0.0, 1.2), var("y", 0.0, 1.2), var("z", 0.0, 1.2)];
        |v| {
            let mut r = Res::<B>::new();
            let c: Xyz<wp::D65, T> = Xyz::new(v[0], v[1], v[2]);
            let a: Xyz<wp::D50, T> = Xyz::adapt_from_using(c, Method::Bradford);
            let b: Xyz<wp::D50, T> = <Xyz<wp::D50, T> as AdaptFromUnclamped<Xyz<wp::D65, T>>>::adapt_from_unclamped_with::<Bradford>(c);
            r.goal("bradford", a.x.close(b.x, 1e-9) & a.y.close(b.y, 1e-9) & a.z.close(b.z, 1e-9));
            let a: Xyz<wp::D50, T> = Xyz::adapt_from_using(c, Method::VonKries);
            let b: Xyz<wp::D50, T> = <Xyz<wp::D50, T> as AdaptFromUnclamped<Xyz<wp::D65, T>>>::adapt_from_unclamped_with::<VonKries>(c);
            r.goal("vonkries", a.x.close(b.x, 1e-9) & a.y.close(b.y, 1e-9) & a.z.close(b.z, 1e-9));
            let a: Xyz<wp::D50, T> = Xyz::adapt_from_using(c, Method::XyzScaling);
            let b: Xyz<wp::D50, T> = <Xyz<wp::D50, T> as AdaptFromUnclamped<Xyz<wp::D65, T>>>::adapt_from_unclamped_with::<UnitMatrix>(c);
            r.goal("xyzscaling", a.x.close(b.x, 1e-9) & a.y.close(b.y, 1e-9) & a.z.close(b.z, 1e-9));
            r
        });
}

/// CIE 15:2004 chromaticity coordinates (2 degree observer) of the standard illuminants
const CIE_XY: [(&str, f64, f64); 11] = [
    ("A", 0.44757, 0.40745), ("B", 0.34842, 0.35161), ("C", 0.31006, 0.31616), ("D50", 0.34567, 0.35850), ("D55", 0.33242, 0.34743),
    ("D65", 0.31271, 0.32902), ("D75", 0.29902, 0.31485), ("E", 1.0 / 3.0, 1.0 / 3.0), ("F2", 0.37208, 0.37529), ("F7", 0.31292, 0.32933), ("F11", 0.38052, 0.37713),
];

fn white_points(l: &mut Vec<Obl>) {
    obl!(l; "c14_white_point_constants_vs_cie", "C14", Tier::Quick,
        "every white point constant (A, B, C, D50, D55, D65, D75, E, F2, F7, F11) has Y = 1 and X, Z within 2e-3 of the XYZ derived from its CIE 15 chromaticity coordinates",
        ["white_point::{A,B,C,D50,D55,D65,D75,E,F2,F7,F11}::get_xyz"], [];
        |v| {
            let mut r = Res::<B>::new();
            macro_rules! wpc { ($W:ty, $i:expr) => {{
                let w = <$W as WhitePoint<f64>>::get_xyz();
                let (n, x, y) = CIE_XY[$i];
                let ok = w.y == 1.0 && (w.x - x / y).abs() <= 2e-3 && (w.z - (1.0 - x - y) / y).abs() <= 2e-3;
                r.goal(n, B::k(ok));
            }}; }
            wpc!(wp::A, 0); wpc!(wp::B, 1); wpc!(wp::C, 2); wpc!(wp::D50, 3); wpc!(wp::D55, 4); wpc!(wp::D65, 5);
            wpc!(wp::D75, 6); wpc!(wp::E, 7); wpc!(wp::F2, 8); wpc!(wp::F7, 9); wpc!(wp::F11, 10);
            r
        });
}

fn luma_greys(l: &mut Vec<Obl>) {
    use palette::luma::Luma;
    use palette::{Lch, Yxy};
    macro_rules! luma_grey {
        ($key:literal, $S:ty, $W:ty) => {{
            let w = <$W as WhitePoint<f64>>::get_xyz();
            let (cx, cy) = (w.x / (w.x + w.y + w.z), w.y / (w.x + w.y + w.z));
            oblf!(l; concat!("c14_luma_grey_", $key), "C14", Tier::Quick,
                concat!("a grey Luma<", stringify!($S), "> of any level converts to xyY with the chromaticity of its white point ", stringify!($W), " (1e-9), to L*a*b* with a = b = 0 and to L*u*v* with u = v = 0 (1e-6)"),
                ["<Yxy<Wp,T> as FromColorUnclamped<Luma<S,T>>>", "Yxy::default", "<Lab as FromColorUnclamped<Luma>>", "<Luv as FromColorUnclamped<Luma>>"],
                [var("v", 0.01, 1.0)];
                |v| {
                    let mut r = Res::<B>::new();
                    let g = Luma::<$S, T>::new(v[0]);
                    let yxy: Yxy<$W, T> = Yxy::from_color_unclamped(g);
                    r.goal("chromaticity_is_white", yxy.x.close(T::k(cx), 1e-9) & yxy.y.close(T::k(cy), 1e-9));
                    let lab: Lab<$W, T> = Lab::from_color_unclamped(g);
                    r.goal("lab_neutral", lab.a.close(T::k(0.0), 1e-6) & lab.b.close(T::k(0.0), 1e-6));
                    let luv: Luv<$W, T> = Luv::from_color_unclamped(g);
                    r.goal("luv_neutral", luv.u.close(T::k(0.0), 1e-6) & luv.v.close(T::k(0.0), 1e-6));
                    r
                });
        }};
    }
    luma_grey!("srgb_d65", Srgb, wp::D65);
    luma_grey!("prophoto_d50", ProPhotoRgb, wp::D50);
    luma_grey!("linear_a", Linear<wp::A>, wp::A);
    luma_grey!("linear_e", Linear<wp::E>, wp::E);
    luma_grey!("linear_d75", Linear<wp::D75>, wp::D75);
}

fn cam16_whites(l: &mut Vec<Obl>) {
    use palette::cam16::{Cam16, Parameters};
    obl!(l; "c14_cam16_adopted_white_any_scale", "C14", Tier::Quick,
        "CAM16 with a dynamic adopted white: the adopted white itself has lightness J = 100 (1e-6) whatever its luminance scale - D65 and D50 chromaticity scaled by 0.5, 0.8, 0.9, 1.0, 1.1 (L_A = 40, Y_b = 20, average surround)",
        ["Parameters::default_dynamic_wp", "cam16::math::prepare_parameters", "Cam16::from_xyz"],
        [];
        |v| {
            let mut r = Res::<B>::new();
            for (name, w) in [("d65", <wp::D65 as WhitePoint<f64>>::get_xyz()), ("d50", <wp::D50 as WhitePoint<f64>>::get_xyz())] {
                for k in [0.5f64, 0.8, 0.9, 1.0, 1.1] {
                    let sc = |x: f64| <<T as palette::num::FromScalar>::Scalar as palette::num::Real>::from_f64(x);
                    let white = Xyz::<wp::Any, <T as palette::num::FromScalar>::Scalar>::new(sc(w.x * k), sc(w.y * k), sc(w.z * k));
                    let p = Parameters::default_dynamic_wp(white, sc(40.0)).bake();
                    let c = Cam16::<T>::from_xyz(Xyz::<wp::Any, T>::new(T::k(w.x * k), T::k(w.y * k), T::k(w.z * k)), p);
                    r.goal(&format!("{}_scale_{}", name, k), c.lightness.close(T::k(100.0), 1e-6));
                }
            }
            r
        });
}

pub fn register(l: &mut Vec<Obl>) {
    luma_greys(l);
    cam16_whites(l);
    white_points(l);
    oklab_std!(l, "srgb", Srgb);
    oklab_std!(l, "adobe", AdobeRgb);
    oklab_std!(l, "rec2020", Rec2020);
    oklab_std!(l, "displayp3", DisplayP3);
    legacy(l);
    // white points given at run time (adaptation_matrix(Some(in), Some(out))), with luminance factors other than 1: a measured
    // "white" of any scale stands for its chromaticity (both are normalised to Y = 1)
    macro_rules! adapt_dynamic {
        ($mk:literal, $M:ty) => {{
            obl!(l; concat!("c14_adapt_", $mk, "_dynamic_white_points_any_scale"), "C14", Tier::Quick,
                concat!("adaptation_matrix::<_, _, _, ", stringify!($M), ">(Some(w_in), Some(w_out)) with w_in = 0.8 x (the XYZ of illuminant A) and w_out = 1.7 x (the XYZ of D50): maps the normalised input white onto the normalised output white (1e-6), is the identity when both are the same scaled white (1e-6), and the matrix of the opposite direction takes every colour back (1e-6) - every XYZ colour in [0,1.2]^3"),
                ["chromatic_adaptation::adaptation_matrix (Some, Some)", "Xyz::normalize", "chromatic_adaptation::diagonal_matrix", "Matrix3::then", "Matrix3::convert"],
                [var("x", 0.0, 1.2), var("y", 0.0, 1.2), var("z", 0.0, 1.2)];
                |v| {
                    use palette::chromatic_adaptation::adaptation_matrix;
                    use palette::convert::Convert;
                    let mut r = Res::<B>::new();
                    let a: Xyz<wp::Any, T> = <wp::A as WhitePoint<T>>::get_xyz();
                    let d: Xyz<wp::Any, T> = <wp::D50 as WhitePoint<T>>::get_xyz();
                    let w_in: Xyz<wp::D65, T> = Xyz::new(a.x * T::k(0.8), a.y * T::k(0.8), a.z * T::k(0.8));
                    let w_out: Xyz<wp::D65, T> = Xyz::new(d.x * T::k(1.7), d.y * T::k(1.7), d.z * T::k(1.7));
                    let there = adaptation_matrix::<T, wp::D65, wp::D65, $M>(Some(w_in), Some(w_out));
                    let back = adaptation_matrix::<T, wp::D65, wp::D65, $M>(Some(w_out), Some(w_in));
                    let same = adaptation_matrix::<T, wp::D65, wp::D65, $M>(Some(w_out), Some(w_out));
                    let got: Xyz<wp::D65, T> = there.convert(Xyz::new(a.x, a.y, a.z));
                    r.goal("white_to_white", got.x.close(d.x, 1e-6) & got.y.close(d.y, 1e-6) & got.z.close(d.z, 1e-6));
                    let c: Xyz<wp::D65, T> = Xyz::new(v[0], v[1], v[2]);
                    let s: Xyz<wp::D65, T> = same.convert(c);
                    r.goal("identity_between_equal_whites", s.x.close(v[0], 1e-6) & s.y.close(v[1], 1e-6) & s.z.close(v[2], 1e-6));
                    let rt: Xyz<wp::D65, T> = back.convert(there.convert(c));
                    r.goal("there_and_back", rt.x.close(v[0], 1e-6) & rt.y.close(v[1], 1e-6) & rt.z.close(v[2], 1e-6));
                    r
                });
        }};
    }
    adapt_dynamic!("bradford", Bradford);
    adapt_dynamic!("vonkries", VonKries);
    adapt_dynamic!("xyzscaling", UnitMatrix);
    adapt_methods!(l, Tier::Quick, "d65", wp::D65, "d50", wp::D50);
    adapt_methods!(l, Tier::Quick, "d50", wp::D50, "d65", wp::D65);
    adapt_methods!(l, Tier::Quick, "a", wp::A, "d65", wp::D65);
    adapt_methods!(l, Tier::Quick, "d65", wp::D65, "e", wp::E);
    adapt_methods!(l, Tier::Quick, "c", wp::C, "a", wp::A);
    adapt_methods!(l, Tier::Quick, "f2", wp::F2, "d50", wp::D50);
    adapt_methods!(l, Tier::Thorough, "b", wp::B, "d65", wp::D65);
    adapt_methods!(l, Tier::Thorough, "d55", wp::D55, "d65", wp::D65);
    adapt_methods!(l, Tier::Thorough, "d75", wp::D75, "d50", wp::D50);
    adapt_methods!(l, Tier::Thorough, "f7", wp::F7, "a", wp::A);
    adapt_methods!(l, Tier::Thorough, "f11", wp::F11, "e", wp::E);
    adapt_methods!(l, Tier::Thorough, "e", wp::E, "c", wp::C);
    adapt_methods!(l, Tier::Thorough, "d65", wp::D65, "f2", wp::F2);
    adapt_methods!(l, Tier::Thorough, "d50", wp::D50, "d75", wp::D75);
    adapt_same!(l, "bradford", Bradford, "d65", wp::D65);
    adapt_same!(l, "vonkries", VonKries, "d50", wp::D50);
    adapt_same!(l, "xyzscaling", UnitMatrix, "a", wp::A);
    per_standard!(l, "srgb", Srgb, "srgb");
    per_standard!(l, "adobe", AdobeRgb, "adobe");
    per_standard!(l, "rec709", Rec709, "srgb");
    per_standard!(l, "rec2020", Rec2020, "rec2020");
    per_standard!(l, "displayp3", DisplayP3, "displayp3");
    per_standard!(l, "dcip3", DciP3, "dcip3");
    per_standard!(l, "prophoto", ProPhotoRgb, "prophoto");
}
