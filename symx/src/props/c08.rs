//! C08 - blend modes and Porter-Duff operators against the W3C formulas; premultiplication round trip.
use crate::obl::*;
use crate::obl;
use crate::reference::w3c_blend as w3c;
use palette::blend::{Blend, Compose, PreAlpha, Premultiply};
use palette::{Alpha, LinSrgb};

const TOL: f64 = 1e-9;

macro_rules! call_blend {
    ($mode:expr, $s:expr, $d:expr) => {
        match $mode {
            "multiply" => $s.multiply($d),
            "screen" => $s.screen($d),
            "overlay" => $s.overlay($d),
            "darken" => $s.darken($d),
            "lighten" => $s.lighten($d),
            "dodge" => $s.dodge($d),
            "burn" => $s.burn($d),
            "hard_light" => $s.hard_light($d),
            "soft_light" => $s.soft_light($d),
            "difference" => $s.difference($d),
            "exclusion" => $s.exclusion($d),
            _ => unreachable!(),
        }
    };
}
macro_rules! call_compose {
    ($op:expr, $s:expr, $d:expr) => {
        match $op {
            "over" => $s.over($d),
            "inside" => $s.inside($d),
            "outside" => $s.outside($d),
            "atop" => $s.atop($d),
            "xor" => $s.xor($d),
            "plus" => $s.plus($d),
            _ => unreachable!(),
        }
    };
}

fn colour_vars() -> Vec<Var> {
    vec![var("src_r", 0.0, 1.0), var("src_g", 0.0, 1.0), var("src_b", 0.0, 1.0), var("src_alpha", 0.0, 1.0),
         var("dst_r", 0.0, 1.0), var("dst_g", 0.0, 1.0), var("dst_b", 0.0, 1.0), var("dst_alpha", 0.0, 1.0)]
}

pub fn register(l: &mut Vec<Obl>) {
    for mode in w3c::MODES {
        let heavy = mode == "soft_light";
        obl!(l; format!("c08_blend_{}_prealpha", mode), "C08", Tier::Quick,
            format!("blend mode {} on premultiplied colours (PreAlpha<LinSrgb>): every result component equals the W3C formula \
                     co = cs(1-ab) + cb(1-as) + as*ab*B(Cb,Cs) within 1e-9, the result alpha equals as + ab - as*ab, and all of them lie in [0,1] \
                     with co <= ao; source = self, backdrop = other", mode),
            ["<PreAlpha<C> as Blend>", "blend::blend::blend_separable", format!("blend::blend::{}_blend", mode), "BlendInput::from(PreAlpha)", "Premultiply::unpremultiply", "blend::blend_alpha"],
            [var("src_r", 0.0, 1.0), var("src_g", 0.0, 1.0), var("src_b", 0.0, 1.0), var("src_alpha", 0.0, 1.0),
             var("dst_r", 0.0, 1.0), var("dst_g", 0.0, 1.0), var("dst_b", 0.0, 1.0), var("dst_alpha", 0.0, 1.0)];
            |v| {
                let mut r = Res::<B>::new();
                let (sa, da) = (v[3], v[7]);
                // valid premultiplied inputs: straight colour in [0,1] times alpha
                let src = PreAlpha::<LinSrgb<T>> { color: LinSrgb::new(v[0] * sa, v[1] * sa, v[2] * sa), alpha: sa };
                let dst = PreAlpha::<LinSrgb<T>> { color: LinSrgb::new(v[4] * da, v[5] * da, v[6] * da), alpha: da };
                let out = call_blend!(mode, src, dst);
                let got = [out.color.red, out.color.green, out.color.blue];
                for (i, name) in ["red", "green", "blue"].iter().enumerate() {
                    let (co, ao) = w3c::blend_premultiplied(mode, v[4 + i], da, v[i], sa);
                    r.goal(&format!("{}_equals_w3c", name), got[i].close(co, TOL));
                    r.show(&format!("{}_got", name), got[i]); r.show(&format!("{}_w3c", name), co);
                    if !heavy {
                        r.goal(&format!("{}_in_range", name), got[i].within_tol(0.0, 1.0, TOL) & got[i].le(out.alpha + T::k(TOL)));
                    }
                    if i == 0 {
                        r.goal("alpha", out.alpha.close(ao, TOL) & out.alpha.within_tol(0.0, 1.0, TOL));
                    }
                }
                r
            });
        if heavy {
            obl!(l; format!("c08_blend_{}_prealpha_range", mode), "C08", Tier::Open,
                format!("blend mode {} on premultiplied colours: the result component lies in [0,1] and does not exceed the result alpha (one lane; all lanes run the same code)", mode),
                ["<PreAlpha<C> as Blend>", "blend::blend::blend_separable", format!("blend::blend::{}_blend", mode)],
                [var("src_r", 0.0, 1.0), var("src_alpha", 0.0, 1.0), var("dst_r", 0.0, 1.0), var("dst_alpha", 0.0, 1.0)];
                |v| {
                    let mut r = Res::<B>::new();
                    let (sa, da) = (v[1], v[3]);
                    let src = PreAlpha::<LinSrgb<T>> { color: LinSrgb::new(v[0] * sa, v[0] * sa, v[0] * sa), alpha: sa };
                    let dst = PreAlpha::<LinSrgb<T>> { color: LinSrgb::new(v[2] * da, v[2] * da, v[2] * da), alpha: da };
                    let out = call_blend!(mode, src, dst);
                    r.goal("lower", T::k(-TOL).le(out.color.red));
                    r.goal("upper", out.color.red.le(T::k(1.0 + TOL)));
                    r.goal("below_alpha", out.color.red.le(out.alpha + T::k(TOL)));
                    r
                });
        }
        obl!(l; format!("c08_blend_{}_alpha", mode), "C08", if heavy { Tier::Open } else { Tier::Quick },
            format!("blend mode {} on straight colours with alpha (Alpha<LinSrgb>): result colour x result alpha equals the W3C premultiplied \
                     formula within 1e-9, alpha as above, and the straight result components lie in [0,1]", mode),
            ["<Alpha<C,T> as Blend>", "blend::blend::blend_separable", format!("blend::blend::{}_blend", mode), "BlendInput::from(Alpha)", "PreAlpha::unpremultiply"],
            [var("src_r", 0.0, 1.0), var("src_alpha", 0.0, 1.0), var("dst_r", 0.0, 1.0), var("dst_alpha", 0.0, 1.0)];
            |v| {
                let mut r = Res::<B>::new();
                let (sa, da) = (v[1], v[3]);
                let src = Alpha { color: LinSrgb::<T>::new(v[0], v[0], v[0]), alpha: sa };
                let dst = Alpha { color: LinSrgb::<T>::new(v[2], v[2], v[2]), alpha: da };
                let out = call_blend!(mode, src, dst);
                let (co, ao) = w3c::blend_premultiplied(mode, v[2], da, v[0], sa);
                r.goal("red_times_alpha_equals_w3c", (out.color.red * out.alpha).close(co, TOL));
                r.goal("lanes_agree", out.color.red.eqv(out.color.green) & out.color.green.eqv(out.color.blue));
                r.goal("alpha", out.alpha.close(ao, TOL));
                r.goal("straight_in_range", out.color.red.within_tol(0.0, 1.0, 1e-6));
                r
            });
        obl!(l; format!("c08_blend_{}_opaque", mode), "C08", Tier::Quick,
            format!("blend mode {} on opaque colours (LinSrgb): reduces to the plain per-component blend function B(Cb, Cs) within 1e-9, result in [0,1]", mode),
            ["<C as Blend>", "BlendInput::new_opaque", format!("blend::blend::{}_blend", mode)],
            [var("src_r", 0.0, 1.0), var("src_g", 0.0, 1.0), var("src_b", 0.0, 1.0), var("dst_r", 0.0, 1.0), var("dst_g", 0.0, 1.0), var("dst_b", 0.0, 1.0)];
            |v| {
                let mut r = Res::<B>::new();
                let src = LinSrgb::<T>::new(v[0], v[1], v[2]);
                let dst = LinSrgb::<T>::new(v[3], v[4], v[5]);
                let out = call_blend!(mode, src, dst);
                let got = [out.red, out.green, out.blue];
                for (i, name) in ["red", "green", "blue"].iter().enumerate() {
                    r.goal(&format!("{}_equals_b", name), got[i].close(w3c::b(mode, v[3 + i], v[i]), TOL) & got[i].within_tol(0.0, 1.0, TOL));
                }
                r
            });
    }
    for mode in w3c::COMMUTATIVE {
        obl!(l; format!("c08_blend_{}_commutative", mode), "C08", Tier::Quick,
            format!("blend mode {} is symmetric in source and backdrop (premultiplied form, within 1e-9)", mode),
            ["<PreAlpha<C> as Blend>"],
            [var("a_r", 0.0, 1.0), var("a_alpha", 0.0, 1.0), var("b_r", 0.0, 1.0), var("b_alpha", 0.0, 1.0)];
            |v| {
                let mut r = Res::<B>::new();
                let a = PreAlpha::<LinSrgb<T>> { color: LinSrgb::new(v[0] * v[1], v[0] * v[1], v[0] * v[1]), alpha: v[1] };
                let b = PreAlpha::<LinSrgb<T>> { color: LinSrgb::new(v[2] * v[3], v[2] * v[3], v[2] * v[3]), alpha: v[3] };
                let ab = call_blend!(mode, a.clone(), b.clone());
                let ba = call_blend!(mode, b, a);
                r.goal("colour", ab.color.red.close(ba.color.red, TOL));
                r.goal("alpha", ab.alpha.close(ba.alpha, TOL));
                r
            });
    }
    for op in w3c::OPERATORS {
        obl!(l; format!("c08_compose_{}_prealpha", op), "C08", Tier::Quick,
            format!("Porter-Duff {} on premultiplied colours: co = Fa*cs + Fb*cb and ao = Fa*as + Fb*ab as in the W3C table (1e-9); \
                     the result alpha lies in [0,1] and every colour component in [0, ao]", op),
            ["<PreAlpha<C> as Compose>", "blend::blend_alpha", "blend::zip_colors"],
            [var("src_r", 0.0, 1.0), var("src_g", 0.0, 1.0), var("src_b", 0.0, 1.0), var("src_alpha", 0.0, 1.0),
             var("dst_r", 0.0, 1.0), var("dst_g", 0.0, 1.0), var("dst_b", 0.0, 1.0), var("dst_alpha", 0.0, 1.0)];
            |v| {
                let mut r = Res::<B>::new();
                let (sa, da) = (v[3], v[7]);
                let src = PreAlpha::<LinSrgb<T>> { color: LinSrgb::new(v[0] * sa, v[1] * sa, v[2] * sa), alpha: sa };
                let dst = PreAlpha::<LinSrgb<T>> { color: LinSrgb::new(v[4] * da, v[5] * da, v[6] * da), alpha: da };
                let out = call_compose!(op, src, dst);
                let got = [out.color.red, out.color.green, out.color.blue];
                for (i, name) in ["red", "green", "blue"].iter().enumerate() {
                    let (co, ao) = w3c::compose_premultiplied(op, v[i] * sa, sa, v[4 + i] * da, da);
                    r.goal(&format!("{}_equals_w3c", name), got[i].close(co, TOL));
                    if op != "plus" {
                        r.goal(&format!("{}_in_range", name), got[i].within_tol(0.0, 1.0, TOL) & got[i].le(out.alpha + T::k(TOL)));
                    }
                    if i == 0 {
                        r.goal("alpha", out.alpha.close(ao, TOL) & out.alpha.within_tol(0.0, 1.0, TOL));
                    }
                }
                r
            });
        obl!(l; format!("c08_compose_{}_alpha_and_opaque", op), "C08", Tier::Quick,
            format!("Porter-Duff {} on straight colours with alpha and on opaque colours: result colour x alpha equals the premultiplied \
                     W3C value (1e-9); opaque inputs give the opaque special case", op),
            ["<Alpha<C,T> as Compose>", "<C as Compose>", "PreAlpha::new_opaque", "PreAlpha::unpremultiply"],
            [var("src_r", 0.0, 1.0), var("src_alpha", 0.0, 1.0), var("dst_r", 0.0, 1.0), var("dst_alpha", 0.0, 1.0)];
            |v| {
                let mut r = Res::<B>::new();
                let (sa, da) = (v[1], v[3]);
                let src = Alpha { color: LinSrgb::<T>::new(v[0], v[0], v[0]), alpha: sa };
                let dst = Alpha { color: LinSrgb::<T>::new(v[2], v[2], v[2]), alpha: da };
                let out = call_compose!(op, src, dst);
                let (co, ao) = w3c::compose_premultiplied(op, v[0] * sa, sa, v[2] * da, da);
                r.goal("red_times_alpha_equals_w3c", (out.color.red * out.alpha).close(co.min_(T::k(1e9)), TOL) | B::k(op == "plus"));
                r.goal("alpha", out.alpha.close(ao, TOL));
                let o = call_compose!(op, LinSrgb::<T>::new(v[0], v[0], v[0]), LinSrgb::<T>::new(v[2], v[2], v[2]));
                let (co1, ao1) = w3c::compose_premultiplied(op, v[0], T::k(1.0), v[2], T::k(1.0));
                // opaque inputs: result alpha ao1 is 0 or 1; the colour is co1/ao1 (0 when ao1 = 0)
                if op != "plus" {
                    r.goal("opaque", (o.red * ao1).close(co1, TOL));
                }
                r
            });
    }
    obl!(l; "c08_plus_colour_in_range", "C08", Tier::Quick,
        "Porter-Duff plus on valid premultiplied colours: every result colour component lies in [0,1] up to rounding (the property requires all result components in [0,1])",
        ["<PreAlpha<C> as Compose>::plus"],
        [var("src_r", 0.0, 1.0), var("src_alpha", 0.0, 1.0), var("dst_r", 0.0, 1.0), var("dst_alpha", 0.0, 1.0)];
        |v| {
            let mut r = Res::<B>::new();
            let src = PreAlpha::<LinSrgb<T>> { color: LinSrgb::new(v[0] * v[1], v[0] * v[1], v[0] * v[1]), alpha: v[1] };
            let dst = PreAlpha::<LinSrgb<T>> { color: LinSrgb::new(v[2] * v[3], v[2] * v[3], v[2] * v[3]), alpha: v[3] };
            let out = src.plus(dst);
            r.goal("red_in_unit_range", out.color.red.within_tol(0.0, 1.0, TOL));
            r.show("red", out.color.red);
            r.show("alpha", out.alpha);
            r
        });
    obl!(l; "c08_over_identities", "C08", Tier::Quick,
        "in premultiplied terms: a fully transparent source over a backdrop returns the backdrop, an opaque source over anything returns the source; \
         xor and plus are symmetric",
        ["<PreAlpha<C> as Compose>::over", "<PreAlpha<C> as Compose>::xor", "<PreAlpha<C> as Compose>::plus"],
        [var("a_r", 0.0, 1.0), var("a_alpha", 0.0, 1.0), var("b_r", 0.0, 1.0), var("b_alpha", 0.0, 1.0)];
        |v| {
            let mut r = Res::<B>::new();
            let pa = |c: T, a: T| PreAlpha::<LinSrgb<T>> { color: LinSrgb::new(c * a, c * a, c * a), alpha: a };
            let transparent = PreAlpha::<LinSrgb<T>> { color: LinSrgb::new(T::k(0.0), T::k(0.0), T::k(0.0)), alpha: T::k(0.0) };
            let back = pa(v[2], v[3]);
            let o = transparent.over(back.clone());
            r.goal("transparent_source", o.color.red.close(back.color.red, TOL) & o.alpha.close(back.alpha, TOL));
            let opaque = pa(v[0], T::k(1.0));
            let o = opaque.clone().over(back.clone());
            r.goal("opaque_source", o.color.red.close(opaque.color.red, TOL) & o.alpha.close(T::k(1.0), TOL));
            let (x1, x2) = (pa(v[0], v[1]).xor(pa(v[2], v[3])), pa(v[2], v[3]).xor(pa(v[0], v[1])));
            r.goal("xor_symmetric", x1.color.red.close(x2.color.red, TOL) & x1.alpha.close(x2.alpha, TOL));
            let (p1, p2) = (pa(v[0], v[1]).plus(pa(v[2], v[3])), pa(v[2], v[3]).plus(pa(v[0], v[1])));
            r.goal("plus_symmetric", p1.color.red.close(p2.color.red, TOL) & p1.alpha.close(p2.alpha, TOL));
            r
        });
    obl!(l; "c08_premultiply_roundtrip", "C08", Tier::Quick,
        "premultiplying then unpremultiplying returns the original colour whenever alpha is non-zero (alpha >= f32::MIN_POSITIVE, 1e-9) and a zero colour when alpha is zero (LinSrgb, Xyz, LinLuma)",
        ["Premultiply::premultiply", "Premultiply::unpremultiply", "PreAlpha::unpremultiply", "macros::blend::impl_premultiply"],
        [var("r", 0.0, 1.0), var("g", 0.0, 1.0), var("b", 0.0, 1.0), var("alpha", 0.0, 1.0)];
        |v| {
            let mut r = Res::<B>::new();
            let a = v[3];
            let nz = T::k(f32::MIN_POSITIVE as f64).le(a);
            let back = LinSrgb::<T>::new(v[0], v[1], v[2]).premultiply(a).unpremultiply();
            r.goal("rgb_nonzero_alpha", nz.implies(back.color.red.close(v[0], TOL) & back.color.green.close(v[1], TOL) & back.color.blue.close(v[2], TOL) & back.alpha.eqv(a)));
            let z = LinSrgb::<T>::new(v[0], v[1], v[2]).premultiply(T::k(0.0)).unpremultiply();
            r.goal("rgb_zero_alpha", z.color.red.eqv(T::k(0.0)) & z.color.green.eqv(T::k(0.0)) & z.color.blue.eqv(T::k(0.0)));
            let x = palette::Xyz::<palette::white_point::D65, T>::new(v[0], v[1], v[2]).premultiply(a).unpremultiply();
            r.goal("xyz_nonzero_alpha", nz.implies(x.color.x.close(v[0], TOL) & x.color.y.close(v[1], TOL) & x.color.z.close(v[2], TOL)));
            let y = palette::LinLuma::<palette::white_point::D65, T>::new(v[0]).premultiply(a).unpremultiply();
            r.goal("luma_nonzero_alpha", nz.implies(y.color.luma.close(v[0], TOL)));
            let yz = palette::LinLuma::<palette::white_point::D65, T>::new(v[0]).premultiply(T::k(0.0)).unpremultiply();
            r.goal("luma_zero_alpha", yz.color.luma.eqv(T::k(0.0)));
            r
        });
}
