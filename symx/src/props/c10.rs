//! C10 (algebra part, real arithmetic) - mix, lighten/darken, saturate/desaturate, hue shift, colour-scheme helpers.
//! Also the real-arithmetic Hwb clamp obligations of C03 and the cartesian hue round trip of C11.
use crate::obl::*;
use crate::props::c02::hue_close;
use crate::obl;
use palette::color_theory::{Analogous, Complementary, SplitComplementary, Tetradic, Triadic};
use palette::encoding::Srgb;
use palette::white_point as wp;
use palette::{Clamp, ClampAssign, Darken, Desaturate, Hsl, Hsv, Hwb, IsWithinBounds, Lab, Lch, Lighten, LinSrgb, Mix, MixAssign, Okhwb, Oklch, Saturate, ShiftHue, WithHue};

pub fn register(l: &mut Vec<Obl>) {
    obl!(l; "c10_mix_rgb_lab", "C10", Tier::Quick,
        "mix (LinSrgb, Lab): factor 0 returns the first colour, factor 1 the second, factors outside [0,1] act as the nearest end, and every component stays between the two inputs (1e-9); factor in [-1,2]",
        ["impl_mix! (Rgb, Lab)", "Mix::mix", "MixAssign::mix_assign"],
        [var("a", 0.0, 1.0), var("b", 0.0, 1.0), var("f", -1.0, 2.0), var("la", -128.0, 127.0), var("lb", -128.0, 127.0)];
        |v| {
            let mut r = Res::<B>::new();
            let (a, b, f) = (v[0], v[1], v[2]);
            let m = LinSrgb::<T>::new(a, a, a).mix(LinSrgb::new(b, b, b), f).red;
            let fc = f.max_(T::k(0.0)).min_(T::k(1.0));
            r.goal("rgb_linear_in_clamped_factor", m.close(a + (b - a) * fc, 1e-9));
            r.goal("rgb_between", a.min_(b).le(m + T::k(1e-9)) & m.le(a.max_(b) + T::k(1e-9)));
            r.goal("rgb_ends", f.le(T::k(0.0)).implies(m.close(a, 1e-9)) & T::k(1.0).le(f).implies(m.close(b, 1e-9)));
            let mut x = LinSrgb::<T>::new(a, a, a);
            x.mix_assign(LinSrgb::new(b, b, b), f);
            r.goal("rgb_assign_agrees", x.red.close(m, 1e-12));
            let (la, lb) = (v[3], v[4]);
            let m = Lab::<wp::D65, T>::new(a * T::k(100.0), la, lb).mix(Lab::new(b * T::k(100.0), lb, la), f);
            r.goal("lab_between", la.min_(lb).le(m.a + T::k(1e-9)) & m.a.le(la.max_(lb) + T::k(1e-9)) & la.min_(lb).le(m.b + T::k(1e-9)) & m.b.le(la.max_(lb) + T::k(1e-9)));
            r.goal("lab_ends", f.le(T::k(0.0)).implies(m.a.close(la, 1e-9) & m.l.close(a * T::k(100.0), 1e-9)) & T::k(1.0).le(f).implies(m.a.close(lb, 1e-9) & m.l.close(b * T::k(100.0), 1e-9)));
            r
        });
    obl!(l; "c10_mix_hue_shorter_arc", "C10", Tier::Quick,
        "mix on hue types (Hsv, Lch): the hue moves by factor x the signed shortest difference (|difference| <= 180 up to 1e-9), so it takes the shorter way around the circle; factor 0 keeps the first hue, factor 1 reaches the second modulo 360; other components are linear in the clamped factor; hues in [-360,360], factor in [-1,2]",
        ["impl_mix_hue! (Hsv, Lch)", "Mix::mix", "hues Sub, into_degrees"],
        [var("h1", -360.0, 360.0), var("h2", -360.0, 360.0), var("f", -1.0, 2.0), var("s1", 0.0, 1.0), var("s2", 0.0, 1.0)];
        |v| {
            let mut r = Res::<B>::new();
            let (h1, h2, f) = (v[0], v[1], v[2]);
            let fc = f.max_(T::k(0.0)).min_(T::k(1.0));
            let m = Hsv::<Srgb, T>::new(h1, v[3], v[3]).mix(Hsv::new(h2, v[4], v[4]), f);
            let moved = m.hue.into_inner() - h1;
            r.goal("arc_at_most_half_turn", moved.abs_().le(T::k(180.0 + 1e-9) * fc + T::k(1e-9)));
            r.goal("factor_one_reaches_second", T::k(1.0).le(f).implies(hue_close(m.hue.into_inner(), h2, 1e-9)));
            r.goal("factor_zero_keeps_first", f.le(T::k(0.0)).implies(m.hue.into_inner().close(h1, 1e-9)));
            r.goal("saturation_linear", m.saturation.close(v[3] + (v[4] - v[3]) * fc, 1e-9));
            let m2 = Lch::<wp::D65, T>::new(v[3] * T::k(100.0), v[3] * T::k(100.0), h1).mix(Lch::new(v[4] * T::k(100.0), v[4] * T::k(100.0), h2), f);
            r.goal("lch_same_hue_rule", m2.hue.into_inner().close(m.hue.into_inner(), 1e-9));
            r
        });
    obl!(l; "c10_lighten_darken", "C10", Tier::Quick,
        "lighten / darken (Hsl lightness, Lab L, LinSrgb components, Hwb): for factor in [0,1] the affected component moves monotonically toward its documented limit, factor 1 reaches it, it never leaves its range, other components are untouched (same terms), and darken(f) = lighten(-f) (same terms); fixed forms add factor x max",
        ["impl_lighten! (Hsl, Lab, Rgb)", "impl_lighten_hwb!", "Lighten::lighten", "Lighten::lighten_fixed", "Darken (lib.rs blanket)"],
        [var("x", 0.0, 1.0), var("f", 0.0, 1.0), var("g", 0.0, 1.0), var("o", 0.0, 1.0)];
        |v| {
            let mut r = Res::<B>::new();
            let (x, f, g) = (v[0], v[1], v[2]);
            let c = Hsl::<Srgb, T>::new(v[3] * T::k(360.0), v[3], x);
            let up = c.lighten(f);
            r.goal("hsl_toward_max", x.le(up.lightness + T::k(1e-12)) & up.lightness.le(T::k(1.0 + 1e-12)) & up.lightness.close(x + (T::k(1.0) - x) * f, 1e-9));
            r.goal("hsl_factor_one_reaches_max", c.lighten(T::k(1.0)).lightness.close(T::k(1.0), 1e-12));
            r.goal("hsl_monotone_in_factor", f.le(g).implies(up.lightness.le(c.lighten(g).lightness + T::k(1e-12))));
            r.goal("hsl_others_untouched", up.hue.into_inner().eqv(c.hue.into_inner()) & up.saturation.eqv(c.saturation));
            let down = c.darken(f);
            r.goal("hsl_darken_toward_min", down.lightness.le(x + T::k(1e-12)) & T::k(-1e-12).le(down.lightness) & down.lightness.close(x - x * f, 1e-9));
            r.goal("hsl_darken_is_negated_lighten", down.lightness.eqv(c.lighten(-f).lightness) & c.darken(T::k(1.0)).lightness.close(T::k(0.0), 1e-12));
            r.goal("hsl_fixed", c.lighten_fixed(f).lightness.close((x + f).min_(T::k(1.0)), 1e-9) & c.darken_fixed(f).lightness.eqv(c.lighten_fixed(-f).lightness));
            let lab = Lab::<wp::D65, T>::new(x * T::k(100.0), v[3], v[3]);
            let up = lab.lighten(f);
            r.goal("lab_toward_max", up.l.close((x + (T::k(1.0) - x) * f) * T::k(100.0), 1e-7) & up.a.eqv(lab.a) & up.b.eqv(lab.b) & lab.lighten(T::k(1.0)).l.close(T::k(100.0), 1e-9));
            let rgb = LinSrgb::<T>::new(x, v[3], x);
            let up = rgb.lighten(f);
            r.goal("rgb_all_channels_toward_one", up.red.close(x + (T::k(1.0) - x) * f, 1e-9) & up.green.close(v[3] + (T::k(1.0) - v[3]) * f, 1e-9) & rgb.darken(T::k(1.0)).green.close(T::k(0.0), 1e-12));
            r
        });
    obl!(l; "c10_saturate_desaturate", "C10", Tier::Quick,
        "saturate / desaturate (Hsv, Hsl, Lch chroma is not bounded above so only Hsv/Hsl): for factor in [0,1] saturation moves monotonically toward 1 resp. 0, factor 1 reaches the limit, stays in [0,1], other components untouched, desaturate(f) = saturate(-f)",
        ["impl_saturate! (Hsv, Hsl)", "Saturate::saturate", "Desaturate (lib.rs blanket)"],
        [var("s", 0.0, 1.0), var("f", 0.0, 1.0), var("g", 0.0, 1.0), var("o", 0.0, 1.0)];
        |v| {
            let mut r = Res::<B>::new();
            let (s, f, g) = (v[0], v[1], v[2]);
            let c = Hsv::<Srgb, T>::new(v[3] * T::k(360.0), s, v[3]);
            let up = c.saturate(f);
            r.goal("toward_one", up.saturation.close(s + (T::k(1.0) - s) * f, 1e-9) & s.le(up.saturation + T::k(1e-12)) & up.saturation.le(T::k(1.0 + 1e-12)));
            r.goal("monotone", f.le(g).implies(up.saturation.le(c.saturate(g).saturation + T::k(1e-12))));
            r.goal("limits", c.saturate(T::k(1.0)).saturation.close(T::k(1.0), 1e-12) & c.desaturate(T::k(1.0)).saturation.close(T::k(0.0), 1e-12));
            r.goal("others_untouched", up.hue.into_inner().eqv(c.hue.into_inner()) & up.value.eqv(c.value));
            r.goal("desaturate_is_negated_saturate", c.desaturate(f).saturation.eqv(c.saturate(-f).saturation) & c.desaturate(f).saturation.close(s - s * f, 1e-9));
            let h = Hsl::<Srgb, T>::new(v[3] * T::k(360.0), s, v[3]);
            r.goal("hsl", h.saturate(f).saturation.close(s + (T::k(1.0) - s) * f, 1e-9) & h.saturate(f).lightness.eqv(h.lightness));
            r
        });
    obl!(l; "c10_hue_ops_and_schemes", "C10", Tier::Quick,
        "shift_hue adds the angle to the stored hue and with_hue replaces it, other components untouched; the colour-scheme helpers are hue shifts by the documented angles (complementary 180, split complementary 150/210, analogous -30 / +30 (down, up), triadic 120/240, tetradic 90/180/270) and, for Lab, negation of a and b",
        ["impl_hue_ops!", "impl_color_theory! / color_theory.rs", "ShiftHue::shift_hue", "WithHue::with_hue"],
        [var("h", -360.0, 360.0), var("d", -360.0, 360.0), var("s", 0.0, 1.0)];
        |v| {
            let mut r = Res::<B>::new();
            let c = Hsv::<Srgb, T>::new(v[0], v[2], v[2]);
            let sh = c.shift_hue(v[1]);
            r.goal("shift", sh.hue.into_inner().close(v[0] + v[1], 1e-12) & sh.saturation.eqv(c.saturation) & sh.value.eqv(c.value));
            let w = c.with_hue(v[1]);
            r.goal("with_hue", w.hue.into_inner().eqv(v[1]) & w.saturation.eqv(c.saturation));
            r.goal("complementary", hue_close(c.complementary().hue.into_inner(), v[0] + T::k(180.0), 1e-9));
            let (a, b) = c.split_complementary();
            r.goal("split_complementary", hue_close(a.hue.into_inner(), v[0] + T::k(150.0), 1e-9) & hue_close(b.hue.into_inner(), v[0] + T::k(210.0), 1e-9));
            let (a, b) = c.analogous();
            r.goal("analogous", hue_close(a.hue.into_inner(), v[0] - T::k(30.0), 1e-9) & hue_close(b.hue.into_inner(), v[0] + T::k(30.0), 1e-9));
            let (a, b) = c.triadic();
            r.goal("triadic", hue_close(a.hue.into_inner(), v[0] + T::k(120.0), 1e-9) & hue_close(b.hue.into_inner(), v[0] + T::k(240.0), 1e-9));
            let (a, b, d) = c.tetradic();
            r.goal("tetradic", hue_close(a.hue.into_inner(), v[0] + T::k(90.0), 1e-9) & hue_close(b.hue.into_inner(), v[0] + T::k(180.0), 1e-9) & hue_close(d.hue.into_inner(), v[0] + T::k(270.0), 1e-9));
            let lab = Lab::<wp::D65, T>::new(v[2] * T::k(100.0), v[0] * T::k(0.3), v[1] * T::k(0.3));
            let k = lab.complementary();
            r.goal("lab_complementary_negates_ab", k.a.close(-lab.a, 1e-12) & k.b.close(-lab.b, 1e-12) & k.l.eqv(lab.l));
            let o = Oklch::<T>::new(v[2], v[2] * T::k(0.3), v[0]);
            r.goal("oklch_complementary", hue_close(o.complementary().hue.into_inner(), v[0] + T::k(180.0), 1e-9));
            r
        });
    obl!(l; "c03_hwb_clamp_real", "C03", Tier::Quick,
        "Hwb / Okhwb clamp in real arithmetic for whiteness, blackness in [-10,10]: the result has whiteness, blackness >= 0 and whiteness + blackness <= 1 (1e-9), an in-bounds colour is unchanged, clamp_assign agrees with clamp, hue untouched",
        ["impl_clamp_hwb! (Hwb, Okhwb)", "impl_is_within_bounds_hwb!"],
        [var("h", -360.0, 360.0), var("w", -10.0, 10.0), var("b", -10.0, 10.0)];
        |v| {
            let mut r = Res::<B>::new();
            let c = Hwb::<Srgb, T>::new(v[0], v[1], v[2]);
            let k = c.clamp();
            r.goal("hwb_within", T::k(0.0).le(k.whiteness) & T::k(0.0).le(k.blackness) & (k.whiteness + k.blackness).le(T::k(1.0 + 1e-9)) & k.hue.into_inner().eqv(v[0]));
            let inb = T::k(0.0).le(v[1]) & T::k(0.0).le(v[2]) & (v[1] + v[2]).le(T::k(1.0));
            r.goal("hwb_identity_in_bounds", inb.implies(k.whiteness.close(v[1], 1e-12) & k.blackness.close(v[2], 1e-12)));
            let mut m = c;
            m.clamp_assign();
            r.goal("hwb_assign_agrees", m.whiteness.close(k.whiteness, 1e-12) & m.blackness.close(k.blackness, 1e-12));
            let c = Okhwb::<T>::new(v[0], v[1], v[2]);
            let k = c.clamp();
            r.goal("okhwb_within", T::k(0.0).le(k.whiteness) & T::k(0.0).le(k.blackness) & (k.whiteness + k.blackness).le(T::k(1.0 + 1e-9)));
            let mut m = c;
            m.clamp_assign();
            r.goal("okhwb_assign_agrees", m.whiteness.close(k.whiteness, 1e-12) & m.blackness.close(k.blackness, 1e-12));
            r
        });
    obl!(l; "c11_cartesian_direction", "C11", Tier::Quick,
        "building a hue from cartesian coordinates and reading it back as a unit vector preserves the direction: (cos, sin) of from_cartesian(a, b) times hypot(a, b) equals (a, b) within 1e-9 for a, b in [-100,100]; and from_cartesian(into_cartesian(h)) is h modulo 360 (1e-6) for h in [-180,180]",
        ["hues::from_cartesian", "hues::into_cartesian", "hues::from_radians", "hues::into_raw_radians"],
        [var("a", -100.0, 100.0), var("b", -100.0, 100.0), var("h", -180.0, 180.0)];
        |v| {
            let mut r = Res::<B>::new();
            let hue = palette::RgbHue::<T>::from_cartesian(v[0], v[1]);
            let (ca, cb) = hue.into_cartesian();
            let n = (v[0] * v[0] + v[1] * v[1]).sqrt_();
            r.goal("direction_a", (ca * n).close(v[0], 1e-9));
            r.goal("direction_b", (cb * n).close(v[1], 1e-9));
            let (ca, cb) = palette::LabHue::<T>::new(v[2]).into_cartesian();
            let back = palette::LabHue::<T>::from_cartesian(ca * T::k(7.0), cb * T::k(7.0));
            r.goal("angle_roundtrip", hue_close(back.into_raw_degrees(), v[2], 1e-6));
            r
        });
}
