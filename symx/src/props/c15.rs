//! C15 - gamut-bounded cylindrical spaces stay inside the RGB gamut (hexcone family: exact; Ok* / HSLuv: see DESIGN).
use crate::obl::*;
use crate::{obl, oblf};
use palette::convert::FromColorUnclamped;
use palette::encoding::Srgb;
use palette::rgb::Rgb;
use palette::{Hsl, Hsv, Hwb};

pub fn register(l: &mut Vec<Obl>) {
    macro_rules! fam {
        ($m:ident, $sfx:literal) => {{
            $m!(l; concat!("c15_hsv_hsl_into_gamut", $sfx), "C15", Tier::Quick,
                "every HSV and HSL colour with S, V / S, L in [0,1] and any hue in [-720,720] converts to RGB components in [0,1] (1e-9)",
                ["<Rgb<S,T> as FromColorUnclamped<Hsv<S,T>>>", "<Rgb<S,T> as FromColorUnclamped<Hsl<S,T>>>"],
                [var("h", -720.0, 720.0), var("s", 0.0, 1.0), var("x", 0.0, 1.0)];
                |v| {
                    let mut r = Res::<B>::new();
                    let c: Rgb<Srgb, T> = Rgb::from_color_unclamped(Hsv::<Srgb, T>::new(v[0], v[1], v[2]));
                    r.goal("hsv", c.red.within_tol(0.0, 1.0, 1e-9) & c.green.within_tol(0.0, 1.0, 1e-9) & c.blue.within_tol(0.0, 1.0, 1e-9));
                    let c: Rgb<Srgb, T> = Rgb::from_color_unclamped(Hsl::<Srgb, T>::new(v[0], v[1], v[2]));
                    r.goal("hsl", c.red.within_tol(0.0, 1.0, 1e-9) & c.green.within_tol(0.0, 1.0, 1e-9) & c.blue.within_tol(0.0, 1.0, 1e-9));
                    r
                });
            $m!(l; concat!("c15_hwb_into_gamut", $sfx), "C15", Tier::Quick,
                "every HWB colour with W, B >= 0, W + B <= 1 and any hue converts (through HSV) to RGB components in [0,1] (1e-9)",
                ["<Hsv<S,T> as FromColorUnclamped<Hwb<S,T>>>", "<Rgb<S,T> as FromColorUnclamped<Hsv<S,T>>>"],
                [var("h", -720.0, 720.0), var("w", 0.0, 1.0), var("b", 0.0, 1.0)];
                |v| {
                    let mut r = Res::<B>::new();
                    r.assume((v[1] + v[2]).le(T::k(1.0)));
                    let c: Rgb<Srgb, T> = Rgb::from_color_unclamped(Hwb::<Srgb, T>::new(v[0], v[1], v[2]));
                    r.goal("hwb", c.red.within_tol(0.0, 1.0, 1e-9) & c.green.within_tol(0.0, 1.0, 1e-9) & c.blue.within_tol(0.0, 1.0, 1e-9));
                    r
                });
            $m!(l; concat!("c15_rgb_into_bounds", $sfx), "C15", Tier::Quick,
                "every in-gamut RGB colour converts to HSV, HSL and HWB within their documented bounds (S, V, L, W, B in [0,1], W + B <= 1, 1e-9) and back to the same RGB (1e-9)",
                ["<Hsv<S,T> as FromColorUnclamped<Rgb<S,T>>>", "<Hsl<S,T> as FromColorUnclamped<Rgb<S,T>>>", "<Hwb<S,T> as FromColorUnclamped<Hsv<S,T>>>"],
                [var("r", 0.0, 1.0), var("g", 0.0, 1.0), var("b", 0.0, 1.0)];
                |v| {
                    let mut r = Res::<B>::new();
                    let c = Rgb::<Srgb, T>::new(v[0], v[1], v[2]);
                    let hsv: Hsv<Srgb, T> = Hsv::from_color_unclamped(c);
                    r.goal("hsv_bounds", hsv.saturation.within_tol(0.0, 1.0, 1e-9) & hsv.value.within_tol(0.0, 1.0, 1e-9));
                    let hsl: Hsl<Srgb, T> = Hsl::from_color_unclamped(c);
                    r.goal("hsl_bounds", hsl.saturation.within_tol(0.0, 1.0, 1e-9) & hsl.lightness.within_tol(0.0, 1.0, 1e-9));
                    let hwb: Hwb<Srgb, T> = Hwb::from_color_unclamped(c);
                    r.goal("hwb_bounds", hwb.whiteness.within_tol(0.0, 1.0, 1e-9) & hwb.blackness.within_tol(0.0, 1.0, 1e-9) & (hwb.whiteness + hwb.blackness).le(T::k(1.0 + 1e-9)));
                    let back: Rgb<Srgb, T> = Rgb::from_color_unclamped(hwb);
                    r.goal("hwb_back", back.red.close(v[0], 1e-9) & back.green.close(v[1], 1e-9) & back.blue.close(v[2], 1e-9));
                    r
                });
        }};
    }
    fam!(obl, "_simd_path");
    fam!(oblf, "_scalar_path");
    ok_grid(l);
}

/// Okhsl / Okhsv / Okhwb / HSLuv -> RGB on a grid of (hue, lightness-like) configurations with the saturation-like component
/// symbolic: with a concrete hue the cusp search (polynomial + Halley step) runs on constants, and the remaining map is a
/// univariate algebraic function of the saturation that z3 decides for all s in [0, 1].
fn ok_grid(l: &mut Vec<Obl>) {
    use palette::{Hsluv, LinSrgb, Okhsl, Okhsv, Okhwb};
    // in linear light: -4e-4 is -0.005 after sRGB encoding (slope 12.92), 1 + 2e-3 is 1.0009
    const TOL: f64 = 2e-3;
    const TOL_LO: f64 = 4e-4;
    // regular hues, and hues 0.3 degrees on either side of the three sRGB primaries (29.23, 142.50, 264.05 deg in Oklab), where
    // the cusp search switches between its polynomial sectors
    let hues = [0.0, 28.93, 29.53, 60.0, 111.25, 142.2, 142.8, 180.0, 200.0, 263.75, 264.35, 300.0, 330.0];
    for h in hues {
        for x in [0.05, 0.2, 0.4, 0.6, 0.8, 0.95] {
            let key = format!("h{}_x{}", h, x).replace('.', "_");
            oblf!(l; format!("c15_okhsl_into_gamut_{}", key), "C15", Tier::Quick,
                format!("Okhsl at hue {} deg, lightness {} (configuration) and EVERY saturation in [0,1] converts to linear sRGB components in [-4e-4, 1 + {}]", h, x, TOL),
                ["<Oklab as FromColorUnclamped<Okhsl>>", "<Rgb as FromColorUnclamped<Oklab>>", "ok_utils::LC::find_cusp", "ok_utils::ChromaValues", "ok_utils::toe_inv"],
                [var("s", 0.0, 1.0)];
                |v| {
                    let mut r = Res::<B>::new();
                    let c: LinSrgb<T> = LinSrgb::from_color_unclamped(Okhsl::<T>::new(T::k(h), v[0], T::k(x)));
                    r.goal("red", (c.red.within_tol(-1.0, 1.0, TOL) & c.red.within_tol(0.0, 2.0, TOL_LO)));
                    r.goal("green", (c.green.within_tol(-1.0, 1.0, TOL) & c.green.within_tol(0.0, 2.0, TOL_LO)));
                    r.goal("blue", (c.blue.within_tol(-1.0, 1.0, TOL) & c.blue.within_tol(0.0, 2.0, TOL_LO)));
                    r
                });
            oblf!(l; format!("c15_okhsv_into_gamut_{}", key), "C15", Tier::Open,
                format!("Okhsv at hue {} deg, value {} (configuration) and EVERY saturation in [0,1] converts to linear sRGB components in [-4e-4, 1 + {}]", h, x, TOL),
                ["<Oklab as FromColorUnclamped<Okhsv>>", "<Rgb as FromColorUnclamped<Oklab>>", "ok_utils::LC::find_cusp", "ok_utils::ST", "ok_utils::toe_inv"],
                [var("s", 0.0, 1.0)];
                |v| {
                    let mut r = Res::<B>::new();
                    let c: LinSrgb<T> = LinSrgb::from_color_unclamped(Okhsv::<T>::new(T::k(h), v[0], T::k(x)));
                    r.goal("red", (c.red.within_tol(-1.0, 1.0, TOL) & c.red.within_tol(0.0, 2.0, TOL_LO)));
                    r.goal("green", (c.green.within_tol(-1.0, 1.0, TOL) & c.green.within_tol(0.0, 2.0, TOL_LO)));
                    r.goal("blue", (c.blue.within_tol(-1.0, 1.0, TOL) & c.blue.within_tol(0.0, 2.0, TOL_LO)));
                    r
                });
            oblf!(l; format!("c15_hsluv_into_gamut_{}", key), "C15", Tier::Quick,
                format!("HSLuv at hue {} deg, lightness {} (configuration) and EVERY saturation in [0,100] converts to linear sRGB components in [-4e-4, 1 + {}]", h, x * 100.0, TOL),
                ["<Lchuv as FromColorUnclamped<Hsluv>>", "luv_bounds::LuvBounds::max_chroma_at_hue", "<Xyz as FromColorUnclamped<Luv>>", "<Rgb as FromColorUnclamped<Xyz>>"],
                [var("s", 0.0, 100.0)];
                |v| {
                    let mut r = Res::<B>::new();
                    let c: LinSrgb<T> = LinSrgb::from_color_unclamped(Hsluv::<palette::white_point::D65, T>::new(T::k(h), v[0], T::k(x * 100.0)));
                    r.goal("red", (c.red.within_tol(-1.0, 1.0, TOL) & c.red.within_tol(0.0, 2.0, TOL_LO)));
                    r.goal("green", (c.green.within_tol(-1.0, 1.0, TOL) & c.green.within_tol(0.0, 2.0, TOL_LO)));
                    r.goal("blue", (c.blue.within_tol(-1.0, 1.0, TOL) & c.blue.within_tol(0.0, 2.0, TOL_LO)));
                    r
                });
        }
    }
    for h in [29.0, 142.0, 264.0] {
        for w in [0.0, 0.3, 0.7] {
            let key = format!("h{}_w{}", h, w).replace('.', "_");
            oblf!(l; format!("c15_okhwb_into_gamut_{}", key), "C15", Tier::Open,
                format!("Okhwb at hue {} deg, whiteness {} (configuration) and EVERY blackness in [0, 1 - whiteness] converts to linear sRGB components in [-4e-4, 1 + {}]", h, w, TOL),
                ["<Okhsv as FromColorUnclamped<Okhwb>>", "<Oklab as FromColorUnclamped<Okhsv>>", "<Rgb as FromColorUnclamped<Oklab>>"],
                [var("b", 0.0, 1.0)];
                |v| {
                    let mut r = Res::<B>::new();
                    r.assume(v[0].le(T::k(1.0 - w)));
                    let c: LinSrgb<T> = LinSrgb::from_color_unclamped(Okhwb::<T>::new(T::k(h), T::k(w), v[0]));
                    r.goal("red", (c.red.within_tol(-1.0, 1.0, TOL) & c.red.within_tol(0.0, 2.0, TOL_LO)));
                    r.goal("green", (c.green.within_tol(-1.0, 1.0, TOL) & c.green.within_tol(0.0, 2.0, TOL_LO)));
                    r.goal("blue", (c.blue.within_tol(-1.0, 1.0, TOL) & c.blue.within_tol(0.0, 2.0, TOL_LO)));
                    r
                });
        }
    }
}
