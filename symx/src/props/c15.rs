//! C15 - gamut-bounded cylindrical spaces stay inside the RGB gamut (hexcone family: exact; Ok* / HSLuv: see DESIGN).
use crate::obl::*;
use crate::{obl, oblf};
use palette::convert::FromColorUnclamped;
use palette::encoding::Srgb;
use palette::rgb::Rgb;
use palette::{Hsl, Hsv, Hwb};

pub fn register(l: &mut Vec<Obl>) {
    macro_rules! fam {
        ($m:ident, $sfx:literal) => {{
            $m!(l; concat!("c15_hsv_hsl_into_gamut", $sfx), "C15", Tier::Quick,
                "every HSV and HSL colour with S, V / S, L in [0,1] and any hue in [-720,720] converts to RGB components in [0,1] (1e-9)",
                ["<Rgb<S,T> as FromColorUnclamped<Hsv<S,T>>>", "<Rgb<S,T> as FromColorUnclamped<Hsl<S,T>>>"],
                [var("h", -720.0, 720.0), var("s", 0.0, 1.0), var("x", 0.0, 1.0)];
                |v| {
                    let mut r = Res::<B>::new();
                    let c: Rgb<Srgb, T> = Rgb::from_color_unclamped(Hsv::<Srgb, T>::new(v[0], v[1], v[2]));
                    r.goal("hsv", c.red.within_tol(0.0, 1.0, 1e-9) & c.green.within_tol(0.0, 1.0, 1e-9) & c.blue.within_tol(0.0, 1.0, 1e-9));
                    let c: Rgb<Srgb, T> = Rgb::from_color_unclamped(Hsl::<Srgb, T>::new(v[0], v[1], v[2]));
                    r.goal("hsl", c.red.within_tol(0.0, 1.0, 1e-9) & c.green.within_tol(0.0, 1.0, 1e-9) & c.blue.within_tol(0.0, 1.0, 1e-9));
                    r
                });
            $m!(l; concat!("c15_hwb_into_gamut", $sfx), "C15", Tier::Quick,
                "every HWB colour with W, B >= 0, W + B <= 1 and any hue converts (through HSV) to RGB components in [0,1] (1e-9)",
                ["<Hsv<S,T> as FromColorUnclamped<Hwb<S,T>>>", "<Rgb<S,T> as FromColorUnclamped<Hsv<S,T>>>"],
                [var("h", -720.0, 720.0), var("w", 0.0, 1.0), var("b", 0.0, 1.0)];
                |v| {
                    let mut r = Res::<B>::new();
                    r.assume((v[1] + v[2]).le(T::k(1.0)));
                    let c: Rgb<Srgb, T> = Rgb::from_color_unclamped(Hwb::<Srgb, T>::new(v[0], v[1], v[2]));
                    r.goal("hwb", c.red.within_tol(0.0, 1.0, 1e-9) & c.green.within_tol(0.0, 1.0, 1e-9) & c.blue.within_tol(0.0, 1.0, 1e-9));
                    r
                });
            $m!(l; concat!("c15_rgb_into_bounds", $sfx), "C15", Tier::Quick,
                "every in-gamut RGB colour converts to HSV, HSL and HWB within their documented bounds (S, V, L, W, B in [0,1], W + B <= 1, 1e-9) and back to the same RGB (1e-9)",
                ["<Hsv<S,T> as FromColorUnclamped<Rgb<S,T>>>", "<Hsl<S,T> as FromColorUnclamped<Rgb<S,T>>>", "<Hwb<S,T> as FromColorUnclamped<Hsv<S,T>>>"],
                [var("r", 0.0, 1.0), var("g", 0.0, 1.0), var("b", 0.0, 1.0)];
                |v| {
                    let mut r = Res::<B>::new();
                    let c = Rgb::<Srgb, T>::new(v[0], v[1], v[2]);
                    let hsv: Hsv<Srgb, T> = Hsv::from_color_unclamped(c);
                    r.goal("hsv_bounds", hsv.saturation.within_tol(0.0, 1.0, 1e-9) & hsv.value.within_tol(0.0, 1.0, 1e-9));
                    let hsl: Hsl<Srgb, T> = Hsl::from_color_unclamped(c);
                    r.goal("hsl_bounds", hsl.saturation.within_tol(0.0, 1.0, 1e-9) & hsl.lightness.within_tol(0.0, 1.0, 1e-9));
                    let hwb: Hwb<Srgb, T> = Hwb::from_color_unclamped(c);
                    r.goal("hwb_bounds", hwb.whiteness.within_tol(0.0, 1.0, 1e-9) & hwb.blackness.within_tol(0.0, 1.0, 1e-9) & (hwb.whiteness + hwb.blackness).le(T::k(1.0 + 1e-9)));
                    let back: Rgb<Srgb, T> = Rgb::from_color_unclamped(hwb);
                    r.goal("hwb_back", back.red.close(v[0], 1e-9) & back.green.close(v[1], 1e-9) & back.blue.close(v[2], 1e-9));
                    r
                });
        }};
    }
    fam!(obl, "_simd_path");
    fam!(oblf, "_scalar_path");
}
