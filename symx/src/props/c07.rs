//! C07 - finite valid colours never produce NaN / infinity: every partial operation the real code executes is defined on
//! the whole documented range including the boundary lattice (the definedness goals are generated from the arena's log of
//! partial operations by the driver; the `finite` goal below is what the native replay evaluates).
use crate::obl::*;
use crate::{obl, oblf};
use palette::blend::{Blend, Compose, PreAlpha};
use palette::color_difference::{Ciede2000, DeltaE, HyAb, ImprovedDeltaE, Wcag21RelativeContrast};
use palette::convert::FromColorUnclamped;
use palette::encoding::Srgb;
use palette::rgb::Rgb;
use palette::white_point as wp;
use palette::{Alpha, Clamp, Hsl, Hsv, Hwb, Lab, Lch, Lchuv, Lighten, LinSrgb, Luv, Mix, Okhsv, Okhwb, Oklab, Oklch, Saturate, Xyz, Yxy};

fn fin<N: Num>(xs: &[N]) -> N::B {
    let mut b = N::B::k(true);
    for x in xs {
        b = b & x.finite();
    }
    b
}

macro_rules! c07 {
    ($m:ident, $l:expr, $name:expr, $tier:expr, $what:literal, [$($f:expr),*], [$($var:expr),*], |$v:ident| $outs:expr) => {
        $m!($l; format!("c07_{}", $name), "C07", $tier,
            concat!($what, ": every division, square root, logarithm and power the code executes is defined (non-zero divisor, quotient below 1e30, non-negative radicand, positive log argument) for every colour of the documented range, components on a bound / zero or 1e-9 x range away from it"),
            [$($f),*], [$($var),*];
            |$v| { let mut r = Res::<B>::new(); let outs = $outs; r.goal("finite", fin(&outs)); r });
    };
}

pub fn register(l: &mut Vec<Obl>) {
    let (q, t, open) = (Tier::Quick, Tier::Thorough, Tier::Open);
    c07!(obl, l, "xyz_to_lab_and_back", q, "XYZ <-> L*a*b*", ["<Lab as FromColorUnclamped<Xyz>>", "<Xyz as FromColorUnclamped<Lab>>"],
        [var("x", 0.0, 0.95047), var("y", 0.0, 1.0), var("z", 0.0, 1.08883)], |v| {
            let lab: Lab<wp::D65, T> = Lab::from_color_unclamped(Xyz::<wp::D65, T>::new(v[0], v[1], v[2]));
            let b: Xyz<wp::D65, T> = Xyz::from_color_unclamped(Lab::<wp::D65, T>::new(v[1] * T::k(100.0), v[0] * T::k(255.0) - T::k(128.0), v[2] * T::k(234.2) - T::k(128.0)));
            [lab.l, lab.a, lab.b, b.x, b.y, b.z]
        });
    c07!(oblf, l, "xyz_to_luv", q, "XYZ -> L*u*v*", ["<Luv as FromColorUnclamped<Xyz>>"],
        [var("x", 0.0, 0.95047), var("y", 0.0, 1.0), var("z", 0.0, 1.08883)], |v| {
            let luv: Luv<wp::D65, T> = Luv::from_color_unclamped(Xyz::<wp::D65, T>::new(v[0], v[1], v[2]));
            [luv.l, luv.u, luv.v]
        });
    oblf!(l; "c07_luv_to_xyz", "C07", q,
        "L*u*v* -> XYZ over the documented box L in [0,100], u in [-84,176], v in [-135,108], restricted to v' = v/(13L) + v'n >= 1e-6 (see the known finding for v' = 0): every division the code executes is defined",
        ["<Xyz as FromColorUnclamped<Luv>>"], [var("l", 0.0, 100.0), var("u", -84.0, 176.0), var("v", -135.0, 108.0)];
        |v| {
            let mut r = Res::<B>::new();
            // v' >= 1e-6  <=>  v + (v'n - 1e-6) 13 L >= 0   (no division in the harness itself)
            let w = <wp::D65 as palette::white_point::WhitePoint<f64>>::get_xyz();
            let vn = 9.0 * w.y / (w.x + 15.0 * w.y + 3.0 * w.z);
            r.assume(T::k(0.0).le(v[2] + T::k((vn - 1e-6) * 13.0) * v[0]));
            let b: Xyz<wp::D65, T> = Xyz::from_color_unclamped(Luv::<wp::D65, T>::new(v[0], v[1], v[2]));
            r.goal("finite", fin(&[b.x, b.y, b.z]));
            r
        });
    c07!(oblf, l, "luv_to_xyz_whole_box", q, "L*u*v* -> XYZ over the whole documented box L in [0,100], u in [-84,176], v in [-135,108] (witness of the known finding: v' = 0 is inside the box)", ["<Xyz as FromColorUnclamped<Luv>>"],
        [var("l", 0.0, 100.0), var("u", -84.0, 176.0), var("v", -135.0, 108.0)], |v| {
            let b: Xyz<wp::D65, T> = Xyz::from_color_unclamped(Luv::<wp::D65, T>::new(v[0], v[1], v[2]));
            [b.x, b.y, b.z]
        });
    c07!(obl, l, "xyz_yxy", q, "XYZ <-> xyY", ["<Yxy as FromColorUnclamped<Xyz>>", "<Xyz as FromColorUnclamped<Yxy>>"],
        [var("x", 0.0, 0.95047), var("y", 0.0, 1.0), var("z", 0.0, 1.08883)], |v| {
            let yxy: Yxy<wp::D65, T> = Yxy::from_color_unclamped(Xyz::<wp::D65, T>::new(v[0], v[1], v[2]));
            let b: Xyz<wp::D65, T> = Xyz::from_color_unclamped(Yxy::<wp::D65, T>::new(v[0], v[1], v[2] * T::k(0.9)));
            [yxy.x, yxy.y, yxy.luma, b.x, b.y, b.z]
        });
    macro_rules! hexcone {
        ($m:ident, $sfx:literal) => {
            c07!($m, l, concat!("rgb_to_hsv", $sfx), q, "RGB -> HSV", ["<Hsv as FromColorUnclamped<Rgb>>"],
                [var("a", 0.0, 1.0), var("b", 0.0, 1.0), var("c", 0.0, 1.0)], |v| {
                    let hsv: Hsv<Srgb, T> = Hsv::from_color_unclamped(Rgb::<Srgb, T>::new(v[0], v[1], v[2]));
                    [hsv.hue.into_inner(), hsv.saturation, hsv.value]
                });
            c07!($m, l, concat!("rgb_to_hsl", $sfx), q, "RGB -> HSL", ["<Hsl as FromColorUnclamped<Rgb>>"],
                [var("a", 0.0, 1.0), var("b", 0.0, 1.0), var("c", 0.0, 1.0)], |v| {
                    let hsl: Hsl<Srgb, T> = Hsl::from_color_unclamped(Rgb::<Srgb, T>::new(v[0], v[1], v[2]));
                    [hsl.hue.into_inner(), hsl.saturation, hsl.lightness]
                });
            c07!($m, l, concat!("hsv_to_hsl", $sfx), q, "HSV -> HSL", ["<Hsl as FromColorUnclamped<Hsv>>"],
                [var("a", 0.0, 1.0), var("b", 0.0, 1.0), var("c", 0.0, 1.0)], |v| {
                    let x: Hsl<Srgb, T> = Hsl::from_color_unclamped(Hsv::<Srgb, T>::new(v[0] * T::k(360.0) - T::k(180.0), v[1], v[2]));
                    [x.saturation, x.lightness]
                });
            c07!($m, l, concat!("hsl_to_hsv", $sfx), q, "HSL -> HSV", ["<Hsv as FromColorUnclamped<Hsl>>"],
                [var("a", 0.0, 1.0), var("b", 0.0, 1.0), var("c", 0.0, 1.0)], |v| {
                    let x: Hsv<Srgb, T> = Hsv::from_color_unclamped(Hsl::<Srgb, T>::new(v[0] * T::k(360.0) - T::k(180.0), v[1], v[2]));
                    [x.saturation, x.value]
                });
            c07!($m, l, concat!("hwb_hsv", $sfx), q, "HWB <-> HSV (whiteness + blackness <= 1)", ["<Hsv as FromColorUnclamped<Hwb>>", "<Hwb as FromColorUnclamped<Hsv>>"],
                [var("a", 0.0, 1.0), var("b", 0.0, 1.0), var("c", 0.0, 1.0)], |v| {
                    let h = v[0] * T::k(360.0) - T::k(180.0);
                    let x: Hsv<Srgb, T> = Hsv::from_color_unclamped(Hwb::<Srgb, T>::new(h, v[1], v[2] * (T::k(1.0) - v[1])));
                    let y: Hwb<Srgb, T> = Hwb::from_color_unclamped(Hsv::<Srgb, T>::new(h, v[1], v[2]));
                    [x.saturation, x.value, y.whiteness, y.blackness]
                });
            c07!($m, l, concat!("hsv_to_rgb", $sfx), q, "HSV -> RGB", ["<Rgb as FromColorUnclamped<Hsv>>"],
                [var("a", 0.0, 1.0), var("b", 0.0, 1.0), var("c", 0.0, 1.0)], |v| {
                    let x: Rgb<Srgb, T> = Rgb::from_color_unclamped(Hsv::<Srgb, T>::new(v[0] * T::k(360.0) - T::k(180.0), v[1], v[2]));
                    [x.red, x.green, x.blue]
                });
            c07!($m, l, concat!("hsl_to_rgb", $sfx), q, "HSL -> RGB", ["<Rgb as FromColorUnclamped<Hsl>>"],
                [var("a", 0.0, 1.0), var("b", 0.0, 1.0), var("c", 0.0, 1.0)], |v| {
                    let x: Rgb<Srgb, T> = Rgb::from_color_unclamped(Hsl::<Srgb, T>::new(v[0] * T::k(360.0) - T::k(180.0), v[1], v[2]));
                    [x.red, x.green, x.blue]
                });
        };
    }
    hexcone!(obl, "_simd_path");
    hexcone!(oblf, "_scalar_path");
    c07!(obl, l, "oklab", q, "XYZ / linear sRGB <-> Oklab, Oklab <-> Oklch, Okhsv <-> Okhwb", ["<Oklab as FromColorUnclamped<Xyz>>", "<Oklab as FromColorUnclamped<Rgb>>", "<Rgb as FromColorUnclamped<Oklab>>", "<Oklch as FromColorUnclamped<Oklab>>", "<Oklab as FromColorUnclamped<Oklch>>", "<Okhsv as FromColorUnclamped<Okhwb>>", "<Okhwb as FromColorUnclamped<Okhsv>>"],
        [var("a", 0.0, 1.0), var("b", 0.0, 1.0), var("c", 0.0, 1.0)], |v| {
            let o: Oklab<T> = Oklab::from_color_unclamped(LinSrgb::<T>::new(v[0], v[1], v[2]));
            let o2: Oklab<T> = Oklab::from_color_unclamped(Xyz::<wp::D65, T>::new(v[0] * T::k(0.95047), v[1], v[2] * T::k(1.08883)));
            let lab = Oklab::<T>::new(v[0], v[1] * T::k(0.8) - T::k(0.4), v[2] * T::k(0.8) - T::k(0.4));
            let rgb: LinSrgb<T> = LinSrgb::from_color_unclamped(lab);
            let lch: Oklch<T> = Oklch::from_color_unclamped(lab);
            let back: Oklab<T> = Oklab::from_color_unclamped(Oklch::<T>::new(v[0], v[1] * T::k(0.5), v[2] * T::k(360.0) - T::k(180.0)));
            let hwb: Okhwb<T> = Okhwb::from_color_unclamped(Okhsv::<T>::new(v[0] * T::k(360.0), v[1], v[2]));
            let hsv: Okhsv<T> = Okhsv::from_color_unclamped(Okhwb::<T>::new(v[0] * T::k(360.0), v[1], v[2] * (T::k(1.0) - v[1])));
            [o.l, o.a, o.b, o2.l, o2.a, o2.b, rgb.red, rgb.green, rgb.blue, lch.l, lch.chroma, lch.hue.into_inner(), back.a, back.b, hwb.whiteness, hwb.blackness, hsv.saturation, hsv.value]
        });
    c07!(obl, l, "polar", q, "Lab <-> Lch, Luv <-> Lchuv (zero chroma included)", ["<Lch as FromColorUnclamped<Lab>>", "<Lab as FromColorUnclamped<Lch>>", "<Lchuv as FromColorUnclamped<Luv>>", "<Luv as FromColorUnclamped<Lchuv>>"],
        [var("l", 0.0, 100.0), var("a", -128.0, 127.0), var("b", -128.0, 127.0)], |v| {
            let lch: Lch<wp::D65, T> = Lch::from_color_unclamped(Lab::<wp::D65, T>::new(v[0], v[1], v[2]));
            let lab: Lab<wp::D65, T> = Lab::from_color_unclamped(Lch::<wp::D65, T>::new(v[0], v[1] + T::k(128.0), v[2]));
            let lchuv: Lchuv<wp::D65, T> = Lchuv::from_color_unclamped(Luv::<wp::D65, T>::new(v[0], v[1], v[2]));
            let luv: Luv<wp::D65, T> = Luv::from_color_unclamped(Lchuv::<wp::D65, T>::new(v[0], v[1] + T::k(128.0), v[2]));
            [lch.l, lch.chroma, lch.hue.into_inner(), lab.a, lab.b, lchuv.chroma, lchuv.hue.into_inner(), luv.u, luv.v]
        });
    c07!(obl, l, "rgb_xyz_transfer", q, "sRGB (non-linear) <-> XYZ, including the transfer function", ["<Xyz as FromColorUnclamped<Rgb>>", "<Rgb as FromColorUnclamped<Xyz>>", "Srgb::into_linear", "Srgb::from_linear"],
        [var("a", 0.0, 1.0), var("b", 0.0, 1.0), var("c", 0.0, 1.0)], |v| {
            let x: Xyz<wp::D65, T> = Xyz::from_color_unclamped(Rgb::<Srgb, T>::new(v[0], v[1], v[2]));
            let lin: LinSrgb<T> = LinSrgb::from_color_unclamped(Rgb::<Srgb, T>::new(v[0], v[1], v[2]));
            let enc: Rgb<Srgb, T> = Rgb::from_color_unclamped(LinSrgb::<T>::new(v[0], v[1], v[2]));
            [x.x, x.y, x.z, lin.red, lin.green, lin.blue, enc.red, enc.green, enc.blue]
        });
    c07!(obl, l, "operators", q, "clamp, mix, lighten, darken, saturate on in-range colours with factor in [0,1]", ["Clamp::clamp", "Mix::mix", "Lighten::lighten", "Saturate::saturate", "impl_clamp_hwb!"],
        [var("a", 0.0, 1.0), var("b", 0.0, 1.0), var("f", 0.0, 1.0)], |v| {
            let hwb = Hwb::<Srgb, T>::new(v[0] * T::k(360.0), v[0], v[1] * (T::k(1.0) - v[0])).clamp();
            let hsv = Hsv::<Srgb, T>::new(v[0] * T::k(360.0), v[0], v[1]);
            let m = hsv.mix(Hsv::new(v[1] * T::k(360.0), v[1], v[0]), v[2]);
            let li = Hsl::<Srgb, T>::new(v[0] * T::k(360.0), v[0], v[1]).lighten(v[2]);
            let sa = hsv.saturate(v[2]);
            let rgb = Lighten::lighten(LinSrgb::<T>::new(v[0], v[1], v[2]), v[2]).clamp();
            [hwb.whiteness, hwb.blackness, m.hue.into_inner(), m.saturation, m.value, li.lightness, sa.saturation, rgb.red]
        });
    c07!(obl, l, "blend_and_compose", q, "all eleven blend modes and six Porter-Duff operators on Alpha colours in [0,1] (zero alpha included)", ["<Alpha<C,T> as Blend>", "<Alpha<C,T> as Compose>", "Premultiply::unpremultiply", "blend::blend::dodge_blend", "blend::blend::burn_blend"],
        [var("s", 0.0, 1.0), var("sa", 0.0, 1.0), var("d", 0.0, 1.0), var("da", 0.0, 1.0)], |v| {
            let a = Alpha { color: LinSrgb::<T>::new(v[0], v[0], v[0]), alpha: v[1] };
            let b = Alpha { color: LinSrgb::<T>::new(v[2], v[2], v[2]), alpha: v[3] };
            [a.multiply(b).color.red, a.screen(b).color.red, a.overlay(b).color.red, Blend::darken(a, b).color.red, Blend::lighten(a, b).color.red, a.dodge(b).color.red, a.burn(b).color.red,
             a.hard_light(b).color.red, a.soft_light(b).color.red, a.difference(b).color.red, a.exclusion(b).color.red,
             a.over(b).color.red, a.inside(b).color.red, a.outside(b).color.red, a.atop(b).color.red, a.xor(b).color.red, a.plus(b).color.red, a.over(b).alpha]
        });
    c07!(obl, l, "differences", q, "Delta E, improved Delta E, HyAB, WCAG contrast (black against black included)", ["DeltaE::delta_e", "ImprovedDeltaE::improved_delta_e", "HyAb::hybrid_distance", "Wcag21RelativeContrast::relative_contrast"],
        [var("l1", 0.0, 100.0), var("a1", -128.0, 127.0), var("l2", 0.0, 100.0), var("a2", -128.0, 127.0)], |v| {
            let (x, y) = (Lab::<wp::D65, T>::new(v[0], v[1], v[1]), Lab::<wp::D65, T>::new(v[2], v[3], v[3]));
            let (p, q2) = (LinSrgb::<T>::new(v[0] * T::k(0.01), v[0] * T::k(0.01), v[2] * T::k(0.01)), LinSrgb::<T>::new(v[2] * T::k(0.01), v[2] * T::k(0.01), v[0] * T::k(0.01)));
            [x.delta_e(y), x.improved_delta_e(y), x.hybrid_distance(y), p.relative_contrast(q2)]
        });
    obl!(l; "c07_xyz_to_cam16", "C07", t,
        "XYZ -> CAM16 (default viewing conditions D65, L_A = 40, Y_b = 20, average surround) for every XYZ colour of the documented range whose three CAT16 cone responses are non-negative (all real colours; see the known finding for the rest): every division, square root and power the code executes is defined",
        ["Cam16::from_xyz", "cam16::math::xyz_to_cam16", "cam16::math::DependentParameters::adapt"],
        [var("x", 0.0, 0.95047), var("y", 0.0, 1.0), var("z", 0.0, 1.08883)];
        |v| {
            let mut r = Res::<B>::new();
            // M16 of Li et al. 2017 (the harness's own copy; only the sign of the responses matters here)
            for row in [[0.401288, 0.650173, -0.051461], [-0.250268, 1.204414, 0.045854], [-0.002079, 0.048952, 0.953127]] {
                r.assume(T::k(0.0).le(T::k(row[0]) * v[0] + T::k(row[1]) * v[1] + T::k(row[2]) * v[2]));
            }
            let p = palette::cam16::Parameters::<palette::cam16::StaticWp<wp::D65>, <T as palette::num::FromScalar>::Scalar>::default_static_wp(40.0).bake();
            let c = palette::cam16::Cam16::<T>::from_xyz(Xyz::<wp::D65, T>::new(v[0], v[1], v[2]), p);
            r.goal("finite", fin(&[c.lightness, c.chroma, c.hue.into_inner(), c.brightness, c.colorfulness, c.saturation]));
            r
        });
    obl!(l; "c07_xyz_to_cam16_adaptation_whole_box", "C07", q,
        "XYZ -> CAM16 over the whole documented XYZ box, colours with a negative CAT16 cone response included: the six partial operations of the post-adaptation compression (three powers |x|^0.42, three divisions by it + 27.13) are defined",
        ["cam16::math::xyz_to_cam16", "cam16::math::DependentParameters::adapt"],
        [var("x", 0.0, 0.95047), var("y", 0.0, 1.0), var("z", 0.0, 1.08883)];
        |v| {
            let mut r = Res::<B>::new();
            let p = palette::cam16::Parameters::<palette::cam16::StaticWp<wp::D65>, <T as palette::num::FromScalar>::Scalar>::default_static_wp(40.0).bake();
            let c = palette::cam16::Cam16::<T>::from_xyz(Xyz::<wp::D65, T>::new(v[0], v[1], v[2]), p);
            r.goal("finite", fin(&[c.lightness, c.chroma, c.hue.into_inner(), c.brightness, c.colorfulness, c.saturation]));
            r.goal("scope_ops_1_6", B::k(true));
            r
        });
    obl!(l; "c07_xyz_to_cam16_whole_box", "C07", q,
        "XYZ -> CAM16 inside the documented XYZ box: the lightness power J = 100 (A/A_w)^(c z) has a non-negative base (witness of the known finding: the achromatic response A is negative for colours with a negative cone response; the obligation ranges over the corner X, Y <= 1e-7, Z in [1e-4, 1e-2] of the box)",
        ["Cam16::from_xyz", "cam16::math::xyz_to_cam16"],
        // a corner of the documented box where the achromatic response is negative throughout (dark imaginary blues), so that
        // whichever model the solver returns replays natively
        [var("x", 0.0, 1e-7), var("y", 0.0, 1e-7), var("z", 1e-4, 1e-2)];
        |v| {
            let mut r = Res::<B>::new();
            let p = palette::cam16::Parameters::<palette::cam16::StaticWp<wp::D65>, <T as palette::num::FromScalar>::Scalar>::default_static_wp(40.0).bake();
            let c = palette::cam16::Cam16::<T>::from_xyz(Xyz::<wp::D65, T>::new(v[0], v[1], v[2]), p);
            r.goal("finite", fin(&[c.lightness, c.chroma, c.hue.into_inner(), c.brightness, c.colorfulness, c.saturation]));
            r.goal("scope_ops_7_7", B::k(true));
            r
        });
    c07!(obl, l, "ciede2000", open, "CIEDE2000 on every pair of Lab colours of the documented box (achromatic pairs included)", ["color_difference::get_ciede2000_difference"],
        [var("l1", 0.0, 100.0), var("a1", -128.0, 127.0), var("b1", -128.0, 127.0), var("l2", 0.0, 100.0), var("a2", -128.0, 127.0), var("b2", -128.0, 127.0)], |v| {
            [Lab::<wp::D65, T>::new(v[0], v[1], v[2]).difference(Lab::<wp::D65, T>::new(v[3], v[4], v[5]))]
        });
}
