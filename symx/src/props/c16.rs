//! C16 - CAM16: UCS forms, partial attribute sets, black, adopted white, XYZ round trip (default viewing conditions and
//! a few others; viewing conditions are concrete per obligation, the colour is symbolic).
use crate::obl::*;
use crate::props::c02::hue_close;
use crate::obl;
use palette::cam16::{Cam16, Cam16Jch, Cam16Jmh, Cam16Jsh, Cam16Qch, Cam16Qmh, Cam16Qsh, Cam16UcsJab, Cam16UcsJmh, Parameters};
use palette::convert::FromColorUnclamped;
use palette::white_point as wp;
use palette::Xyz;

pub fn register(l: &mut Vec<Obl>) {
    obl!(l; "c16_ucs_jmh_formulas_and_inverse", "C16", Tier::Quick,
        "CAM16-UCS: J' = 1.7 J / (1 + 0.007 J), M' = ln(1 + 0.0228 M) / 0.0228 (1e-9) and converting back to (J, M, h) returns the colour (1e-6) for J in [0,100], M in [0,120]; hue unchanged",
        ["<Cam16UcsJmh as FromColorUnclamped<Cam16Jmh>>", "<Cam16Jmh as FromColorUnclamped<Cam16UcsJmh>>"],
        [var("j", 0.0, 100.0), var("m", 0.0, 120.0), var("h", -180.0, 180.0)];
        |v| {
            let mut r = Res::<B>::new();
            let ucs: Cam16UcsJmh<T> = Cam16UcsJmh::from_color_unclamped(Cam16Jmh::<T>::new(v[0], v[1], v[2]));
            r.goal("lightness_formula", ucs.lightness.close(T::k(1.7) * v[0] / (T::k(1.0) + T::k(0.007) * v[0]), 1e-9));
            r.goal("colorfulness_formula", ucs.colorfulness.close((T::k(1.0) + T::k(0.0228) * v[1]).ln_() / T::k(0.0228), 1e-9));
            r.goal("hue_untouched", ucs.hue.into_inner().eqv(v[2]));
            let back: Cam16Jmh<T> = Cam16Jmh::from_color_unclamped(ucs);
            r.goal("back_lightness", back.lightness.close(v[0], 1e-6));
            r.goal("back_colorfulness", back.colorfulness.close(v[1], 1e-6));
            r
        });
    obl!(l; "c16_ucs_jab_jmh", "C16", Tier::Quick,
        "CAM16-UCS rectangular <-> polar: Jab -> Jmh -> Jab returns a', b' (1e-6) for a', b' in [-50,50]; Jmh -> Jab -> Jmh returns M' (1e-6) and the hue modulo 360 (1e-6) for M' in [0.5,50]; lightness untouched",
        ["<Cam16UcsJmh as FromColorUnclamped<Cam16UcsJab>>", "<Cam16UcsJab as FromColorUnclamped<Cam16UcsJmh>>"],
        [var("j", 0.0, 100.0), var("a", -50.0, 50.0), var("b", -50.0, 50.0), var("m", 0.5, 50.0), var("h", -180.0, 180.0)];
        |v| {
            let mut r = Res::<B>::new();
            let back: Cam16UcsJab<T> = Cam16UcsJab::from_color_unclamped(Cam16UcsJmh::<T>::from_color_unclamped(Cam16UcsJab::<T>::new(v[0], v[1], v[2])));
            r.goal("jab_a", back.a.close(v[1], 1e-6));
            r.goal("jab_b", back.b.close(v[2], 1e-6));
            r.goal("jab_lightness", back.lightness.eqv(v[0]));
            let back: Cam16UcsJmh<T> = Cam16UcsJmh::from_color_unclamped(Cam16UcsJab::<T>::from_color_unclamped(Cam16UcsJmh::<T>::new(v[0], v[3], v[4])));
            r.goal("jmh_colorfulness", back.colorfulness.close(v[3], 1e-6));
            r.goal("jmh_hue", hue_close(back.hue.into_raw_degrees(), v[4], 1e-6));
            r
        });
    obl!(l; "c16_partial_equals_full", "C16", Tier::Quick,
        "each of the six partial CAM16 colours obtained from XYZ carries exactly the corresponding attributes of the full CAM16 colour (same terms), for every XYZ in [0.01,1]^3 under the default viewing conditions (D65, L_A = 40, Y_b = 20, average surround)",
        ["Cam16::from_xyz", "Cam16Jch/Jmh/Jsh/Qch/Qmh/Qsh::from_xyz", "cam16::math::xyz_to_cam16", "partial from_full"],
        [var("x", 0.01, 1.0), var("y", 0.01, 1.0), var("z", 0.01, 1.0)];
        |v| {
            let mut r = Res::<B>::new();
            let p = Parameters::<palette::cam16::StaticWp<wp::D65>, <T as palette::num::FromScalar>::Scalar>::default_static_wp(40.0).bake();
            let xyz = Xyz::<wp::D65, T>::new(v[0], v[1], v[2]);
            let full = Cam16::<T>::from_xyz(xyz, p);
            let a = Cam16Jch::<T>::from_xyz(xyz, p);
            r.goal("jch", a.lightness.eqv(full.lightness) & a.chroma.eqv(full.chroma) & a.hue.into_inner().eqv(full.hue.into_inner()));
            let a = Cam16Jmh::<T>::from_xyz(xyz, p);
            r.goal("jmh", a.lightness.eqv(full.lightness) & a.colorfulness.eqv(full.colorfulness) & a.hue.into_inner().eqv(full.hue.into_inner()));
            let a = Cam16Jsh::<T>::from_xyz(xyz, p);
            r.goal("jsh", a.lightness.eqv(full.lightness) & a.saturation.eqv(full.saturation));
            let a = Cam16Qch::<T>::from_xyz(xyz, p);
            r.goal("qch", a.brightness.eqv(full.brightness) & a.chroma.eqv(full.chroma));
            let a = Cam16Qmh::<T>::from_xyz(xyz, p);
            r.goal("qmh", a.brightness.eqv(full.brightness) & a.colorfulness.eqv(full.colorfulness));
            let a = Cam16Qsh::<T>::from_xyz(xyz, p);
            r.goal("qsh", a.brightness.eqv(full.brightness) & a.saturation.eqv(full.saturation));
            let b = Cam16Jch::<T>::from_full(full);
            r.goal("from_full", b.lightness.eqv(full.lightness) & b.chroma.eqv(full.chroma));
            r
        });
    obl!(l; "c16_black_and_white", "C16", Tier::Quick,
        "black (XYZ = 0) maps to CAM16 lightness, brightness, chroma 0 and back to XYZ = 0; the adopted white of the viewing conditions has lightness 100 (1e-6) - D65 with L_A in {4, 40, 318}, D50 with L_A = 64",
        ["Cam16::from_xyz", "Cam16::into_xyz", "cam16::math::cam16_to_xyz", "cam16::math::prepare_parameters"],
        [];
        |v| {
            let mut r = Res::<B>::new();
            for la in [4.0 as <T as palette::num::FromScalar>::Scalar, 40.0, 318.0] {
                let p = Parameters::<palette::cam16::StaticWp<wp::D65>, <T as palette::num::FromScalar>::Scalar>::default_static_wp(la).bake();
                let black = Cam16::<T>::from_xyz(Xyz::<wp::D65, T>::new(T::k(0.0), T::k(0.0), T::k(0.0)), p);
                r.goal(&format!("black_forward_la{}", la), black.lightness.close(T::k(0.0), 1e-9) & black.brightness.close(T::k(0.0), 1e-9) & black.chroma.close(T::k(0.0), 1e-6));
                let back: Xyz<wp::D65, T> = Cam16Jch::<T>::new(T::k(0.0), T::k(10.0), T::k(30.0)).into_xyz(p);
                r.goal(&format!("black_backward_la{}", la), back.x.eqv(T::k(0.0)) & back.y.eqv(T::k(0.0)) & back.z.eqv(T::k(0.0)));
                let w = <wp::D65 as palette::white_point::WhitePoint<f64>>::get_xyz();
                let white = Cam16::<T>::from_xyz(Xyz::<wp::D65, T>::new(T::k(w.x), T::k(w.y), T::k(w.z)), p);
                r.goal(&format!("white_lightness_la{}", la), white.lightness.close(T::k(100.0), 1e-6));
            }
            let p = Parameters::<palette::cam16::StaticWp<wp::D50>, <T as palette::num::FromScalar>::Scalar>::default_static_wp(64.0).bake();
            let w = <wp::D50 as palette::white_point::WhitePoint<f64>>::get_xyz();
            let white = Cam16::<T>::from_xyz(Xyz::<wp::D50, T>::new(T::k(w.x), T::k(w.y), T::k(w.z)), p);
            r.goal("white_lightness_d50", white.lightness.close(T::k(100.0), 1e-6));
            r
        });
    macro_rules! roundtrip {
        ($key:literal, $P:ident) => {
            obl!(l; concat!("c16_xyz_roundtrip_", $key), "C16", Tier::Open,
                concat!("XYZ -> ", stringify!($P), " -> XYZ returns the colour (1e-4) for every XYZ in [0.05,1]^3 under the default viewing conditions (D65, L_A = 40)"),
                [concat!(stringify!($P), "::from_xyz"), concat!(stringify!($P), "::into_xyz"), "cam16::math::xyz_to_cam16", "cam16::math::cam16_to_xyz"],
                [var("x", 0.05, 1.0), var("y", 0.05, 1.0), var("z", 0.05, 1.0)];
                |v| {
                    let mut r = Res::<B>::new();
                    let p = Parameters::<palette::cam16::StaticWp<wp::D65>, <T as palette::num::FromScalar>::Scalar>::default_static_wp(40.0).bake();
                    let c = $P::<T>::from_xyz(Xyz::<wp::D65, T>::new(v[0], v[1], v[2]), p);
                    let back: Xyz<wp::D65, T> = c.into_xyz(p);
                    r.goal("x", back.x.close(v[0], 1e-4));
                    r.goal("y", back.y.close(v[1], 1e-4));
                    r.goal("z", back.z.close(v[2], 1e-4));
                    r
                });
        };
    }
    roundtrip!("jch", Cam16Jch);
    roundtrip!("qmh", Cam16Qmh);
    roundtrip!("jsh", Cam16Jsh);
    // forward model against the published equations (symx/src/reference/cam16.rs), three viewing conditions
    macro_rules! forward_vs_li {
        ($key:literal, $W:ty, $la:expr, $surround:expr, $sur:expr, $tier:expr) => {{
            let w = <$W as palette::white_point::WhitePoint<f64>>::get_xyz();
            let cond = crate::reference::cam16::conditions([w.x * 100.0, w.y * 100.0, w.z * 100.0], $la, 20.0, $sur);
            obl!(l; concat!("c16_forward_vs_published_", $key), "C16", $tier,
                concat!("the forward model equals the published CAM16 equations (Li et al. 2017, Appendix A, transcribed independently incl. the viewing-condition quantities): lightness J and brightness Q within 1e-6 relative, chroma C and colourfulness M within 1e-5 relative + 1e-6, saturation s within 1e-5 relative + 1e-4 (s = 100 sqrt(M/Q) amplifies rounding noise near the achromatic axis), hue angle h within 1e-6 degrees modulo 360, for every XYZ in [0.05, 1]^3; viewing conditions ", $key),
                ["Cam16::from_xyz", "cam16::math::xyz_to_cam16", "cam16::math::prepare_parameters", "cam16::math::DependentParameters::adapt"],
                [var("x", 0.05, 1.0), var("y", 0.05, 1.0), var("z", 0.05, 1.0)];
                |v| {
                    let mut r = Res::<B>::new();
                    let mut p = Parameters::<palette::cam16::StaticWp<$W>, <T as palette::num::FromScalar>::Scalar>::default_static_wp($la);
                    p.surround = $surround;
                    let got = Cam16::<T>::from_xyz(Xyz::<$W, T>::new(v[0], v[1], v[2]), p.bake());
                    let want = crate::reference::cam16::forward(v[0] * T::k(100.0), v[1] * T::k(100.0), v[2] * T::k(100.0), &cond);
                    let rel = |a: T, b: T, rt: f64, at: f64| (a - b).abs_().le(b.abs_() * T::k(rt) + T::k(at));
                    r.goal("lightness", rel(got.lightness, want.j, 1e-6, 1e-9));
                    r.goal("brightness", rel(got.brightness, want.q, 1e-6, 1e-9));
                    r.goal("chroma", rel(got.chroma, want.c, 1e-5, 1e-6));
                    r.goal("colorfulness", rel(got.colorfulness, want.m, 1e-5, 1e-6));
                    r.goal("saturation", rel(got.saturation, want.s, 1e-5, 1e-4));
                    // hue angle h = atan2(b, a) in degrees (modulo 360), step 4 of the paper
                    r.goal("hue", hue_close(got.hue.into_raw_degrees(), want.b.atan2_(want.a) * T::k(180.0 / core::f64::consts::PI), 1e-6));
                    r
                });
        }};
    }
    forward_vs_li!("d65_la40_average", wp::D65, 40.0, palette::cam16::Surround::Average, (1.0, 0.69, 1.0), Tier::Quick);
    forward_vs_li!("d65_la40_dim", wp::D65, 40.0, palette::cam16::Surround::Dim, (0.9, 0.59, 0.9), Tier::Quick);
    forward_vs_li!("d50_la64_dark", wp::D50, 64.0, palette::cam16::Surround::Dark, (0.8, 0.525, 0.8), Tier::Quick);
    // user-set degree of adaptation (Discounting::Custom) under non-average surrounds, forward and inverse
    macro_rules! custom_d {
        ($key:literal, $W:ty, $la:expr, $surround:expr, $sur:expr, $d:expr) => {{
            let w = <$W as palette::white_point::WhitePoint<f64>>::get_xyz();
            let cond = crate::reference::cam16::conditions_d([w.x * 100.0, w.y * 100.0, w.z * 100.0], $la, 20.0, $sur, Some($d));
            obl!(l; concat!("c16_forward_vs_published_custom_discounting_", $key), "C16", Tier::Quick,
                concat!("forward model with a user-set degree of adaptation D (Discounting::Custom) equals the published equations with that D: J, Q within 1e-6 relative, C, M within 1e-5 relative + 1e-6, s within 1e-5 relative + 1e-4, for every XYZ in [0.05, 1]^3; ", $key),
                ["Cam16::from_xyz", "cam16::math::prepare_parameters (Discounting::Custom)"],
                [var("x", 0.05, 1.0), var("y", 0.05, 1.0), var("z", 0.05, 1.0)];
                |v| {
                    let mut r = Res::<B>::new();
                    let mut p = Parameters::<palette::cam16::StaticWp<$W>, <T as palette::num::FromScalar>::Scalar>::default_static_wp($la);
                    p.surround = $surround;
                    p.discounting = palette::cam16::Discounting::Custom($d);
                    let got = Cam16::<T>::from_xyz(Xyz::<$W, T>::new(v[0], v[1], v[2]), p.bake());
                    let want = crate::reference::cam16::forward(v[0] * T::k(100.0), v[1] * T::k(100.0), v[2] * T::k(100.0), &cond);
                    let rel = |a: T, b: T, rt: f64, at: f64| (a - b).abs_().le(b.abs_() * T::k(rt) + T::k(at));
                    r.goal("lightness", rel(got.lightness, want.j, 1e-6, 1e-9));
                    r.goal("brightness", rel(got.brightness, want.q, 1e-6, 1e-9));
                    r.goal("chroma", rel(got.chroma, want.c, 1e-5, 1e-6));
                    r.goal("colorfulness", rel(got.colorfulness, want.m, 1e-5, 1e-6));
                    r.goal("saturation", rel(got.saturation, want.s, 1e-5, 1e-4));
                    r
                });
        }};
    }
    custom_d!("d65_la40_dim_d1", wp::D65, 40.0, palette::cam16::Surround::Dim, (0.9, 0.59, 0.9), 1.0);
    custom_d!("d50_la64_dark_d0_6", wp::D50, 64.0, palette::cam16::Surround::Dark, (0.8, 0.525, 0.8), 0.6);
    custom_d!("d65_la40_average_d0", wp::D65, 40.0, palette::cam16::Surround::Average, (1.0, 0.69, 1.0), 0.0);
    forward_vs_li!("d65_la318_dim", wp::D65, 318.0, palette::cam16::Surround::Dim, (0.9, 0.59, 0.9), Tier::Quick);
    forward_vs_li!("d50_la4_average", wp::D50, 4.0, palette::cam16::Surround::Average, (1.0, 0.69, 1.0), Tier::Quick);

    // inverse model against the published equations (symx/src/reference/cam16.rs `inverse`), per partial type, per case of
    // the paper's step 3 and per viewing condition
    macro_rules! inverse_vs_li {
        ($key:literal, $arc:literal, $W:ty, $la:expr, $surround:expr, $sur:expr, $P:ident, $lum:ident, $chr:ident, $lrange:expr, $crange:expr, $sinb:expr, $hlo:expr, $hhi:expr, $tier:expr) => {{
            let w = <$W as palette::white_point::WhitePoint<f64>>::get_xyz();
            let cond = crate::reference::cam16::conditions([w.x * 100.0, w.y * 100.0, w.z * 100.0], $la, 20.0, $sur);
            obl!(l; concat!("c16_inverse_vs_published_", $key, $arc), "C16", $tier,
                concat!("the inverse model ", stringify!($P), "::into_xyz equals the published CAM16 inverse equations (Li et al. 2017, Appendix A, transcribed independently: the paper's case split of step 3, its own M16 inverse computed from M16, its unadaptation formula): X, Y, Z within 1e-5 relative + 1e-6, for every luminance correlate, chromatic correlate in the stated ranges and every hue of the stated arc (the arc on which the paper's case |sin h| >= |cos h| resp. its complement applies); ", $key, $arc),
                [concat!(stringify!($P), "::into_xyz"), "cam16::math::cam16_to_xyz", "cam16::math::non_black_cam16_to_xyz", "cam16::math::Unadapt::run", "cam16::math::m16_inv", "cam16::math::prepare_parameters"],
                [var("lum", $lrange.0, $lrange.1), var("chr", $crange.0, $crange.1), var("h", $hlo, $hhi)];
                |v| {
                    let mut r = Res::<B>::new();
                    let mut p = Parameters::<palette::cam16::StaticWp<$W>, <T as palette::num::FromScalar>::Scalar>::default_static_wp($la);
                    p.surround = $surround;
                    let got: Xyz<$W, T> = $P::<T>::new(v[0], v[1], v[2]).into_xyz(p.bake());
                    let want = crate::reference::cam16::inverse(crate::reference::cam16::Lum::$lum(v[0]), crate::reference::cam16::Chr::$chr(v[1]), v[2], &cond, $sinb);
                    let rel = |a: T, b: T| (a * T::k(100.0) - b).abs_().le(b.abs_() * T::k(1e-5) + T::k(1e-4));
                    r.goal("x", rel(got.x, want[0]));
                    r.goal("y", rel(got.y, want[1]));
                    r.goal("z", rel(got.z, want[2]));
                    r
                });
        }};
    }
    macro_rules! inverse_vs_li_custom_d {
        ($key:literal, $arc:literal, $W:ty, $la:expr, $surround:expr, $sur:expr, $P:ident, $lum:ident, $chr:ident, $lrange:expr, $crange:expr, $sinb:expr, $hlo:expr, $hhi:expr, $tier:expr, $d:expr) => {{
            let w = <$W as palette::white_point::WhitePoint<f64>>::get_xyz();
            let cond = crate::reference::cam16::conditions_d([w.x * 100.0, w.y * 100.0, w.z * 100.0], $la, 20.0, $sur, Some($d));
            obl!(l; concat!("c16_inverse_vs_published_custom_discounting_", $key, $arc), "C16", $tier,
                concat!("the inverse model ", stringify!($P), "::into_xyz equals the published CAM16 inverse equations (Li et al. 2017, Appendix A, transcribed independently: the paper's case split of step 3, its own M16 inverse computed from M16, its unadaptation formula): X, Y, Z within 1e-5 relative + 1e-6, for every luminance correlate, chromatic correlate in the stated ranges and every hue of the stated arc (the arc on which the paper's case |sin h| >= |cos h| resp. its complement applies); user-set degree of adaptation (Discounting::Custom); ", $key, $arc),
                [concat!(stringify!($P), "::into_xyz"), "cam16::math::cam16_to_xyz", "cam16::math::non_black_cam16_to_xyz", "cam16::math::Unadapt::run", "cam16::math::m16_inv", "cam16::math::prepare_parameters"],
                [var("lum", $lrange.0, $lrange.1), var("chr", $crange.0, $crange.1), var("h", $hlo, $hhi)];
                |v| {
                    let mut r = Res::<B>::new();
                    let mut p = Parameters::<palette::cam16::StaticWp<$W>, <T as palette::num::FromScalar>::Scalar>::default_static_wp($la);
                    p.surround = $surround;
                    p.discounting = palette::cam16::Discounting::Custom($d);
                    let got: Xyz<$W, T> = $P::<T>::new(v[0], v[1], v[2]).into_xyz(p.bake());
                    let want = crate::reference::cam16::inverse(crate::reference::cam16::Lum::$lum(v[0]), crate::reference::cam16::Chr::$chr(v[1]), v[2], &cond, $sinb);
                    let rel = |a: T, b: T| (a * T::k(100.0) - b).abs_().le(b.abs_() * T::k(1e-5) + T::k(1e-4));
                    r.goal("x", rel(got.x, want[0]));
                    r.goal("y", rel(got.y, want[1]));
                    r.goal("z", rel(got.z, want[2]));
                    r
                });
        }};
    }
    // arcs: |sin h| >= |cos h| on [45, 135] and [-135, -45]; |cos h| >= |sin h| on [-45, 45] and [135, 180] u [-180, -135]
    macro_rules! inverse_all_arcs {
        ($key:literal, $W:ty, $la:expr, $surround:expr, $sur:expr, $P:ident, $lum:ident, $chr:ident, $lrange:expr, $crange:expr, $tier:expr) => {
            inverse_vs_li!($key, "_sin_arc_45_135", $W, $la, $surround, $sur, $P, $lum, $chr, $lrange, $crange, true, 45.0, 135.0, $tier);
            inverse_vs_li!($key, "_sin_arc_m135_m45", $W, $la, $surround, $sur, $P, $lum, $chr, $lrange, $crange, true, -135.0, -45.0, $tier);
            inverse_vs_li!($key, "_cos_arc_m45_45", $W, $la, $surround, $sur, $P, $lum, $chr, $lrange, $crange, false, -45.0, 45.0, $tier);
            inverse_vs_li!($key, "_cos_arc_135_225", $W, $la, $surround, $sur, $P, $lum, $chr, $lrange, $crange, false, 135.0, 225.0, $tier);
        };
    }
    let (avg, dim, dark) = ((1.0, 0.69, 1.0), (0.9, 0.59, 0.9), (0.8, 0.525, 0.8));
    inverse_all_arcs!("jch_d65_la40_average", wp::D65, 40.0, palette::cam16::Surround::Average, avg, Cam16Jch, J, C, (20.0, 100.0), (1.0, 60.0), Tier::Quick);
    inverse_all_arcs!("jmh_d65_la40_dim", wp::D65, 40.0, palette::cam16::Surround::Dim, dim, Cam16Jmh, J, M, (20.0, 100.0), (1.0, 50.0), Tier::Quick);
    inverse_all_arcs!("jsh_d50_la64_dark", wp::D50, 64.0, palette::cam16::Surround::Dark, dark, Cam16Jsh, J, S, (20.0, 100.0), (5.0, 60.0), Tier::Quick);
    inverse_all_arcs!("qch_d65_la40_dim", wp::D65, 40.0, palette::cam16::Surround::Dim, dim, Cam16Qch, Q, C, (60.0, 190.0), (1.0, 60.0), Tier::Quick);
    inverse_all_arcs!("qmh_d50_la64_dark", wp::D50, 64.0, palette::cam16::Surround::Dark, dark, Cam16Qmh, Q, M, (60.0, 190.0), (1.0, 50.0), Tier::Quick);
    // further viewing conditions (bright and very dark adapting field) for the lightness-based types
    inverse_all_arcs!("jch_d65_la318_dim", wp::D65, 318.0, palette::cam16::Surround::Dim, dim, Cam16Jch, J, C, (20.0, 100.0), (1.0, 60.0), Tier::Quick);
    inverse_all_arcs!("jmh_d50_la4_average", wp::D50, 4.0, palette::cam16::Surround::Average, avg, Cam16Jmh, J, M, (20.0, 100.0), (1.0, 40.0), Tier::Quick);
    inverse_all_arcs!("jsh_d65_la318_average", wp::D65, 318.0, palette::cam16::Surround::Average, avg, Cam16Jsh, J, S, (20.0, 100.0), (5.0, 60.0), Tier::Quick);
    inverse_all_arcs!("jch_d50_la4_dark", wp::D50, 4.0, palette::cam16::Surround::Dark, dark, Cam16Jch, J, C, (20.0, 100.0), (1.0, 50.0), Tier::Quick);
    inverse_vs_li_custom_d!("jch_d65_la40_dim_d1", "_sin_arc_45_135", wp::D65, 40.0, palette::cam16::Surround::Dim, dim, Cam16Jch, J, C, (20.0, 100.0), (1.0, 60.0), true, 45.0, 135.0, Tier::Quick, 1.0);
    inverse_vs_li_custom_d!("jch_d65_la40_dim_d1", "_cos_arc_m45_45", wp::D65, 40.0, palette::cam16::Surround::Dim, dim, Cam16Jch, J, C, (20.0, 100.0), (1.0, 60.0), false, -45.0, 45.0, Tier::Quick, 1.0);
    inverse_vs_li_custom_d!("qmh_d50_la64_dark_d0_6", "_sin_arc_m135_m45", wp::D50, 64.0, palette::cam16::Surround::Dark, dark, Cam16Qmh, Q, M, (60.0, 190.0), (1.0, 50.0), true, -135.0, -45.0, Tier::Quick, 0.6);
    inverse_vs_li_custom_d!("qmh_d50_la64_dark_d0_6", "_cos_arc_135_225", wp::D50, 64.0, palette::cam16::Surround::Dark, dark, Cam16Qmh, Q, M, (60.0, 190.0), (1.0, 50.0), false, 135.0, 225.0, Tier::Quick, 0.6);
    inverse_all_arcs!("qsh_d65_la40_average", wp::D65, 40.0, palette::cam16::Surround::Average, avg, Cam16Qsh, Q, S, (60.0, 190.0), (5.0, 60.0), Tier::Quick);
}
