//! Obligations: one body, expanded for T = SymM (symbolic execution), f64 and f32 (native replay).
use crate::sym::{SymB, SymF, SymM};
use core::ops::*;
use std::cell::Cell;

thread_local! {
    /// Multiplier applied to every tolerance (1.0 for the solver query, 0.9 for native replay: a counterexample must
    /// violate the property natively by at least 0.9 x the solver tolerance).
    pub static TOL_SCALE: Cell<f64> = Cell::new(1.0);
}

pub trait Bool: Copy + BitAnd<Output = Self> + BitOr<Output = Self> + Not<Output = Self> {
    fn k(v: bool) -> Self;
    fn implies(self, o: Self) -> Self {
        !self | o
    }
}
impl Bool for bool {
    fn k(v: bool) -> bool {
        v
    }
}
impl Bool for SymB {
    fn k(v: bool) -> SymB {
        SymB::c(v)
    }
}

/// The operations obligation bodies and reference formulas use, over the three component types.
pub trait Num:
    Copy + Add<Output = Self> + Sub<Output = Self> + Mul<Output = Self> + Div<Output = Self> + Neg<Output = Self> + core::fmt::Debug
{
    type B: Bool;
    fn k(v: f64) -> Self;
    fn le(self, o: Self) -> Self::B;
    fn lt(self, o: Self) -> Self::B;
    fn eqv(self, o: Self) -> Self::B;
    fn ite(c: Self::B, a: Self, b: Self) -> Self;
    fn abs_(self) -> Self;
    /// sign as f32::signum defines it: 1 for x >= 0, -1 otherwise
    fn signum_(self) -> Self;
    fn sqrt_(self) -> Self;
    fn cbrt_(self) -> Self;
    fn powf_(self, e: Self) -> Self;
    fn exp_(self) -> Self;
    fn ln_(self) -> Self;
    fn sin_(self) -> Self;
    fn cos_(self) -> Self;
    fn atan2_(self, x: Self) -> Self;
    fn floor_(self) -> Self;
    fn min_(self, o: Self) -> Self;
    fn max_(self, o: Self) -> Self;
    fn as_f64(self) -> Option<f64>;
    /// natively: the value is neither NaN nor infinite; symbolically (reals): true, the definedness obligations of the
    /// partial operations are generated from the arena's log instead
    fn finite(self) -> Self::B;
    fn ge(self, o: Self) -> Self::B {
        o.le(self)
    }
    fn gt(self, o: Self) -> Self::B {
        o.lt(self)
    }
    /// |self - o| <= tol (tolerance scaled by TOL_SCALE)
    fn close(self, o: Self, tol: f64) -> Self::B {
        (self - o).abs_().le(Self::k(tol * TOL_SCALE.with(|t| t.get())))
    }
    fn within(self, lo: f64, hi: f64) -> Self::B {
        Self::k(lo).le(self) & self.le(Self::k(hi))
    }
    /// lo - tol <= self <= hi + tol
    fn within_tol(self, lo: f64, hi: f64, tol: f64) -> Self::B {
        let t = tol * TOL_SCALE.with(|t| t.get());
        Self::k(lo - t).le(self) & self.le(Self::k(hi + t))
    }
}

macro_rules! num_float {
    ($t:ident) => {
        impl Num for $t {
            type B = bool;
            fn k(v: f64) -> Self {
                v as $t
            }
            fn le(self, o: Self) -> bool {
                self <= o
            }
            fn lt(self, o: Self) -> bool {
                self < o
            }
            fn eqv(self, o: Self) -> bool {
                self == o
            }
            fn ite(c: bool, a: Self, b: Self) -> Self {
                if c {
                    a
                } else {
                    b
                }
            }
            fn abs_(self) -> Self {
                self.abs()
            }
            fn signum_(self) -> Self {
                self.signum()
            }
            fn sqrt_(self) -> Self {
                self.sqrt()
            }
            fn cbrt_(self) -> Self {
                self.cbrt()
            }
            fn powf_(self, e: Self) -> Self {
                self.powf(e)
            }
            fn exp_(self) -> Self {
                self.exp()
            }
            fn ln_(self) -> Self {
                self.ln()
            }
            fn sin_(self) -> Self {
                self.sin()
            }
            fn cos_(self) -> Self {
                self.cos()
            }
            fn atan2_(self, x: Self) -> Self {
                self.atan2(x)
            }
            fn floor_(self) -> Self {
                self.floor()
            }
            fn min_(self, o: Self) -> Self {
                self.min(o)
            }
            fn max_(self, o: Self) -> Self {
                self.max(o)
            }
            fn as_f64(self) -> Option<f64> {
                Some(self as f64)
            }
            fn finite(self) -> bool {
                self.is_finite()
            }
        }
    };
}
num_float!(f32);
num_float!(f64);

macro_rules! num_sym {
    ($S:ident, $ite:ident) => {
impl Num for $S {
    type B = SymB;
    fn k(v: f64) -> Self {
        $S::c(v)
    }
    fn le(self, o: Self) -> SymB {
        SymB($crate::arena::with(|a| a.mk($crate::arena::Node::Le(self.0, o.0))))
    }
    fn lt(self, o: Self) -> SymB {
        SymB($crate::arena::with(|a| a.mk($crate::arena::Node::Lt(self.0, o.0))))
    }
    fn eqv(self, o: Self) -> SymB {
        SymB($crate::arena::with(|a| a.mk($crate::arena::Node::Eq(self.0, o.0))))
    }
    fn ite(c: SymB, a: Self, b: Self) -> Self {
        c.$ite(a, b)
    }
    fn abs_(self) -> Self {
        palette::num::Abs::abs(self)
    }
    fn signum_(self) -> Self {
        palette::num::Signum::signum(self)
    }
    fn sqrt_(self) -> Self {
        palette::num::Sqrt::sqrt(self)
    }
    fn cbrt_(self) -> Self {
        palette::num::Cbrt::cbrt(self)
    }
    fn powf_(self, e: Self) -> Self {
        palette::num::Powf::powf(self, e)
    }
    fn exp_(self) -> Self {
        palette::num::Exp::exp(self)
    }
    fn ln_(self) -> Self {
        palette::num::Ln::ln(self)
    }
    fn sin_(self) -> Self {
        palette::num::Trigonometry::sin(self)
    }
    fn cos_(self) -> Self {
        palette::num::Trigonometry::cos(self)
    }
    fn atan2_(self, x: Self) -> Self {
        palette::num::Trigonometry::atan2(self, x)
    }
    fn floor_(self) -> Self {
        palette::num::Round::floor(self)
    }
    fn min_(self, o: Self) -> Self {
        palette::num::MinMax::min(self, o)
    }
    fn max_(self, o: Self) -> Self {
        palette::num::MinMax::max(self, o)
    }
    fn as_f64(self) -> Option<f64> {
        self.konst()
    }
    fn finite(self) -> SymB {
        SymB::c(true)
    }
}

    };
}
num_sym!(SymM, ite);
num_sym!(SymF, ite_f);

#[derive(Clone, Copy, PartialEq, Eq, Debug)]
pub enum Tier {
    Quick,
    Thorough,
    /// built and attempted, but not decided within the thorough budget on this machine: not part of any registered tier
    /// (run with PV_OPEN=1 or by name); listed in DESIGN.md 9.4 as outside the claim
    Open,
}

pub struct Var {
    pub name: String,
    pub lo: f64,
    pub hi: f64,
}

pub fn var(name: &str, lo: f64, hi: f64) -> Var {
    Var { name: name.to_string(), lo, hi }
}

pub struct Res<B> {
    /// preconditions beyond the variable ranges
    pub assume: Vec<B>,
    /// named goals; each is one solver query
    pub goals: Vec<(String, B)>,
    /// values worth showing in a replay (name, value)
    pub show: Vec<(String, Option<f64>)>,
}

impl<B> Res<B> {
    pub fn new() -> Self {
        Res { assume: vec![], goals: vec![], show: vec![] }
    }
    pub fn assume(&mut self, b: B) {
        self.assume.push(b);
    }
    pub fn goal(&mut self, name: &str, b: B) {
        self.goals.push((name.to_string(), b));
    }
    pub fn show<N: Num>(&mut self, name: &str, v: N) {
        self.show.push((name.to_string(), v.as_f64()));
    }
}

pub struct Obl {
    pub name: String,
    pub prop: &'static str,
    pub tier: Tier,
    pub desc: String,
    pub fns: Vec<String>,
    pub vars: Vec<Var>,
    /// mask-generic (SIMD) code path, single DAG with ite; None when the code requires Mask = bool
    pub sym: Option<Box<dyn Fn(&[SymM]) -> Res<SymB>>>,
    /// scalar code path (Mask = bool), one run per decision vector
    pub symf: Option<Box<dyn Fn(&[SymF]) -> Res<SymB>>>,
    /// C17: the same pure function on both symbolic types (outputs compared lane-path against scalar-path), tolerance
    pub mf: Option<(Box<dyn Fn(&[SymM]) -> Vec<(String, SymM)>>, Box<dyn Fn(&[SymF]) -> Vec<(String, SymF)>>, f64)>,
    pub f64: Box<dyn Fn(&[f64]) -> Res<bool>>,
    pub f32: Box<dyn Fn(&[f32]) -> Res<bool>>,
}

/// obl!(list; name, prop, tier, desc, [fns], [vars]; |v| { body using T, B, v: &[T] -> Res<B> });
///   obl!  : symbolic run with SymM (mask-generic path, one DAG)
///   oblf! : symbolic run with SymF (scalar path, Mask = bool, path enumeration)
#[macro_export]
macro_rules! obl_native {
    ($v:ident, $body:block) => {{
        #[allow(unused)]
        let d = move |$v: &[f64]| -> $crate::obl::Res<bool> {
            type T = f64;
            type B = bool;
            $body
        };
        #[allow(unused)]
        let f = move |$v: &[f32]| -> $crate::obl::Res<bool> {
            type T = f32;
            type B = bool;
            $body
        };
        (Box::new(d) as Box<dyn Fn(&[f64]) -> $crate::obl::Res<bool>>, Box::new(f) as Box<dyn Fn(&[f32]) -> $crate::obl::Res<bool>>)
    }};
}
#[macro_export]
macro_rules! obl {
    ($list:expr; $name:expr, $prop:expr, $tier:expr, $desc:expr, [$($f:expr),* $(,)?], [$($var:expr),* $(,)?]; |$v:ident| $body:block) => {{
        #[allow(unused)]
        let s = move |$v: &[$crate::sym::SymM]| -> $crate::obl::Res<$crate::sym::SymB> {
            type T = $crate::sym::SymM;
            type B = $crate::sym::SymB;
            $body
        };
        let (d, f) = $crate::obl_native!($v, $body);
        $list.push($crate::obl::Obl {
            name: $name.to_string(), prop: $prop, tier: $tier, desc: $desc.to_string(),
            fns: vec![$($f.to_string()),*], vars: vec![$($var),*],
            sym: Some(Box::new(s)), symf: None, mf: None, f64: d, f32: f,
        });
    }};
}
#[macro_export]
macro_rules! oblf {
    ($list:expr; $name:expr, $prop:expr, $tier:expr, $desc:expr, [$($f:expr),* $(,)?], [$($var:expr),* $(,)?]; |$v:ident| $body:block) => {{
        #[allow(unused)]
        let s = move |$v: &[$crate::sym::SymF]| -> $crate::obl::Res<$crate::sym::SymB> {
            type T = $crate::sym::SymF;
            type B = $crate::sym::SymB;
            $body
        };
        let (d, f) = $crate::obl_native!($v, $body);
        $list.push($crate::obl::Obl {
            name: $name.to_string(), prop: $prop, tier: $tier, desc: $desc.to_string(),
            fns: vec![$($f.to_string()),*], vars: vec![$($var),*],
            sym: None, symf: Some(Box::new(s)), mf: None, f64: d, f32: f,
        });
    }};
}

/// oblmf!(list; name, prop, tier, desc, [fns], [vars], tol; |v| { body using T, v: &[T] -> Vec<(&str, T)> });
/// the body is a pure function of the inputs; it is executed with SymM (what every SIMD lane computes: all branches
/// evaluated and blended by masks) and with SymF (what f32/f64 compute, one run per decision vector) and the outputs are
/// compared; natively it runs with f64 / f32 (scalar path) and the outputs are reported for the replay.
#[macro_export]
macro_rules! oblmf {
    ($list:expr; $name:expr, $prop:expr, $tier:expr, $desc:expr, [$($f:expr),* $(,)?], [$($var:expr),* $(,)?], $tol:expr; |$v:ident| $body:block) => {{
        #[allow(unused)]
        let m = move |$v: &[$crate::sym::SymM]| -> Vec<(String, $crate::sym::SymM)> {
            type T = $crate::sym::SymM;
            let o: Vec<(&str, T)> = $body;
            o.into_iter().map(|(n, x)| (n.to_string(), x)).collect()
        };
        #[allow(unused)]
        let s = move |$v: &[$crate::sym::SymF]| -> Vec<(String, $crate::sym::SymF)> {
            type T = $crate::sym::SymF;
            let o: Vec<(&str, T)> = $body;
            o.into_iter().map(|(n, x)| (n.to_string(), x)).collect()
        };
        #[allow(unused)]
        let d = move |$v: &[f64]| -> $crate::obl::Res<bool> {
            type T = f64;
            let o: Vec<(&str, T)> = $body;
            let mut r = $crate::obl::Res::<bool>::new();
            for (n, x) in o { r.show(n, x); }
            r
        };
        #[allow(unused)]
        let f = move |$v: &[f32]| -> $crate::obl::Res<bool> {
            type T = f32;
            let o: Vec<(&str, T)> = $body;
            let mut r = $crate::obl::Res::<bool>::new();
            for (n, x) in o { r.show(n, x); }
            r
        };
        $list.push($crate::obl::Obl {
            name: $name.to_string(), prop: $prop, tier: $tier, desc: $desc.to_string(),
            fns: vec![$($f.to_string()),*], vars: vec![$($var),*],
            sym: None, symf: None, mf: Some((Box::new(m), Box::new(s), $tol)), f64: Box::new(d), f32: Box::new(f),
        });
    }};
}
