//! CAM16 forward model, transcribed from C. Li, Z. Li, Z. Wang, Y. Xu, M. R. Luo, G. Cui, M. Melgosa, M. H. Brill, M. Pointer,
//! "Comprehensive color solutions: CAM16, CAT16, and CAM16-UCS", Color Res. Appl. 42 (2017), Appendix A (steps 0-7 of the
//! forward model). XYZ on the 0..100 scale of the paper; the viewing-condition dependent quantities are computed here in f64
//! from the paper's formulas (independently of palette's `prepare_parameters`), the per-colour equations in the number type.
//! One transcription choice: J = 100 (A/A_w)^(c z) is written as 100 ((A/A_w)^(c z / 2))^2, the same real function.
use crate::obl::Num;

pub const M16: [[f64; 3]; 3] = [[0.401288, 0.650173, -0.051461], [-0.250268, 1.204414, 0.045854], [-0.002079, 0.048952, 0.953127]];

#[derive(Clone, Copy, Debug)]
pub struct Cond {
    pub f_l: f64,
    pub n: f64,
    pub z: f64,
    pub n_bb: f64,
    pub n_cb: f64,
    pub n_c: f64,
    pub c: f64,
    pub d_rgb: [f64; 3],
    pub a_w: f64,
}

fn compress(f_l: f64, x: f64) -> f64 {
    let p = (f_l * x.abs() / 100.0).powf(0.42);
    400.0 * x.signum() * p / (p + 27.13) + 0.1
}

/// Step 0: quantities that depend on the viewing conditions only. `white` on the 0..100 scale, `surround` = (F, c, N_c).
pub fn conditions(white: [f64; 3], l_a: f64, y_b: f64, surround: (f64, f64, f64)) -> Cond {
    conditions_d(white, l_a, y_b, surround, None)
}

/// As `conditions`, with the degree of adaptation D either computed from F and L_A (the paper's formula, `None`) or set by the
/// user (`Some(d)`: "D is set to one or another value if the illuminant is (partially) discounted" - it replaces the formula,
/// it is not scaled by F).
pub fn conditions_d(white: [f64; 3], l_a: f64, y_b: f64, surround: (f64, f64, f64), d_custom: Option<f64>) -> Cond {
    let (f, c, n_c) = surround;
    let rgb_w: Vec<f64> = M16.iter().map(|r| r[0] * white[0] + r[1] * white[1] + r[2] * white[2]).collect();
    let d = match d_custom {
        None => (f * (1.0 - (1.0 / 3.6) * ((-l_a - 42.0) / 92.0).exp())).clamp(0.0, 1.0),
        Some(d) => d.clamp(0.0, 1.0),
    };
    let d_rgb = [d * white[1] / rgb_w[0] + 1.0 - d, d * white[1] / rgb_w[1] + 1.0 - d, d * white[1] / rgb_w[2] + 1.0 - d];
    let k = 1.0 / (5.0 * l_a + 1.0);
    let f_l = 0.2 * k.powi(4) * (5.0 * l_a) + 0.1 * (1.0 - k.powi(4)).powi(2) * (5.0 * l_a).cbrt();
    let n = y_b / white[1];
    let z = 1.48 + n.sqrt();
    let n_bb = 0.725 * (1.0 / n).powf(0.2);
    let aw: Vec<f64> = (0..3).map(|i| compress(f_l, d_rgb[i] * rgb_w[i])).collect();
    let a_w = (2.0 * aw[0] + aw[1] + aw[2] / 20.0 - 0.305) * n_bb;
    Cond { f_l, n, z, n_bb, n_cb: n_bb, n_c, c, d_rgb, a_w }
}

pub struct Forward<N> {
    pub j: N,
    pub q: N,
    pub c: N,
    pub m: N,
    pub s: N,
    /// redness-greenness a, yellowness-blueness b (hue = atan2(b, a))
    pub a: N,
    pub b: N,
}

/// Steps 1-7 for one colour (X, Y, Z on the 0..100 scale).
pub fn forward<N: Num>(x: N, y: N, z: N, k: &Cond) -> Forward<N> {
    // step 1-2: cone responses, chromatic adaptation
    let cone = |i: usize| (N::k(M16[i][0]) * x + N::k(M16[i][1]) * y + N::k(M16[i][2]) * z) * N::k(k.d_rgb[i]);
    // step 3: post-adaptation compression  R_a = 400 sign(R_c) (F_L |R_c| / 100)^0.42 / ((F_L |R_c| / 100)^0.42 + 27.13) + 0.1
    let comp = |r: N| {
        let p = (N::k(k.f_l) * r.abs_() / N::k(100.0)).powf_(N::k(0.42));
        N::k(400.0) * r.signum_() * p / (p + N::k(27.13)) + N::k(0.1)
    };
    let (ra, ga, ba) = (comp(cone(0)), comp(cone(1)), comp(cone(2)));
    // step 4: a, b, hue
    let a = ra - N::k(12.0) * ga / N::k(11.0) + ba / N::k(11.0);
    let b = (ra + ga - N::k(2.0) * ba) / N::k(9.0);
    let h = b.atan2_(a);
    // step 5: eccentricity  e_t = 1/4 [cos(h + 2) + 3.8]
    let e_t = N::k(0.25) * ((h + N::k(2.0)).cos_() + N::k(3.8));
    // step 6: achromatic response, lightness, brightness
    let cap_a = (N::k(2.0) * ra + ga + ba / N::k(20.0) - N::k(0.305)) * N::k(k.n_bb);
    let root = (cap_a / N::k(k.a_w)).powf_(N::k(0.5 * k.c * k.z));
    let j = N::k(100.0) * root * root;
    let q = N::k(4.0 / k.c) * (j / N::k(100.0)).sqrt_() * N::k(k.a_w + 4.0) * N::k(k.f_l.powf(0.25));
    // step 7: chroma, colourfulness, saturation
    let t = N::k(50000.0 / 13.0 * k.n_c * k.n_cb) * e_t * (a * a + b * b).sqrt_() / (ra + ga + N::k(21.0 / 20.0) * ba);
    let c = t.powf_(N::k(0.9)) * (j / N::k(100.0)).sqrt_() * N::k((1.64 - 0.29f64.powf(k.n)).powf(0.73));
    let m = c * N::k(k.f_l.powf(0.25));
    let s = N::k(100.0) * (m / q).sqrt_();
    Forward { j, q, c, m, s, a, b }
}

/// The luminance correlate an inverse-model input carries.
#[derive(Clone, Copy, Debug)]
pub enum Lum<N> {
    J(N),
    Q(N),
}

/// The chromatic correlate an inverse-model input carries.
#[derive(Clone, Copy, Debug)]
pub enum Chr<N> {
    C(N),
    M(N),
    S(N),
}

/// Inverse model, Li et al. 2017, Appendix A "inverse", steps 1-5 (X, Y, Z returned on the 0..100 scale), transcribed
/// independently of palette. `sin_branch` selects the case of step 3 (|sin h| >= |cos h|: b first, then a = b cot h;
/// otherwise a first, then b = a tan h) - the caller states the case as an assumption, so each case is one obligation.
/// Transcription choices (same real functions): (J/100)^(1/(c z)) is written (sqrt(J/100))^(2/(c z)); J from Q is
/// J = 6.25 (c Q / ((A_w + 4) F_L^0.25))^2; C from M is M / F_L^0.25; C from s is (s/100)^2 Q / F_L^0.25 (s = 100 sqrt(M/Q)).
/// The hue is given in degrees and converted with the double pi/180 (the rounding of that constant is ~1e-17 relative).
pub fn inverse<N: Num>(lum: Lum<N>, chr: Chr<N>, h_deg: N, k: &Cond, sin_branch: bool) -> [N; 3] {
    let fl4 = k.f_l.powf(0.25);
    // step 1: J and C from whichever correlates are given
    let (j, q) = match lum {
        Lum::J(j) => (j, N::k(4.0 / k.c) * (j / N::k(100.0)).sqrt_() * N::k((k.a_w + 4.0) * fl4)),
        Lum::Q(q) => {
            let r = N::k(k.c) * q / N::k((k.a_w + 4.0) * fl4);
            (N::k(6.25) * r * r, q)
        }
    };
    let c = match chr {
        Chr::C(c) => c,
        Chr::M(m) => m / N::k(fl4),
        Chr::S(s) => (s / N::k(100.0)) * (s / N::k(100.0)) * q / N::k(fl4),
    };
    // step 2: t, e_t, A, p_1, p_2, p_3
    let jr = (j / N::k(100.0)).sqrt_();
    let t = (c / (jr * N::k((1.64 - 0.29f64.powf(k.n)).powf(0.73)))).powf_(N::k(1.0 / 0.9));
    let h = h_deg * N::k(core::f64::consts::PI / 180.0);
    let e_t = N::k(0.25) * ((h + N::k(2.0)).cos_() + N::k(3.8));
    let cap_a = N::k(k.a_w) * jr.powf_(N::k(2.0 / (k.c * k.z)));
    let p1 = N::k(50000.0 / 13.0 * k.n_c * k.n_cb) * e_t / t;
    let p2 = cap_a / N::k(k.n_bb) + N::k(0.305);
    let p3 = 21.0 / 20.0;
    // step 3: a and b
    let (sin_h, cos_h) = (h.sin_(), h.cos_());
    let (a, b) = if sin_branch {
        let p4 = p1 / sin_h;
        let b = p2 * N::k((2.0 + p3) * 460.0 / 1403.0)
            / (p4 + N::k((2.0 + p3) * 220.0 / 1403.0) * (cos_h / sin_h) - N::k(27.0 / 1403.0) + N::k(p3 * 6300.0 / 1403.0));
        (b * (cos_h / sin_h), b)
    } else {
        let p5 = p1 / cos_h;
        let a = p2 * N::k((2.0 + p3) * 460.0 / 1403.0)
            / (p5 + N::k((2.0 + p3) * 220.0 / 1403.0) - (N::k(27.0 / 1403.0) - N::k(p3 * 6300.0 / 1403.0)) * (sin_h / cos_h));
        (a, a * (sin_h / cos_h))
    };
    // step 4: post-adaptation cone responses
    let ra = N::k(460.0 / 1403.0) * p2 + N::k(451.0 / 1403.0) * a + N::k(288.0 / 1403.0) * b;
    let ga = N::k(460.0 / 1403.0) * p2 - N::k(891.0 / 1403.0) * a - N::k(261.0 / 1403.0) * b;
    let ba = N::k(460.0 / 1403.0) * p2 - N::k(220.0 / 1403.0) * a - N::k(6300.0 / 1403.0) * b;
    // step 5: undo the compression  R_c = sign(R_a - 0.1) 100/F_L (27.13 |R_a - 0.1| / (400 - |R_a - 0.1|))^(1/0.42)
    let un = |x: N| {
        let d = x - N::k(0.1);
        d.signum_() * N::k(100.0 / k.f_l) * (N::k(27.13) * d.abs_() / (N::k(400.0) - d.abs_())).powf_(N::k(1.0 / 0.42))
    };
    // step 6-7: undo the adaptation, cone responses -> XYZ with the inverse of M16 (computed here from M16 in f64)
    let rgb = [un(ra) / N::k(k.d_rgb[0]), un(ga) / N::k(k.d_rgb[1]), un(ba) / N::k(k.d_rgb[2])];
    let inv = invert3(M16);
    let row = |i: usize| N::k(inv[i][0]) * rgb[0] + N::k(inv[i][1]) * rgb[1] + N::k(inv[i][2]) * rgb[2];
    [row(0), row(1), row(2)]
}

fn invert3(m: [[f64; 3]; 3]) -> [[f64; 3]; 3] {
    let det = m[0][0] * (m[1][1] * m[2][2] - m[1][2] * m[2][1]) - m[0][1] * (m[1][0] * m[2][2] - m[1][2] * m[2][0])
        + m[0][2] * (m[1][0] * m[2][1] - m[1][1] * m[2][0]);
    let c = |r: usize, s: usize| {
        let (r1, r2, s1, s2) = ((r + 1) % 3, (r + 2) % 3, (s + 1) % 3, (s + 2) % 3);
        (m[r1][s1] * m[r2][s2] - m[r1][s2] * m[r2][s1]) / det
    };
    // inverse = transposed cofactor matrix / det (cyclic indexing gives the signed cofactors directly)
    [[c(0, 0), c(1, 0), c(2, 0)], [c(0, 1), c(1, 1), c(2, 1)], [c(0, 2), c(1, 2), c(2, 2)]]
}
