//! CAM16 forward model, transcribed from C. Li, Z. Li, Z. Wang, Y. Xu, M. R. Luo, G. Cui, M. Melgosa, M. H. Brill, M. Pointer,
//! "Comprehensive color solutions: CAM16, CAT16, and CAM16-UCS", Color Res. Appl. 42 (2017), Appendix A (steps 0-7 of the
//! forward model). XYZ on the 0..100 scale of the paper; the viewing-condition dependent quantities are computed here in f64
//! from the paper's formulas (independently of palette's `prepare_parameters`), the per-colour equations in the number type.
//! One transcription choice: J = 100 (A/A_w)^(c z) is written as 100 ((A/A_w)^(c z / 2))^2, the same real function.
use crate::obl::Num;

pub const M16: [[f64; 3]; 3] = [[0.401288, 0.650173, -0.051461], [-0.250268, 1.204414, 0.045854], [-0.002079, 0.048952, 0.953127]];

#[derive(Clone, Copy, Debug)]
pub struct Cond {
    pub f_l: f64,
    pub n: f64,
    pub z: f64,
    pub n_bb: f64,
    pub n_cb: f64,
    pub n_c: f64,
    pub c: f64,
    pub d_rgb: [f64; 3],
    pub a_w: f64,
}

fn compress(f_l: f64, x: f64) -> f64 {
    let p = (f_l * x.abs() / 100.0).powf(0.42);
    400.0 * x.signum() * p / (p + 27.13) + 0.1
}

/// Step 0: quantities that depend on the viewing conditions only. `white` on the 0..100 scale, `surround` = (F, c, N_c).
pub fn conditions(white: [f64; 3], l_a: f64, y_b: f64, surround: (f64, f64, f64)) -> Cond {
    let (f, c, n_c) = surround;
    let rgb_w: Vec<f64> = M16.iter().map(|r| r[0] * white[0] + r[1] * white[1] + r[2] * white[2]).collect();
    let d = (f * (1.0 - (1.0 / 3.6) * ((-l_a - 42.0) / 92.0).exp())).clamp(0.0, 1.0);
    let d_rgb = [d * white[1] / rgb_w[0] + 1.0 - d, d * white[1] / rgb_w[1] + 1.0 - d, d * white[1] / rgb_w[2] + 1.0 - d];
    let k = 1.0 / (5.0 * l_a + 1.0);
    let f_l = 0.2 * k.powi(4) * (5.0 * l_a) + 0.1 * (1.0 - k.powi(4)).powi(2) * (5.0 * l_a).cbrt();
    let n = y_b / white[1];
    let z = 1.48 + n.sqrt();
    let n_bb = 0.725 * (1.0 / n).powf(0.2);
    let aw: Vec<f64> = (0..3).map(|i| compress(f_l, d_rgb[i] * rgb_w[i])).collect();
    let a_w = (2.0 * aw[0] + aw[1] + aw[2] / 20.0 - 0.305) * n_bb;
    Cond { f_l, n, z, n_bb, n_cb: n_bb, n_c, c, d_rgb, a_w }
}

pub struct Forward<N> {
    pub j: N,
    pub q: N,
    pub c: N,
    pub m: N,
    pub s: N,
    /// redness-greenness a, yellowness-blueness b (hue = atan2(b, a))
    pub a: N,
    pub b: N,
}

/// Steps 1-7 for one colour (X, Y, Z on the 0..100 scale).
pub fn forward<N: Num>(x: N, y: N, z: N, k: &Cond) -> Forward<N> {
    // step 1-2: cone responses, chromatic adaptation
    let cone = |i: usize| (N::k(M16[i][0]) * x + N::k(M16[i][1]) * y + N::k(M16[i][2]) * z) * N::k(k.d_rgb[i]);
    // step 3: post-adaptation compression  R_a = 400 sign(R_c) (F_L |R_c| / 100)^0.42 / ((F_L |R_c| / 100)^0.42 + 27.13) + 0.1
    let comp = |r: N| {
        let p = (N::k(k.f_l) * r.abs_() / N::k(100.0)).powf_(N::k(0.42));
        N::k(400.0) * r.signum_() * p / (p + N::k(27.13)) + N::k(0.1)
    };
    let (ra, ga, ba) = (comp(cone(0)), comp(cone(1)), comp(cone(2)));
    // step 4: a, b, hue
    let a = ra - N::k(12.0) * ga / N::k(11.0) + ba / N::k(11.0);
    let b = (ra + ga - N::k(2.0) * ba) / N::k(9.0);
    let h = b.atan2_(a);
    // step 5: eccentricity  e_t = 1/4 [cos(h + 2) + 3.8]
    let e_t = N::k(0.25) * ((h + N::k(2.0)).cos_() + N::k(3.8));
    // step 6: achromatic response, lightness, brightness
    let cap_a = (N::k(2.0) * ra + ga + ba / N::k(20.0) - N::k(0.305)) * N::k(k.n_bb);
    let root = (cap_a / N::k(k.a_w)).powf_(N::k(0.5 * k.c * k.z));
    let j = N::k(100.0) * root * root;
    let q = N::k(4.0 / k.c) * (j / N::k(100.0)).sqrt_() * N::k(k.a_w + 4.0) * N::k(k.f_l.powf(0.25));
    // step 7: chroma, colourfulness, saturation
    let t = N::k(50000.0 / 13.0 * k.n_c * k.n_cb) * e_t * (a * a + b * b).sqrt_() / (ra + ga + N::k(21.0 / 20.0) * ba);
    let c = t.powf_(N::k(0.9)) * (j / N::k(100.0)).sqrt_() * N::k((1.64 - 0.29f64.powf(k.n)).powf(0.73));
    let m = c * N::k(k.f_l.powf(0.25));
    let s = N::k(100.0) * (m / q).sqrt_();
    Forward { j, q, c, m, s, a, b }
}
