//! CIE 15 colorimetry: xyY, L*a*b*, L*u*v* (and polar forms), transcribed from the standard with the exact rational
//! constants epsilon = 216/24389 and kappa = 24389/27 (CIE 15:2004 / Lindbloom "Real-world XYZ<->Lab").
use crate::obl::Num;

pub const EPS: f64 = 216.0 / 24389.0;
pub const KAPPA: f64 = 24389.0 / 27.0;

/// f(t) = cbrt(t) if t > eps else (kappa t + 16)/116
fn f<N: Num>(t: N) -> N {
    N::ite(t.gt(N::k(EPS)), t.cbrt_(), (N::k(KAPPA) * t + N::k(16.0)) / N::k(116.0))
}

pub fn xyz_to_lab<N: Num>(xyz: [N; 3], wp: [f64; 3]) -> [N; 3] {
    let (fx, fy, fz) = (f(xyz[0] / N::k(wp[0])), f(xyz[1] / N::k(wp[1])), f(xyz[2] / N::k(wp[2])));
    [N::k(116.0) * fy - N::k(16.0), N::k(500.0) * (fx - fy), N::k(200.0) * (fy - fz)]
}

/// inverse: fy = (L+16)/116, fx = a/500 + fy, fz = fy - b/200; t = f^3 if f^3 > eps else (116 f - 16)/kappa
/// (for Y: L > kappa*eps ? ((L+16)/116)^3 : L/kappa - the same condition expressed on L)
pub fn lab_to_xyz<N: Num>(lab: [N; 3], wp: [f64; 3]) -> [N; 3] {
    let fy = (lab[0] + N::k(16.0)) / N::k(116.0);
    let fx = lab[1] / N::k(500.0) + fy;
    let fz = fy - lab[2] / N::k(200.0);
    let inv = |f: N| {
        let c = f * f * f;
        N::ite(c.gt(N::k(EPS)), c, (N::k(116.0) * f - N::k(16.0)) / N::k(KAPPA))
    };
    [inv(fx) * N::k(wp[0]), inv(fy) * N::k(wp[1]), inv(fz) * N::k(wp[2])]
}

fn uv_prime<N: Num>(x: N, y: N, z: N) -> (N, N) {
    let d = x + N::k(15.0) * y + N::k(3.0) * z;
    (N::k(4.0) * x / d, N::k(9.0) * y / d)
}

/// L* as for Lab; u* = 13 L (u' - u'n), v* = 13 L (v' - v'n); black (denominator 0) maps to (0,0,0)
pub fn xyz_to_luv<N: Num>(xyz: [N; 3], wp: [f64; 3]) -> [N; 3] {
    let yr = xyz[1] / N::k(wp[1]);
    let l = N::ite(yr.gt(N::k(EPS)), N::k(116.0) * yr.cbrt_() - N::k(16.0), N::k(KAPPA) * yr);
    let (up, vp) = uv_prime(xyz[0], xyz[1], xyz[2]);
    let dn = wp[0] + 15.0 * wp[1] + 3.0 * wp[2];
    let (un, vn) = (4.0 * wp[0] / dn, 9.0 * wp[1] / dn);
    let zero = (xyz[0] + N::k(15.0) * xyz[1] + N::k(3.0) * xyz[2]).eqv(N::k(0.0));
    [N::ite(zero, N::k(0.0), l), N::ite(zero, N::k(0.0), N::k(13.0) * l * (up - N::k(un))), N::ite(zero, N::k(0.0), N::k(13.0) * l * (vp - N::k(vn)))]
}

/// Y = L > kappa*eps ? ((L+16)/116)^3 : L/kappa;  u' = u/(13L) + u'n, v' = v/(13L) + v'n;  X = Y 9u'/(4v'), Z = Y (12 - 3u' - 20v')/(4v')
pub fn luv_to_xyz<N: Num>(luv: [N; 3], wp: [f64; 3]) -> [N; 3] {
    let l = luv[0];
    let t = (l + N::k(16.0)) / N::k(116.0);
    let y = N::ite(l.gt(N::k(KAPPA * EPS)), t * t * t, l / N::k(KAPPA)) * N::k(wp[1]);
    let dn = wp[0] + 15.0 * wp[1] + 3.0 * wp[2];
    let (un, vn) = (4.0 * wp[0] / dn, 9.0 * wp[1] / dn);
    let up = luv[1] / (N::k(13.0) * l) + N::k(un);
    let vp = luv[2] / (N::k(13.0) * l) + N::k(vn);
    let x = y * N::k(9.0) * up / (N::k(4.0) * vp);
    let z = y * (N::k(12.0) - N::k(3.0) * up - N::k(20.0) * vp) / (N::k(4.0) * vp);
    [x, y, z]
}

/// x = X/(X+Y+Z), y = Y/(X+Y+Z), Y
pub fn xyz_to_yxy<N: Num>(xyz: [N; 3]) -> [N; 3] {
    let s = xyz[0] + xyz[1] + xyz[2];
    [xyz[0] / s, xyz[1] / s, xyz[1]]
}

/// X = x Y / y, Z = (1 - x - y) Y / y
pub fn yxy_to_xyz<N: Num>(yxy: [N; 3]) -> [N; 3] {
    let (x, y, luma) = (yxy[0], yxy[1], yxy[2]);
    [x * luma / y, luma, (N::k(1.0) - x - y) * luma / y]
}
