//! Oklab (B. Ottosson, "A perceptual color space for image processing", 2020-12-24, updated matrices of 2021-01-25).
use crate::obl::Num;

/// XYZ (D65) -> LMS
pub const M1: [f64; 9] = [0.8189330101, 0.3618667424, -0.1288597137, 0.0329845436, 0.9293118715, 0.0361456387, 0.0482003018, 0.2643662691, 0.6338517070];
/// LMS' -> Lab
pub const M2: [f64; 9] = [0.2104542553, 0.7936177850, -0.0040720468, 1.9779984951, -2.4285922050, 0.4505937099, 0.0259040371, 0.7827717662, -0.8086757660];
/// linear sRGB -> LMS (from the reference C code)
pub const RGB_LMS: [f64; 9] = [0.4122214708, 0.5363325363, 0.0514459929, 0.2119034982, 0.6806995451, 0.1073969566, 0.0883024619, 0.2817188376, 0.6299787005];
/// LMS' -> ... inverse matrices of the reference C code (oklab -> l'm's', lms -> linear sRGB)
pub const LAB_LMS: [f64; 9] = [1.0, 0.3963377774, 0.2158037573, 1.0, -0.1055613458, -0.0638541728, 1.0, -0.0894841775, -1.2914855480];
pub const LMS_RGB: [f64; 9] = [4.0767416621, -3.3077115913, 0.2309699292, -1.2684380046, 2.6097574011, -0.3413193965, -0.0041960863, -0.7034186147, 1.7076147010];

pub fn mul<N: Num>(m: &[f64; 9], v: [N; 3]) -> [N; 3] {
    [
        N::k(m[0]) * v[0] + N::k(m[1]) * v[1] + N::k(m[2]) * v[2],
        N::k(m[3]) * v[0] + N::k(m[4]) * v[1] + N::k(m[5]) * v[2],
        N::k(m[6]) * v[0] + N::k(m[7]) * v[1] + N::k(m[8]) * v[2],
    ]
}

pub fn xyz_to_oklab<N: Num>(xyz: [N; 3]) -> [N; 3] {
    let lms = mul(&M1, xyz);
    mul(&M2, [lms[0].cbrt_(), lms[1].cbrt_(), lms[2].cbrt_()])
}
pub fn linear_srgb_to_oklab<N: Num>(rgb: [N; 3]) -> [N; 3] {
    let lms = mul(&RGB_LMS, rgb);
    mul(&M2, [lms[0].cbrt_(), lms[1].cbrt_(), lms[2].cbrt_()])
}
pub fn oklab_to_linear_srgb<N: Num>(lab: [N; 3]) -> [N; 3] {
    let l = mul(&LAB_LMS, lab);
    mul(&LMS_RGB, [l[0] * l[0] * l[0], l[1] * l[1] * l[1], l[2] * l[2] * l[2]])
}

fn inv3(m: &[f64; 9]) -> [f64; 9] {
    let det = m[0] * (m[4] * m[8] - m[5] * m[7]) - m[1] * (m[3] * m[8] - m[5] * m[6]) + m[2] * (m[3] * m[7] - m[4] * m[6]);
    [
        (m[4] * m[8] - m[5] * m[7]) / det, (m[2] * m[7] - m[1] * m[8]) / det, (m[1] * m[5] - m[2] * m[4]) / det,
        (m[5] * m[6] - m[3] * m[8]) / det, (m[0] * m[8] - m[2] * m[6]) / det, (m[2] * m[3] - m[0] * m[5]) / det,
        (m[3] * m[7] - m[4] * m[6]) / det, (m[1] * m[6] - m[0] * m[7]) / det, (m[0] * m[4] - m[1] * m[3]) / det,
    ]
}
/// Oklab -> XYZ (D65) by the definition: l'm's' = M2^-1 Lab, cube, XYZ = M1^-1 lms (inverses of the published matrices,
/// computed here in f64)
pub fn oklab_to_xyz<N: Num>(lab: [N; 3]) -> [N; 3] {
    let l = mul(&inv3(&M2), lab);
    mul(&inv3(&M1), [l[0] * l[0] * l[0], l[1] * l[1] * l[1], l[2] * l[2] * l[2]])
}
