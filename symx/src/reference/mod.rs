//! Independent transcriptions of the published definitions (generic over `Num`, so they run symbolically and natively).
pub mod rgbspace;
pub mod w3c_blend;
