//! Independent transcriptions of the published definitions (generic over `Num`, so they run symbolically and natively).
pub mod cam16;
pub mod cie;
pub mod ciede2000;
pub mod hexcone;
pub mod oklab;
pub mod rgbspace;
pub mod transfer;
pub mod w3c_blend;
