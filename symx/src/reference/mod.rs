//! Independent transcriptions of the published definitions (generic over `Num`, so they run symbolically and natively).
pub mod rgbspace;
