//! CIEDE2000, transcribed from G. Sharma, W. Wu, E. N. Dalal, "The CIEDE2000 Color-Difference Formula: Implementation Notes,
//! Supplementary Test Data, and Mathematical Observations", Color Res. Appl. 30 (2005), equations (2)-(22), kL = kC = kH = 1.
use crate::obl::Num;

const PI: f64 = core::f64::consts::PI;

fn deg<N: Num>(rad: N) -> N {
    rad * N::k(180.0 / PI)
}
fn rad<N: Num>(d: N) -> N {
    d * N::k(PI / 180.0)
}

/// (5)-(7): h' = atan2(b, a') in degrees in [0, 360), 0 when a' = b = 0
fn hp<N: Num>(b: N, ap: N) -> N {
    let h = deg(b.atan2_(ap));
    N::ite(b.eqv(N::k(0.0)) & ap.eqv(N::k(0.0)), N::k(0.0), N::ite(h.lt(N::k(0.0)), h + N::k(360.0), h))
}

pub fn ciede2000<N: Num>(l1: N, a1: N, b1: N, l2: N, a2: N, b2: N) -> N {
    let k25_7 = N::k(6103515625.0);
    // (2) C*ab, (3) mean, (4) G
    let c1 = (a1 * a1 + b1 * b1).sqrt_();
    let c2 = (a2 * a2 + b2 * b2).sqrt_();
    let cb = (c1 + c2) / N::k(2.0);
    let cb7 = cb * cb * cb * cb * cb * cb * cb;
    let g = N::k(0.5) * (N::k(1.0) - (cb7 / (cb7 + k25_7)).sqrt_());
    // (5) a', (6) C', (7) h'
    let (a1p, a2p) = ((N::k(1.0) + g) * a1, (N::k(1.0) + g) * a2);
    let c1p = (a1p * a1p + b1 * b1).sqrt_();
    let c2p = (a2p * a2p + b2 * b2).sqrt_();
    let (h1p, h2p) = (hp(b1, a1p), hp(b2, a2p));
    // (8) dL', (9) dC', (10) dh', (11) dH'
    let dl = l2 - l1;
    let dc = c2p - c1p;
    let zero_chroma = (c1p * c2p).eqv(N::k(0.0));
    let d = h2p - h1p;
    let dh = N::ite(zero_chroma, N::k(0.0), N::ite(d.abs_().le(N::k(180.0)), d, N::ite(N::k(180.0).lt(d), d - N::k(360.0), d + N::k(360.0))));
    let dbh = N::k(2.0) * (c1p * c2p).sqrt_() * rad(dh / N::k(2.0)).sin_();
    // (12) L-bar', (13) C-bar', (14) h-bar'
    let lb = (l1 + l2) / N::k(2.0);
    let cbp = (c1p + c2p) / N::k(2.0);
    let s = h1p + h2p;
    let hb = N::ite(
        zero_chroma,
        s,
        N::ite(d.abs_().le(N::k(180.0)), s / N::k(2.0), N::ite(s.lt(N::k(360.0)), (s + N::k(360.0)) / N::k(2.0), (s - N::k(360.0)) / N::k(2.0))),
    );
    // (15) T, (16) d-theta, (17) RC, (18) SL, (19) SC, (20) SH, (21) RT
    let t = N::k(1.0) - N::k(0.17) * rad(hb - N::k(30.0)).cos_() + N::k(0.24) * rad(N::k(2.0) * hb).cos_() + N::k(0.32) * rad(N::k(3.0) * hb + N::k(6.0)).cos_()
        - N::k(0.20) * rad(N::k(4.0) * hb - N::k(63.0)).cos_();
    let q = (hb - N::k(275.0)) / N::k(25.0);
    let dtheta = N::k(30.0) * (-(q * q)).exp_();
    let cbp7 = cbp * cbp * cbp * cbp * cbp * cbp * cbp;
    let rc = N::k(2.0) * (cbp7 / (cbp7 + k25_7)).sqrt_();
    let l50 = (lb - N::k(50.0)) * (lb - N::k(50.0));
    let sl = N::k(1.0) + N::k(0.015) * l50 / (N::k(20.0) + l50).sqrt_();
    let sc = N::k(1.0) + N::k(0.045) * cbp;
    let sh = N::k(1.0) + N::k(0.015) * cbp * t;
    let rt = -(rad(N::k(2.0) * dtheta)).sin_() * rc;
    // (22)
    let (x, y, z) = (dl / sl, dc / sc, dbh / sh);
    (x * x + y * y + z * z + rt * y * z).sqrt_()
}
