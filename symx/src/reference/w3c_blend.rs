//! W3C Compositing and Blending Level 1 (https://www.w3.org/TR/compositing-1/), transcribed from the specification.
//! Cb = backdrop colour, Cs = source colour (both straight, in [0,1]); ab, a_s their alphas.
use crate::obl::Num;

pub const MODES: [&str; 11] =
    ["multiply", "screen", "overlay", "darken", "lighten", "dodge", "burn", "hard_light", "soft_light", "difference", "exclusion"];
pub const COMMUTATIVE: [&str; 6] = ["multiply", "screen", "darken", "lighten", "difference", "exclusion"];

fn multiply<N: Num>(cb: N, cs: N) -> N {
    cb * cs
}
fn screen<N: Num>(cb: N, cs: N) -> N {
    cb + cs - cb * cs
}
fn hard_light<N: Num>(cb: N, cs: N) -> N {
    // if(Cs <= 0.5) B = Multiply(Cb, 2 x Cs) else B = Screen(Cb, 2 x Cs - 1)
    N::ite(cs.le(N::k(0.5)), multiply(cb, N::k(2.0) * cs), screen(cb, N::k(2.0) * cs - N::k(1.0)))
}

/// B(Cb, Cs) of section 9.1 (separable blend modes)
pub fn b<N: Num>(mode: &str, cb: N, cs: N) -> N {
    let one = N::k(1.0);
    let zero = N::k(0.0);
    match mode {
        "multiply" => multiply(cb, cs),
        "screen" => screen(cb, cs),
        // B(Cb, Cs) = HardLight(Cs, Cb): "Overlay is the inverse of the hard-light blend mode"
        "overlay" => hard_light(cs, cb),
        "darken" => cb.min_(cs),
        "lighten" => cb.max_(cs),
        // if(Cb == 0) B = 0 else if(Cs == 1) B = 1 else B = min(1, Cb / (1 - Cs))
        "dodge" => N::ite(cb.eqv(zero), zero, N::ite(cs.eqv(one), one, one.min_(cb / (one - cs)))),
        // if(Cb == 1) B = 1 else if(Cs == 0) B = 0 else B = 1 - min(1, (1 - Cb) / Cs)
        "burn" => N::ite(cb.eqv(one), one, N::ite(cs.eqv(zero), zero, one - one.min_((one - cb) / cs))),
        "hard_light" => hard_light(cb, cs),
        "soft_light" => {
            // if(Cs <= 0.5) B = Cb - (1 - 2 x Cs) x Cb x (1 - Cb) else B = Cb + (2 x Cs - 1) x (D(Cb) - Cb)
            // D(Cb) = if(Cb <= 0.25) ((16 * Cb - 12) x Cb + 4) x Cb else sqrt(Cb)
            let d = N::ite(cb.le(N::k(0.25)), ((N::k(16.0) * cb - N::k(12.0)) * cb + N::k(4.0)) * cb, cb.sqrt_());
            N::ite(cs.le(N::k(0.5)), cb - (one - N::k(2.0) * cs) * cb * (one - cb), cb + (N::k(2.0) * cs - one) * (d - cb))
        }
        "difference" => (cb - cs).abs_(),
        "exclusion" => cb + cs - N::k(2.0) * cb * cs,
        _ => unreachable!(),
    }
}

/// Section 9 / 5.1, premultiplied: co = cs x (1 - ab) + cb x (1 - as) + as x ab x B(Cb, Cs); ao = as + ab x (1 - as)
pub fn blend_premultiplied<N: Num>(mode: &str, cb_straight: N, ab: N, cs_straight: N, a_s: N) -> (N, N) {
    let one = N::k(1.0);
    let (cs, cb) = (cs_straight * a_s, cb_straight * ab);
    let co = cs * (one - ab) + cb * (one - a_s) + a_s * ab * b(mode, cb_straight, cs_straight);
    (co, a_s + ab * (one - a_s))
}

pub const OPERATORS: [&str; 6] = ["over", "inside", "outside", "atop", "xor", "plus"];

/// Porter-Duff operators, section 5 ("co = as x Fa x Cs + ab x Fb x Cb", "ao = as x Fa + ab x Fb"), with premultiplied cs, cb.
/// over: Fa = 1, Fb = 1 - as; inside = source-in: Fa = ab, Fb = 0; outside = source-out: Fa = 1 - ab, Fb = 0;
/// atop = source-atop: Fa = ab, Fb = 1 - as; xor: Fa = 1 - ab, Fb = 1 - as; plus = lighter: Fa = 1, Fb = 1 (alpha clamped to 1).
pub fn compose_premultiplied<N: Num>(op: &str, cs: N, a_s: N, cb: N, ab: N) -> (N, N) {
    let one = N::k(1.0);
    let (fa, fb) = match op {
        "over" => (one, one - a_s),
        "inside" => (ab, N::k(0.0)),
        "outside" => (one - ab, N::k(0.0)),
        "atop" => (ab, one - a_s),
        "xor" => (one - ab, one - a_s),
        "plus" => (one, one),
        _ => unreachable!(),
    };
    let co = fa * cs + fb * cb;
    let ao = fa * a_s + fb * ab;
    (co, if op == "plus" { ao.min_(one) } else { ao })
}
