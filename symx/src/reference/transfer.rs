//! Transfer curves of the RGB standards, from the published constants.
use crate::obl::Num;

/// IEC 61966-2-1
pub fn srgb_encode<N: Num>(x: N) -> N {
    N::ite(x.le(N::k(0.0031308)), N::k(12.92) * x, N::k(1.055) * x.powf_(N::k(1.0 / 2.4)) - N::k(0.055))
}
pub fn srgb_decode<N: Num>(v: N) -> N {
    N::ite(v.le(N::k(0.04045)), v / N::k(12.92), ((v + N::k(0.055)) / N::k(1.055)).powf_(N::k(2.4)))
}
pub const REC_ALPHA: f64 = 1.09929682680944;
pub const REC_BETA: f64 = 0.018053968510807;
/// ITU-R BT.709 / BT.2020 OETF
pub fn rec_encode<N: Num>(x: N) -> N {
    N::ite(x.lt(N::k(REC_BETA)), N::k(4.5) * x, N::k(REC_ALPHA) * x.powf_(N::k(0.45)) - N::k(REC_ALPHA - 1.0))
}
pub fn rec_decode<N: Num>(v: N) -> N {
    N::ite(v.lt(N::k(4.5 * REC_BETA)), v / N::k(4.5), ((v + N::k(REC_ALPHA - 1.0)) / N::k(REC_ALPHA)).powf_(N::k(1.0 / 0.45)))
}
/// Adobe RGB (1998): gamma 563/256
pub fn adobe_encode<N: Num>(x: N) -> N {
    x.powf_(N::k(256.0 / 563.0))
}
pub fn adobe_decode<N: Num>(v: N) -> N {
    v.powf_(N::k(563.0 / 256.0))
}
/// SMPTE RP 431-2: gamma 2.6
pub fn p3_encode<N: Num>(x: N) -> N {
    x.powf_(N::k(1.0 / 2.6))
}
pub fn p3_decode<N: Num>(v: N) -> N {
    v.powf_(N::k(2.6))
}
/// ROMM RGB (ISO 22028-2): 16x below 1/512, gamma 1.8
pub fn prophoto_encode<N: Num>(x: N) -> N {
    N::ite(x.lt(N::k(1.0 / 512.0)), N::k(16.0) * x, x.powf_(N::k(1.0 / 1.8)))
}
pub fn prophoto_decode<N: Num>(v: N) -> N {
    N::ite(v.lt(N::k(1.0 / 32.0)), v / N::k(16.0), v.powf_(N::k(1.8)))
}
