//! RGB <-> XYZ matrix of a standard, derived from its published primaries and white point
//! (Lindbloom, "RGB/XYZ Matrices"): M = [Xr Xg Xb; Yr Yg Yb; Zr Zg Zb] * diag(S), S = [XYZ of primaries]^-1 * W.
//! Concrete f64 arithmetic; the chromaticities below are the published ones.

pub struct Std {
    pub name: &'static str,
    pub r: (f64, f64),
    pub g: (f64, f64),
    pub b: (f64, f64),
    pub w: (f64, f64),
    pub cite: &'static str,
}

pub const D65: (f64, f64) = (0.31270, 0.32900);
pub const D50: (f64, f64) = (0.34567, 0.35850);
pub const DCI: (f64, f64) = (0.314, 0.351);

pub fn standards() -> Vec<Std> {
    vec![
        Std { name: "srgb", r: (0.64, 0.33), g: (0.30, 0.60), b: (0.15, 0.06), w: D65, cite: "IEC 61966-2-1 / BT.709 primaries, D65" },
        Std { name: "adobe", r: (0.64, 0.33), g: (0.21, 0.71), b: (0.15, 0.06), w: D65, cite: "Adobe RGB (1998)" },
        Std { name: "rec2020", r: (0.708, 0.292), g: (0.170, 0.797), b: (0.131, 0.046), w: D65, cite: "ITU-R BT.2020" },
        Std { name: "displayp3", r: (0.680, 0.320), g: (0.265, 0.690), b: (0.150, 0.060), w: D65, cite: "Display P3 (SMPTE EG 432-1 primaries, D65)" },
        Std { name: "dcip3", r: (0.680, 0.320), g: (0.265, 0.690), b: (0.150, 0.060), w: DCI, cite: "SMPTE RP 431-2 (DCI white)" },
        Std { name: "prophoto", r: (0.7347, 0.2653), g: (0.1596, 0.8404), b: (0.0366, 0.0001), w: D50, cite: "ROMM RGB (ISO 22028-2), D50" },
    ]
}

fn xyz_of(c: (f64, f64)) -> [f64; 3] {
    [c.0 / c.1, 1.0, (1.0 - c.0 - c.1) / c.1]
}

pub fn inv3(m: [f64; 9]) -> [f64; 9] {
    let [a, b, c, d, e, f, g, h, i] = m;
    let det = a * (e * i - f * h) - b * (d * i - f * g) + c * (d * h - e * g);
    [
        (e * i - f * h) / det, (c * h - b * i) / det, (b * f - c * e) / det,
        (f * g - d * i) / det, (a * i - c * g) / det, (c * d - a * f) / det,
        (d * h - e * g) / det, (b * g - a * h) / det, (a * e - b * d) / det,
    ]
}

/// Derives the RGB->XYZ matrix from the chromaticities, with the white point's XYZ given (Y = 1).
pub fn rgb_to_xyz(s: &Std, white_xyz: [f64; 3]) -> [f64; 9] {
    let (r, g, b) = (xyz_of(s.r), xyz_of(s.g), xyz_of(s.b));
    let p = [r[0], g[0], b[0], r[1], g[1], b[1], r[2], g[2], b[2]];
    let pi = inv3(p);
    let w = white_xyz;
    let sc = [
        pi[0] * w[0] + pi[1] * w[1] + pi[2] * w[2],
        pi[3] * w[0] + pi[4] * w[1] + pi[5] * w[2],
        pi[6] * w[0] + pi[7] * w[1] + pi[8] * w[2],
    ];
    [p[0] * sc[0], p[1] * sc[1], p[2] * sc[2], p[3] * sc[0], p[4] * sc[1], p[5] * sc[2], p[6] * sc[0], p[7] * sc[1], p[8] * sc[2]]
}

pub fn white_xyz(w: (f64, f64)) -> [f64; 3] {
    xyz_of(w)
}
