//! HSV / HSL (A. R. Smith, "Color Gamut Transform Pairs", 1978; the geometric definitions as on the usual reference
//! tables) and HWB (Smith & Lyons 1996), hue in degrees.
use crate::obl::Num;

/// chroma C, hue sector: (r,g,b) = (C,X,0),(X,C,0),(0,C,X),(0,X,C),(X,0,C),(C,0,X) + m with X = C (1 - |H' mod 2 - 1|)
fn from_chroma<N: Num>(h_deg: N, c: N, m: N) -> [N; 3] {
    // H' = H/60 normalised to [0,6)
    let hp = h_deg / N::k(60.0);
    let hp = hp - (hp / N::k(6.0)).floor_() * N::k(6.0);
    let md2 = hp - (hp / N::k(2.0)).floor_() * N::k(2.0);
    let x = c * (N::k(1.0) - (md2 - N::k(1.0)).abs_());
    let z = N::k(0.0);
    let sel = |v0: N, v1: N, v2: N, v3: N, v4: N, v5: N| {
        N::ite(hp.lt(N::k(1.0)), v0, N::ite(hp.lt(N::k(2.0)), v1, N::ite(hp.lt(N::k(3.0)), v2, N::ite(hp.lt(N::k(4.0)), v3, N::ite(hp.lt(N::k(5.0)), v4, v5)))))
    };
    [sel(c, x, z, z, x, c) + m, sel(x, c, c, x, z, z) + m, sel(z, z, x, c, c, x) + m]
}

/// C = V S, m = V - C
pub fn hsv_to_rgb<N: Num>(h: N, s: N, v: N) -> [N; 3] {
    let c = v * s;
    from_chroma(h, c, v - c)
}

/// C = (1 - |2L - 1|) S, m = L - C/2
pub fn hsl_to_rgb<N: Num>(h: N, s: N, l: N) -> [N; 3] {
    let c = (N::k(1.0) - (N::k(2.0) * l - N::k(1.0)).abs_()) * s;
    from_chroma(h, c, l - c / N::k(2.0))
}

/// V = max, C = max - min, S = C/V (0 if V = 0); hue: 60 * ((g-b)/C mod 6 | (b-r)/C + 2 | (r-g)/C + 4), 0 if C = 0.
/// Returned as (hue in (-180,180] or [0,360): compared modulo 360 by the caller, saturation, value, chroma).
pub fn rgb_to_hsv<N: Num>(r: N, g: N, b: N) -> (N, N, N, N) {
    let mx = r.max_(g).max_(b);
    let mn = r.min_(g).min_(b);
    let c = mx - mn;
    let h = N::ite(
        c.eqv(N::k(0.0)),
        N::k(0.0),
        N::ite(mx.eqv(r), N::k(60.0) * ((g - b) / c), N::ite(mx.eqv(g), N::k(60.0) * ((b - r) / c + N::k(2.0)), N::k(60.0) * ((r - g) / c + N::k(4.0)))),
    );
    let s = N::ite(mx.eqv(N::k(0.0)), N::k(0.0), c / mx);
    (h, s, mx, c)
}

/// L = (max + min)/2, S = C / (1 - |2L - 1|) (0 if L = 0 or 1)
pub fn rgb_to_hsl<N: Num>(r: N, g: N, b: N) -> (N, N, N, N) {
    let (h, _, mx, c) = rgb_to_hsv(r, g, b);
    let mn = mx - c;
    let l = (mx + mn) / N::k(2.0);
    let d = N::k(1.0) - (N::k(2.0) * l - N::k(1.0)).abs_();
    let s = N::ite(d.eqv(N::k(0.0)), N::k(0.0), c / d);
    (h, s, l, c)
}

/// W = (1 - S) V, B = 1 - V
pub fn hsv_to_hwb<N: Num>(s: N, v: N) -> (N, N) {
    ((N::k(1.0) - s) * v, N::k(1.0) - v)
}

/// V = 1 - B, S = 1 - W/V (0 if V = 0); for W + B > 1 the pair is first normalised to W/(W+B), B/(W+B) (CSS Color 4)
pub fn hwb_to_hsv<N: Num>(w: N, b: N) -> (N, N) {
    let v = N::k(1.0) - b;
    (N::ite(v.eqv(N::k(0.0)), N::k(0.0), N::k(1.0) - w / v), v)
}
