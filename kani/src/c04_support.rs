//! C04 helpers: the obligations of "zero-copy casts are lossless, length-exact and layout-sound" written once, generically
//! over the colour type, and instantiated by the generated harnesses in `c04_gen.rs`.
//!
//! A colour type takes part through [`Fields`]: `make` builds a value by *naming the fields* (public constructor or struct
//! literal, never a cast) from the components listed in declared field order with alpha last, `fields` reads them back by
//! name. Every obligation compares what the cast functions deliver with that by-name view, bit for bit.
use core::mem::{align_of, size_of};
use palette::cast::{self, ArrayCast, UintCast};
use palette::ArrayExt;

/// Component types of the property's quantifier with a bit-exact comparison key (floats: `to_bits`, so NaN payloads and
/// the sign of zero count).
pub trait Comp: Copy + kani::Arbitrary + 'static {
    fn bits(self) -> u64;
}
impl Comp for u8 {
    fn bits(self) -> u64 { self as u64 }
}
impl Comp for u16 {
    fn bits(self) -> u64 { self as u64 }
}
impl Comp for u32 {
    fn bits(self) -> u64 { self as u64 }
}
impl Comp for f32 {
    fn bits(self) -> u64 { self.to_bits() as u64 }
}
impl Comp for f64 {
    fn bits(self) -> u64 { self.to_bits() }
}

/// By-name access to the components of a cast-able colour type, in declared field order with alpha last.
pub trait Fields<C: Comp, const N: usize>: ArrayCast<Array = [C; N]> + Copy {
    fn make(f: [C; N]) -> Self;
    fn fields(&self) -> [C; N];
}

/// By-name access to the integer of a `UintCast` type.
pub trait UFields<U: Copy + Eq + kani::Arbitrary>: UintCast<Uint = U> + Copy {
    fn make(u: U) -> Self;
    fn get(&self) -> U;
}

#[inline(always)]
pub fn same<C: Comp, const N: usize>(a: &[C; N], b: &[C; N]) -> bool {
    let mut ok = true;
    let mut i = 0;
    while i < N {
        ok &= a[i].bits() == b[i].bits();
        i += 1;
    }
    ok
}

#[inline(always)]
pub fn addr<T: ?Sized>(p: *const T) -> usize {
    p as *const u8 as usize
}

pub fn any_fields<C: Comp, const N: usize, const K: usize>() -> [[C; N]; K] {
    kani::any()
}

pub fn colors<T: Fields<C, N>, C: Comp, const N: usize, const K: usize>(fs: &[[C; N]; K]) -> [T; K] {
    core::array::from_fn(|i| T::make(fs[i]))
}

/// `size_of`/`align_of` of the type and of its declared array agree, the array has `n` items and is exactly `n` items big.
pub fn layout_ok<T: ArrayCast>(n: usize) -> bool {
    size_of::<T>() == size_of::<T::Array>()
        && align_of::<T>() == align_of::<T::Array>()
        && <T::Array as ArrayExt>::LENGTH == n
        && size_of::<T::Array>() == n * size_of::<<T::Array as ArrayExt>::Item>()
        && align_of::<T::Array>() == align_of::<<T::Array as ArrayExt>::Item>()
}

/// Compile-time witness that `T::Array` is exactly `[C; N]`.
pub fn array_is<T: ArrayCast<Array = [C; N]>, C, const N: usize>() -> bool {
    layout_ok::<T>(N)
}

pub fn uint_layout_ok<T: UintCast>() -> bool {
    size_of::<T>() == size_of::<T::Uint>() && align_of::<T>() == align_of::<T::Uint>()
}

/// Compile-time witness that `T::Uint` is exactly `U`.
pub fn uint_is<T: UintCast<Uint = U>, U>() -> bool {
    uint_layout_ok::<T>()
}

// ------------------------------------------------------------------------------------------------------------------
// single colour: by value, &, &mut, Box
// ------------------------------------------------------------------------------------------------------------------

pub fn check_value<T: Fields<C, N>, C: Comp, const N: usize>() {
    let f: [C; N] = kani::any();
    kani::cover!(true);
    let t = T::make(f);
    let a: [C; N] = cast::into_array(t);
    assert!(same(&a, &f));
    let u: T = cast::from_array(f);
    assert!(same(&u.fields(), &f));
    let rt: T = cast::from_array(cast::into_array(t));
    assert!(same(&rt.fields(), &t.fields()));
    let ra: [C; N] = cast::into_array(cast::from_array::<T>(f));
    assert!(same(&ra, &f));
}

pub fn check_ref<T: Fields<C, N>, C: Comp, const N: usize>() {
    let f: [C; N] = kani::any();
    kani::cover!(true);
    let t = T::make(f);
    let r: &[C; N] = cast::into_array_ref(&t);
    assert!(addr(r) == addr(&t));
    assert!(same(r, &f));
    let b: &T = cast::from_array_ref(&f);
    assert!(addr(b) == addr(&f));
    assert!(same(&b.fields(), &f));
    let rr: &T = cast::from_array_ref(cast::into_array_ref(&t));
    assert!(addr(rr) == addr(&t) && same(&rr.fields(), &f));
}

pub fn check_mut<T: Fields<C, N>, C: Comp, const N: usize>() {
    let f: [C; N] = kani::any();
    let g: [C; N] = kani::any();
    kani::cover!(true);
    let mut t = T::make(f);
    let pt = addr(&t);
    let m: &mut [C; N] = cast::into_array_mut(&mut t);
    assert!(addr(m) == pt);
    assert!(same(m, &f));
    *m = g; // write through the array view, read by field name
    assert!(same(&t.fields(), &g));
    let mut a = f;
    let pa = addr(&a);
    let mt: &mut T = cast::from_array_mut(&mut a);
    assert!(addr(mt) == pa);
    assert!(same(&mt.fields(), &f));
    *mt = T::make(g); // write by field name, read through the array
    assert!(same(&a, &g));
}

pub fn check_box<T: Fields<C, N>, C: Comp, const N: usize>() {
    let f: [C; N] = kani::any();
    kani::cover!(true);
    let bt: Box<T> = Box::new(T::make(f));
    let p = addr(&*bt);
    let ba: Box<[C; N]> = cast::into_array_box(bt);
    assert!(addr(&*ba) == p);
    assert!(same(&ba, &f));
    let bt2: Box<T> = cast::from_array_box(ba);
    assert!(addr(&*bt2) == p);
    assert!(same(&bt2.fields(), &f));
    drop(bt2); // deallocation with T's layout of what was allocated as T and reinterpreted twice
    let ba: Box<[C; N]> = Box::new(f);
    let p = addr(&*ba);
    let bt: Box<T> = cast::from_array_box(ba);
    assert!(addr(&*bt) == p);
    assert!(same(&bt.fields(), &f));
    drop(bt); // allocated as [C; N], freed as T
    let bt: Box<T> = Box::new(T::make(f));
    let ba: Box<[C; N]> = cast::into_array_box(bt);
    drop(ba); // allocated as T, freed as [C; N]
}

/// The `From`/`AsRef`/`AsMut`/`TryFrom` front ends that `impl_array_casts!` generates for one colour type
/// (`macros/casting.rs`), compared with the free functions. `$KC` = `N + 1`.
macro_rules! c04_single_front_ends {
    ($T:ty, $C:ty, $N:expr, $KC:expr) => {{
        use core::convert::TryFrom;
        use $crate::c04_support::{addr, same, Comp, Fields};
        let f: [$C; $N] = kani::any();
        let g: [$C; $N] = kani::any();
        let buf: [$C; $KC] = kani::any();
        let len: usize = kani::any();
        kani::assume(len <= $KC);
        kani::cover!(len == $N);
        kani::cover!(len != $N);
        let t = <$T as Fields<$C, $N>>::make(f);
        // by value
        let a: [$C; $N] = t.into();
        assert!(same(&a, &f));
        let u: $T = f.into();
        assert!(same(&u.fields(), &f));
        // shared references
        let r: &[$C; $N] = t.as_ref();
        assert!(addr(r) == addr(&t) && same(r, &f));
        let s: &[$C] = t.as_ref();
        assert!(addr(s) == addr(&t) && s.len() == $N);
        let r: &[$C; $N] = (&t).into();
        assert!(addr(r) == addr(&t));
        let s: &[$C] = (&t).into();
        assert!(addr(s) == addr(&t) && s.len() == $N);
        let b: &$T = f.as_ref();
        assert!(addr(b) == addr(&f) && same(&b.fields(), &f));
        let b: &$T = (&f).into();
        assert!(addr(b) == addr(&f));
        // &[C] -> &T: Ok exactly for slices of N components
        let sl = &buf[..len];
        match <&$T>::try_from(sl) {
            Ok(c) => {
                assert!(len == $N);
                assert!(addr(c) == addr(sl));
                let cf = c.fields();
                let mut j = 0;
                while j < $N {
                    assert!(cf[j].bits() == buf[j].bits());
                    j += 1;
                }
            }
            Err(_) => assert!(len != $N),
        }
        // mutable references
        let mut t = t;
        let pt = addr(&t);
        {
            let m: &mut [$C; $N] = t.as_mut();
            assert!(addr(m) == pt);
            *m = g;
        }
        assert!(same(&t.fields(), &g));
        {
            let m: &mut [$C] = t.as_mut();
            assert!(addr(m) == pt && m.len() == $N);
            m[0] = f[0];
        }
        assert!(t.fields()[0].bits() == f[0].bits());
        {
            let m: &mut [$C; $N] = (&mut t).into();
            assert!(addr(m) == pt);
        }
        {
            let m: &mut [$C] = (&mut t).into();
            assert!(addr(m) == pt && m.len() == $N);
        }
        let mut a = f;
        let pa = addr(&a);
        {
            let m: &mut $T = a.as_mut();
            assert!(addr(m) == pa);
            *m = <$T as Fields<$C, $N>>::make(g);
        }
        assert!(same(&a, &g));
        {
            let m: &mut $T = (&mut a).into();
            assert!(addr(m) == pa);
        }
        let mut buf = buf;
        let pb = addr(&buf);
        match <&mut $T>::try_from(&mut buf[..len]) {
            Ok(c) => {
                assert!(len == $N);
                assert!(addr(c) == pb);
                *c = <$T as Fields<$C, $N>>::make(g);
            }
            Err(_) => assert!(len != $N),
        }
        if len == $N {
            let mut j = 0;
            while j < $N {
                assert!(buf[j].bits() == g[j].bits());
                j += 1;
            }
        }
        // boxes
        let bt: Box<$T> = Box::new(t);
        let p = addr(&*bt);
        let ba: Box<[$C; $N]> = bt.into();
        assert!(addr(&*ba) == p && same(&ba, &t.fields()));
        let bt: Box<$T> = ba.into();
        assert!(addr(&*bt) == p && same(&bt.fields(), &t.fields()));
        drop(bt);
    }};
}
pub(crate) use c04_single_front_ends;

// ------------------------------------------------------------------------------------------------------------------
// fixed-size arrays of colours, by value
// ------------------------------------------------------------------------------------------------------------------

/// `M` colours, `MN == M * N` components.
pub fn check_arrays<T: Fields<C, N>, C: Comp, const N: usize, const M: usize, const MN: usize>() {
    use palette::cast::{
        ArraysFrom, ArraysInto, ComponentsFrom, ComponentsInto, FromArrays, FromComponents, IntoArrays, IntoComponents,
        TryComponentsInto, TryFromComponents,
    };
    let fs: [[C; N]; M] = kani::any();
    kani::cover!(true);
    let ts: [T; M] = colors(&fs);
    let flat = |i: usize| fs[i / N][i % N];
    let aa: [[C; N]; M] = cast::into_array_array(ts);
    let ca: [C; MN] = cast::into_component_array(ts);
    let ta: [T; M] = cast::from_array_array(fs);
    let tc: [T; M] = cast::from_component_array(ca);
    for i in 0..M {
        assert!(same(&aa[i], &fs[i]));
        assert!(same(&ta[i].fields(), &fs[i]));
        assert!(same(&tc[i].fields(), &fs[i]));
    }
    for i in 0..MN {
        assert!(ca[i].bits() == flat(i).bits());
    }
    // trait front ends
    let aa2: [[C; N]; M] = ts.into_arrays();
    let aa3 = <[[C; N]; M]>::arrays_from(ts);
    let ta2 = <[T; M]>::from_arrays(fs);
    let ta3: [T; M] = fs.arrays_into();
    let ca2: [C; MN] = ts.into_components();
    let ca3 = <[C; MN]>::components_from(ts);
    let tc2 = <[T; M]>::from_components(ca);
    let tc3: [T; M] = ca.components_into();
    let tc4: [T; M] = match <[T; M]>::try_from_components(ca) {
        Ok(v) => v,
        Err(e) => match e {},
    };
    let tc5: [T; M] = match ca.try_components_into() {
        Ok(v) => v,
        Err(e) => {
            let e: core::convert::Infallible = e;
            match e {}
        }
    };
    for i in 0..M {
        assert!(same(&aa2[i], &fs[i]) && same(&aa3[i], &fs[i]));
        assert!(same(&ta2[i].fields(), &fs[i]) && same(&ta3[i].fields(), &fs[i]));
        assert!(same(&tc2[i].fields(), &fs[i]) && same(&tc3[i].fields(), &fs[i]));
        assert!(same(&tc4[i].fields(), &fs[i]) && same(&tc5[i].fields(), &fs[i]));
    }
    for i in 0..MN {
        assert!(ca2[i].bits() == flat(i).bits() && ca3[i].bits() == flat(i).bits());
    }
}

// ------------------------------------------------------------------------------------------------------------------
// borrowed slices: fixed buffer, symbolic length
// ------------------------------------------------------------------------------------------------------------------

/// colours -> arrays / components, shared: `K` colours in the buffer, any prefix.
pub fn check_slice_into<T: Fields<C, N>, C: Comp, const N: usize, const K: usize>() {
    use palette::cast::{ArraysFrom, AsArrays, AsComponents, ComponentsFrom, IntoArrays, IntoComponents};
    let fs: [[C; N]; K] = kani::any();
    let len: usize = kani::any();
    kani::assume(len <= K);
    kani::cover!(len == K);
    kani::cover!(len == 0);
    let buf: [T; K] = colors(&fs);
    let s: &[T] = &buf[..len];
    let a: &[[C; N]] = cast::into_array_slice(s);
    assert!(addr(a) == addr(s) && a.len() == len);
    let c: &[C] = cast::into_component_slice(s);
    assert!(addr(c) == addr(s) && c.len() == len * N);
    for i in 0..K {
        if i < len {
            assert!(same(&a[i], &fs[i]));
            for j in 0..N {
                assert!(c[i * N + j].bits() == fs[i][j].bits());
            }
        }
    }
    // front ends: same pointer and length as the free functions
    let x: &[[C; N]] = s.as_arrays();
    assert!(addr(x) == addr(a) && x.len() == a.len());
    let x: &[[C; N]] = buf.as_arrays();
    assert!(addr(x) == addr(&buf) && x.len() == K);
    let x: &[[C; N]] = s.into_arrays();
    assert!(addr(x) == addr(a) && x.len() == a.len());
    let x: &[[C; N]] = (&buf).into_arrays();
    assert!(addr(x) == addr(&buf) && x.len() == K);
    let x = <&[[C; N]]>::arrays_from(s);
    assert!(addr(x) == addr(a) && x.len() == a.len());
    let y: &[C] = s.as_components();
    assert!(addr(y) == addr(c) && y.len() == c.len());
    let y: &[C] = buf.as_components();
    assert!(addr(y) == addr(&buf) && y.len() == K * N);
    let y: &[C] = s.into_components();
    assert!(addr(y) == addr(c) && y.len() == c.len());
    let y: &[C] = (&buf).into_components();
    assert!(addr(y) == addr(&buf) && y.len() == K * N);
    let y = <&[C]>::components_from(s);
    assert!(addr(y) == addr(c) && y.len() == c.len());
}

/// colours -> arrays / components, mutable, with write-through in both directions.
pub fn check_slice_into_mut<T: Fields<C, N>, C: Comp, const N: usize, const K: usize>() {
    use palette::cast::{ArraysFrom, AsArraysMut, AsComponentsMut, ComponentsFrom, IntoArrays, IntoComponents};
    let fs: [[C; N]; K] = kani::any();
    let g: [C; N] = kani::any();
    let len: usize = kani::any();
    let at: usize = kani::any();
    kani::assume(len <= K && at < len);
    kani::cover!(len == K);
    let mut buf: [T; K] = colors(&fs);
    let p = addr(&buf);
    {
        let a: &mut [[C; N]] = cast::into_array_slice_mut(&mut buf[..len]);
        assert!(addr(a) == p && a.len() == len);
        assert!(same(&a[at], &fs[at]));
        a[at] = g;
    }
    assert!(same(&buf[at].fields(), &g));
    buf[at] = T::make(fs[at]);
    {
        let c: &mut [C] = cast::into_component_slice_mut(&mut buf[..len]);
        assert!(addr(c) == p && c.len() == len * N);
        for j in 0..N {
            assert!(c[at * N + j].bits() == fs[at][j].bits());
            c[at * N + j] = g[j];
        }
    }
    assert!(same(&buf[at].fields(), &g));
    for i in 0..K {
        if i != at {
            assert!(same(&buf[i].fields(), &fs[i]));
        }
    }
    // front ends
    {
        let x: &mut [[C; N]] = buf[..len].as_arrays_mut();
        assert!(addr(x) == p && x.len() == len);
    }
    {
        let x: &mut [[C; N]] = buf.as_arrays_mut();
        assert!(addr(x) == p && x.len() == K);
    }
    {
        let x: &mut [[C; N]] = (&mut buf[..len]).into_arrays();
        assert!(addr(x) == p && x.len() == len);
    }
    {
        let x: &mut [[C; N]] = (&mut buf).into_arrays();
        assert!(addr(x) == p && x.len() == K);
    }
    {
        let x = <&mut [[C; N]]>::arrays_from(&mut buf[..len]);
        assert!(addr(x) == p && x.len() == len);
    }
    {
        let y: &mut [C] = buf[..len].as_components_mut();
        assert!(addr(y) == p && y.len() == len * N);
    }
    {
        let y: &mut [C] = buf.as_components_mut();
        assert!(addr(y) == p && y.len() == K * N);
    }
    {
        let y: &mut [C] = (&mut buf[..len]).into_components();
        assert!(addr(y) == p && y.len() == len * N);
    }
    {
        let y: &mut [C] = (&mut buf).into_components();
        assert!(addr(y) == p && y.len() == K * N);
    }
    {
        let y = <&mut [C]>::components_from(&mut buf[..len]);
        assert!(addr(y) == p && y.len() == len * N);
    }
}

/// arrays -> colours, shared and mutable.
pub fn check_slice_from_arrays<T: Fields<C, N>, C: Comp, const N: usize, const K: usize>() {
    use palette::cast::{ArraysAs, ArraysAsMut, ArraysInto, FromArrays};
    let fs: [[C; N]; K] = kani::any();
    let g: [C; N] = kani::any();
    let len: usize = kani::any();
    let at: usize = kani::any();
    kani::assume(len <= K);
    kani::cover!(len == K);
    kani::cover!(len == 0);
    let mut buf = fs;
    let p = addr(&buf);
    {
        let s: &[[C; N]] = &buf[..len];
        let t: &[T] = cast::from_array_slice(s);
        assert!(addr(t) == p && t.len() == len);
        for i in 0..K {
            if i < len {
                assert!(same(&t[i].fields(), &fs[i]));
            }
        }
        let x: &[T] = s.arrays_as();
        assert!(addr(x) == p && x.len() == len);
        let x: &[T] = buf.arrays_as();
        assert!(addr(x) == p && x.len() == K);
        let x = <&[T]>::from_arrays(s);
        assert!(addr(x) == p && x.len() == len);
        let x = <&[T]>::from_arrays(&buf);
        assert!(addr(x) == p && x.len() == K);
        let x: &[T] = s.arrays_into();
        assert!(addr(x) == p && x.len() == len);
    }
    if at < len {
        {
            let t: &mut [T] = cast::from_array_slice_mut(&mut buf[..len]);
            assert!(addr(t) == p && t.len() == len);
            assert!(same(&t[at].fields(), &fs[at]));
            t[at] = T::make(g);
        }
        assert!(same(&buf[at], &g));
        for i in 0..K {
            if i != at {
                assert!(same(&buf[i], &fs[i]));
            }
        }
    }
    {
        let x: &mut [T] = buf[..len].arrays_as_mut();
        assert!(addr(x) == p && x.len() == len);
    }
    {
        let x: &mut [T] = buf.arrays_as_mut();
        assert!(addr(x) == p && x.len() == K);
    }
    {
        let x = <&mut [T]>::from_arrays(&mut buf[..len]);
        assert!(addr(x) == p && x.len() == len);
    }
    {
        let x = <&mut [T]>::from_arrays(&mut buf);
        assert!(addr(x) == p && x.len() == K);
    }
    {
        let x: &mut [T] = (&mut buf[..len]).arrays_into();
        assert!(addr(x) == p && x.len() == len);
    }
}

/// components -> colours, shared: rejected exactly on non-multiples. `KC` components in the buffer, any prefix.
pub fn check_slice_try_from_components<T: Fields<C, N>, C: Comp, const N: usize, const KC: usize>() {
    use palette::cast::{ComponentsAs, ComponentsInto, FromComponents, TryComponentsAs, TryComponentsInto, TryFromComponents};
    let buf: [C; KC] = kani::any();
    let len: usize = kani::any();
    kani::assume(len <= KC);
    kani::cover!(len == KC);
    kani::cover!(len % N != 0 || N == 1);
    kani::cover!(len % N == 0 && len > 0);
    let s: &[C] = &buf[..len];
    let r: Result<&[T], cast::SliceCastError> = cast::try_from_component_slice(s);
    assert!(r.is_err() == (len % N != 0));
    if let Ok(t) = r {
        assert!(addr(t) == addr(s) && t.len() * N == len);
        for i in 0..KC / N {
            if i < t.len() {
                let f = t[i].fields();
                for j in 0..N {
                    assert!(f[j].bits() == buf[i * N + j].bits());
                }
            }
        }
        let u: &[T] = cast::from_component_slice(s);
        assert!(addr(u) == addr(t) && u.len() == t.len());
        let u: &[T] = s.components_as();
        assert!(addr(u) == addr(t) && u.len() == t.len());
        let u = <&[T]>::from_components(s);
        assert!(addr(u) == addr(t) && u.len() == t.len());
        let u: &[T] = s.components_into();
        assert!(addr(u) == addr(t) && u.len() == t.len());
    }
    // front ends agree on Ok/Err, pointer and length
    let x: Result<&[T], _> = s.try_components_as();
    assert!(x.is_err() == r.is_err());
    if let (Ok(x), Ok(t)) = (x, r) {
        assert!(addr(x) == addr(t) && x.len() == t.len());
    }
    let x = <&[T]>::try_from_components(s);
    assert!(x.is_err() == r.is_err());
    if let (Ok(x), Ok(t)) = (x, r) {
        assert!(addr(x) == addr(t) && x.len() == t.len());
    }
    let x: Result<&[T], _> = s.try_components_into();
    assert!(x.is_err() == r.is_err());
    if let (Ok(x), Ok(t)) = (x, r) {
        assert!(addr(x) == addr(t) && x.len() == t.len());
    }
    // the whole fixed-size array as the owning type
    let x: Result<&[T], _> = buf.try_components_as();
    assert!(x.is_err() == (KC % N != 0));
    let x = <&[T]>::try_from_components(&buf);
    assert!(x.is_err() == (KC % N != 0));
}

/// components -> colours, mutable, with write-through.
pub fn check_slice_try_from_components_mut<T: Fields<C, N>, C: Comp, const N: usize, const KC: usize>() {
    use palette::cast::{ComponentsAsMut, ComponentsInto, FromComponents, TryComponentsAsMut, TryComponentsInto, TryFromComponents};
    let orig: [C; KC] = kani::any();
    let g: [C; N] = kani::any();
    let len: usize = kani::any();
    let at: usize = kani::any();
    kani::assume(len <= KC);
    kani::cover!(len == KC);
    kani::cover!(len % N != 0 || N == 1);
    kani::cover!(len % N == 0 && len > 0);
    let mut buf = orig;
    let p = addr(&buf);
    let ok = len % N == 0;
    {
        let r: Result<&mut [T], cast::SliceCastError> = cast::try_from_component_slice_mut(&mut buf[..len]);
        assert!(r.is_err() == !ok);
        if let Ok(t) = r {
            assert!(addr(t) == p && t.len() * N == len);
            if at < t.len() {
                let f = t[at].fields();
                for j in 0..N {
                    assert!(f[j].bits() == orig[at * N + j].bits());
                }
                t[at] = T::make(g);
            }
        }
    }
    for i in 0..KC {
        let hit = ok && at < len / N && i / N == at;
        assert!(buf[i].bits() == if hit { g[i % N].bits() } else { orig[i].bits() });
    }
    {
        let x: Result<&mut [T], _> = buf[..len].try_components_as_mut();
        assert!(x.is_err() == !ok);
        if let Ok(x) = x {
            assert!(addr(x) == p && x.len() * N == len);
        }
    }
    {
        let x = <&mut [T]>::try_from_components(&mut buf[..len]);
        assert!(x.is_err() == !ok);
        if let Ok(x) = x {
            assert!(addr(x) == p && x.len() * N == len);
        }
    }
    {
        let x: Result<&mut [T], _> = (&mut buf[..len]).try_components_into();
        assert!(x.is_err() == !ok);
        if let Ok(x) = x {
            assert!(addr(x) == p && x.len() * N == len);
        }
    }
    {
        // the whole fixed-size array as the owning type
        let x: Result<&mut [T], _> = buf.try_components_as_mut();
        assert!(x.is_err() == (KC % N != 0));
        if let Ok(x) = x {
            assert!(addr(x) == p && x.len() * N == KC);
        }
    }
    {
        let x = <&mut [T]>::try_from_components(&mut buf);
        assert!(x.is_err() == (KC % N != 0));
        if let Ok(x) = x {
            assert!(addr(x) == p && x.len() * N == KC);
        }
    }
    if ok {
        {
            let u: &mut [T] = cast::from_component_slice_mut(&mut buf[..len]);
            assert!(addr(u) == p && u.len() * N == len);
        }
        {
            let u: &mut [T] = buf[..len].components_as_mut();
            assert!(addr(u) == p && u.len() * N == len);
        }
        {
            let u = <&mut [T]>::from_components(&mut buf[..len]);
            assert!(addr(u) == p && u.len() * N == len);
        }
        {
            let u: &mut [T] = (&mut buf[..len]).components_into();
            assert!(addr(u) == p && u.len() * N == len);
        }
    }
}

// ------------------------------------------------------------------------------------------------------------------
// boxed slices: concrete length
// ------------------------------------------------------------------------------------------------------------------

/// `L` colours, `LN == L * N`: Box<[T]> -> Box<[[C; N]]> -> Box<[T]> -> Box<[C]> -> Box<[T]>, dropped as Box<[T]>.
pub fn check_slice_box_chain<T: Fields<C, N>, C: Comp, const N: usize, const L: usize, const LN: usize>() {
    let fs: [[C; N]; L] = kani::any();
    kani::cover!(true);
    let b: Box<[T]> = Box::new(colors::<T, C, N, L>(&fs));
    let p = addr(&*b);
    let a: Box<[[C; N]]> = cast::into_array_slice_box(b);
    assert!(addr(&*a) == p && a.len() == L);
    for i in 0..L {
        assert!(same(&a[i], &fs[i]));
    }
    let t: Box<[T]> = cast::from_array_slice_box(a);
    assert!(addr(&*t) == p && t.len() == L);
    for i in 0..L {
        assert!(same(&t[i].fields(), &fs[i]));
    }
    let c: Box<[C]> = cast::into_component_slice_box(t);
    assert!(addr(&*c) == p && c.len() == LN);
    for i in 0..LN {
        assert!(c[i].bits() == fs[i / N][i % N].bits());
    }
    let t: Box<[T]> = cast::from_component_slice_box(c);
    assert!(addr(&*t) == p && t.len() == L);
    for i in 0..L {
        assert!(same(&t[i].fields(), &fs[i]));
    }
    drop(t);
}

/// Each reinterpreted box is dropped with its *new* layout (allocated as one type, freed as the other), plus the trait
/// front ends for the owned and borrowed `Box<[_]>` forms.
pub fn check_slice_box_drop_and_front_ends<T: Fields<C, N>, C: Comp, const N: usize, const L: usize, const LN: usize>() {
    use palette::cast::{
        ArraysAs, ArraysAsMut, ArraysFrom, ArraysInto, AsArrays, AsArraysMut, AsComponents, AsComponentsMut, ComponentsAs,
        ComponentsAsMut, ComponentsFrom, ComponentsInto, FromArrays, FromComponents, IntoArrays, IntoComponents,
        TryComponentsAs, TryComponentsAsMut, TryComponentsInto, TryFromComponents,
    };
    let fs: [[C; N]; L] = kani::any();
    kani::cover!(true);
    let mk = || -> Box<[T]> { Box::new(colors::<T, C, N, L>(&fs)) };
    let b = mk();
    let p = addr(&*b);
    {
        let x: &[[C; N]] = b.as_arrays();
        assert!(addr(x) == p && x.len() == L);
        let x: &[[C; N]] = (&b).into_arrays();
        assert!(addr(x) == p && x.len() == L);
        let y: &[C] = b.as_components();
        assert!(addr(y) == p && y.len() == LN);
        let y: &[C] = (&b).into_components();
        assert!(addr(y) == p && y.len() == LN);
    }
    let mut b = b;
    {
        let x: &mut [[C; N]] = b.as_arrays_mut();
        assert!(addr(x) == p && x.len() == L);
    }
    {
        let x: &mut [[C; N]] = (&mut b).into_arrays();
        assert!(addr(x) == p && x.len() == L);
    }
    {
        let y: &mut [C] = b.as_components_mut();
        assert!(addr(y) == p && y.len() == LN);
    }
    {
        let y: &mut [C] = (&mut b).into_components();
        assert!(addr(y) == p && y.len() == LN);
    }
    let mut a: Box<[[C; N]]> = b.into_arrays();
    assert!(addr(&*a) == p && a.len() == L);
    {
        let x: &[T] = a.arrays_as();
        assert!(addr(x) == p && x.len() == L);
        let x = <&[T]>::from_arrays(&a);
        assert!(addr(x) == p && x.len() == L);
    }
    {
        let x: &mut [T] = a.arrays_as_mut();
        assert!(addr(x) == p && x.len() == L);
    }
    {
        let x = <&mut [T]>::from_arrays(&mut a);
        assert!(addr(x) == p && x.len() == L);
    }
    drop(a); // allocated as [T], freed as [[C; N]]
    let b = mk();
    let p = addr(&*b);
    let mut c: Box<[C]> = b.into_components();
    assert!(addr(&*c) == p && c.len() == LN);
    {
        let x: Result<&[T], _> = c.try_components_as();
        assert!(x.is_ok());
        let x: &[T] = c.components_as();
        assert!(addr(x) == p && x.len() == L);
        let x = <&[T]>::from_components(&c);
        assert!(addr(x) == p && x.len() == L);
    }
    {
        let x: Result<&mut [T], _> = c.try_components_as_mut();
        assert!(x.is_ok());
    }
    {
        let x: &mut [T] = c.components_as_mut();
        assert!(addr(x) == p && x.len() == L);
    }
    {
        let x = <&mut [T]>::from_components(&mut c);
        assert!(addr(x) == p && x.len() == L);
    }
    drop(c); // allocated as [T], freed as [C]
    let a: Box<[[C; N]]> = Box::new(fs);
    let p = addr(&*a);
    let t: Box<[T]> = a.arrays_into();
    assert!(addr(&*t) == p && t.len() == L);
    drop(t); // allocated as [[C; N]], freed as [T]
    let a: Box<[[C; N]]> = Box::new(fs);
    let p = addr(&*a);
    let t = Box::<[T]>::from_arrays(a);
    assert!(addr(&*t) == p && t.len() == L);
    let a = Box::<[[C; N]]>::arrays_from(t);
    assert!(addr(&*a) == p && a.len() == L);
    let t: Box<[T]> = cast::from_array_slice_box(a);
    let c = Box::<[C]>::components_from(t);
    assert!(addr(&*c) == p && c.len() == LN);
    let t: Box<[T]> = c.components_into();
    assert!(addr(&*t) == p && t.len() == L);
    let c: Box<[C]> = cast::into_component_slice_box(t);
    let t = Box::<[T]>::from_components(c);
    assert!(addr(&*t) == p && t.len() == L);
    let c: Box<[C]> = cast::into_component_slice_box(t);
    let t: Box<[T]> = match c.try_components_into() {
        Ok(t) => t,
        Err(_) => unreachable!(),
    };
    assert!(addr(&*t) == p && t.len() == L);
    for i in 0..L {
        assert!(same(&t[i].fields(), &fs[i]));
    }
    drop(t);
}

/// Box<[C]> of `LC` components: rejected exactly when `LC % N != 0`, and the rejected box is handed back unchanged.
pub fn check_slice_box_try<T: Fields<C, N>, C: Comp, const N: usize, const LC: usize>() {
    use palette::cast::TryFromComponents;
    let cs: [C; LC] = kani::any();
    kani::cover!(true);
    let b: Box<[C]> = Box::new(cs);
    let p = addr(&*b);
    match cast::try_from_component_slice_box::<T>(b) {
        Ok(t) => {
            assert!(LC % N == 0);
            assert!(addr(&*t) == p && t.len() == LC / N);
            for i in 0..LC / N {
                let f = t[i].fields();
                for j in 0..N {
                    assert!(f[j].bits() == cs[i * N + j].bits());
                }
            }
            drop(t); // allocated as [C], freed as [T]
        }
        Err(e) => {
            assert!(LC % N != 0);
            assert!(addr(&*e.values) == p && e.values.len() == LC);
            for i in 0..LC {
                assert!(e.values[i].bits() == cs[i].bits());
            }
            drop(e);
        }
    }
    let b: Box<[C]> = Box::new(cs);
    let p = addr(&*b);
    match Box::<[T]>::try_from_components(b) {
        Ok(t) => {
            assert!(LC % N == 0);
            assert!(addr(&*t) == p && t.len() == LC / N);
        }
        Err(e) => {
            assert!(LC % N != 0);
            assert!(addr(&*e.values) == p && e.values.len() == LC);
        }
    }
}

// ------------------------------------------------------------------------------------------------------------------
// vectors: concrete capacity, symbolic length
// ------------------------------------------------------------------------------------------------------------------

/// A vector with exactly the capacity `CAP` (checked by the callers' cover), the symbolic length `len <= CAP` and the
/// given contents. The buffer is written through `as_mut_ptr` so that no growth path of `push` is explored.
pub fn vec_with<X: Copy, const CAP: usize>(items: &[X; CAP], len: usize) -> Vec<X> {
    let mut v: Vec<X> = Vec::with_capacity(CAP);
    if v.capacity() >= CAP && len <= CAP {
        for i in 0..CAP {
            unsafe { v.as_mut_ptr().add(i).write(items[i]) };
        }
        unsafe { v.set_len(len) };
    }
    v
}

/// Vec<T> -> Vec<[C; N]> -> Vec<T> -> Vec<C> -> Vec<T> with capacity `CAP` colours (`CAPN == CAP * N`) and any length.
pub fn check_vec_chain<T: Fields<C, N>, C: Comp, const N: usize, const CAP: usize, const CAPN: usize>() {
    let fs: [[C; N]; CAP] = kani::any();
    let len: usize = kani::any();
    kani::assume(len <= CAP);
    let v: Vec<T> = vec_with(&colors::<T, C, N, CAP>(&fs), len);
    let cap = v.capacity();
    kani::assume(cap == CAP);
    kani::cover!(len == CAP);
    kani::cover!(len == 0);
    let p = addr(v.as_ptr());
    let a: Vec<[C; N]> = cast::into_array_vec(v);
    assert!(addr(a.as_ptr()) == p && a.len() == len && a.capacity() == cap);
    for i in 0..CAP {
        if i < len {
            assert!(same(&a[i], &fs[i]));
        }
    }
    let t: Vec<T> = cast::from_array_vec(a);
    assert!(addr(t.as_ptr()) == p && t.len() == len && t.capacity() == cap);
    for i in 0..CAP {
        if i < len {
            assert!(same(&t[i].fields(), &fs[i]));
        }
    }
    let c: Vec<C> = cast::into_component_vec(t);
    assert!(addr(c.as_ptr()) == p && c.len() == len * N && c.capacity() == cap * N);
    for i in 0..CAPN {
        if i < len * N {
            assert!(c[i].bits() == fs[i / N][i % N].bits());
        }
    }
    let t: Vec<T> = cast::from_component_vec(c);
    assert!(addr(t.as_ptr()) == p && t.len() == len && t.capacity() == cap);
    for i in 0..CAP {
        if i < len {
            assert!(same(&t[i].fields(), &fs[i]));
        }
    }
    drop(t);
}

/// Each reinterpreted vector is dropped with its *new* element type, plus the trait front ends for `Vec`.
pub fn check_vec_drop_and_front_ends<T: Fields<C, N>, C: Comp, const N: usize, const CAP: usize, const CAPN: usize>() {
    use palette::cast::{
        ArraysAs, ArraysAsMut, ArraysFrom, ArraysInto, AsArrays, AsArraysMut, AsComponents, AsComponentsMut, ComponentsAs,
        ComponentsAsMut, ComponentsFrom, ComponentsInto, FromArrays, FromComponents, IntoArrays, IntoComponents,
        TryComponentsAs, TryComponentsAsMut, TryComponentsInto, TryFromComponents,
    };
    let fs: [[C; N]; CAP] = kani::any();
    let len: usize = kani::any();
    kani::assume(len <= CAP);
    let ts = colors::<T, C, N, CAP>(&fs);
    let v: Vec<T> = vec_with(&ts, len);
    kani::assume(v.capacity() == CAP);
    kani::cover!(len == CAP);
    let p = addr(v.as_ptr());
    {
        let x: &[[C; N]] = v.as_arrays();
        assert!(addr(x) == p && x.len() == len);
        let x: &[[C; N]] = (&v).into_arrays();
        assert!(addr(x) == p && x.len() == len);
        let y: &[C] = v.as_components();
        assert!(addr(y) == p && y.len() == len * N);
        let y: &[C] = (&v).into_components();
        assert!(addr(y) == p && y.len() == len * N);
    }
    let mut v = v;
    {
        let x: &mut [[C; N]] = v.as_arrays_mut();
        assert!(addr(x) == p && x.len() == len);
    }
    {
        let x: &mut [[C; N]] = (&mut v).into_arrays();
        assert!(addr(x) == p && x.len() == len);
    }
    {
        let y: &mut [C] = v.as_components_mut();
        assert!(addr(y) == p && y.len() == len * N);
    }
    {
        let y: &mut [C] = (&mut v).into_components();
        assert!(addr(y) == p && y.len() == len * N);
    }
    let mut a: Vec<[C; N]> = v.into_arrays();
    assert!(addr(a.as_ptr()) == p && a.len() == len && a.capacity() == CAP);
    {
        let x: &[T] = a.arrays_as();
        assert!(addr(x) == p && x.len() == len);
        let x = <&[T]>::from_arrays(&a);
        assert!(addr(x) == p && x.len() == len);
    }
    {
        let x: &mut [T] = a.arrays_as_mut();
        assert!(addr(x) == p && x.len() == len);
    }
    {
        let x = <&mut [T]>::from_arrays(&mut a);
        assert!(addr(x) == p && x.len() == len);
    }
    drop(a); // allocated as Vec<T>, freed as Vec<[C; N]>
    let v: Vec<T> = vec_with(&ts, len);
    kani::assume(v.capacity() == CAP);
    let p = addr(v.as_ptr());
    let mut c: Vec<C> = v.into_components();
    assert!(addr(c.as_ptr()) == p && c.len() == len * N && c.capacity() == CAPN);
    {
        let x: Result<&[T], _> = c.try_components_as();
        assert!(x.is_ok());
        let x: &[T] = c.components_as();
        assert!(addr(x) == p && x.len() == len);
        let x = <&[T]>::from_components(&c);
        assert!(addr(x) == p && x.len() == len);
    }
    {
        let x: Result<&mut [T], _> = c.try_components_as_mut();
        assert!(x.is_ok());
    }
    {
        let x: &mut [T] = c.components_as_mut();
        assert!(addr(x) == p && x.len() == len);
    }
    {
        let x = <&mut [T]>::from_components(&mut c);
        assert!(addr(x) == p && x.len() == len);
    }
    drop(c); // allocated as Vec<T>, freed as Vec<C>
    let a: Vec<[C; N]> = vec_with(&fs, len);
    kani::assume(a.capacity() == CAP);
    let p = addr(a.as_ptr());
    let t: Vec<T> = a.arrays_into();
    assert!(addr(t.as_ptr()) == p && t.len() == len && t.capacity() == CAP);
    drop(t); // allocated as Vec<[C; N]>, freed as Vec<T>
    let a: Vec<[C; N]> = vec_with(&fs, len);
    kani::assume(a.capacity() == CAP);
    let p = addr(a.as_ptr());
    let t = Vec::<T>::from_arrays(a);
    assert!(addr(t.as_ptr()) == p && t.len() == len && t.capacity() == CAP);
    let a = Vec::<[C; N]>::arrays_from(t);
    assert!(addr(a.as_ptr()) == p && a.len() == len && a.capacity() == CAP);
    let t: Vec<T> = cast::from_array_vec(a);
    let c = Vec::<C>::components_from(t);
    assert!(addr(c.as_ptr()) == p && c.len() == len * N && c.capacity() == CAPN);
    let t: Vec<T> = c.components_into();
    assert!(addr(t.as_ptr()) == p && t.len() == len && t.capacity() == CAP);
    let c: Vec<C> = cast::into_component_vec(t);
    let t = Vec::<T>::from_components(c);
    assert!(addr(t.as_ptr()) == p && t.len() == len && t.capacity() == CAP);
    let c: Vec<C> = cast::into_component_vec(t);
    let t: Vec<T> = match c.try_components_into() {
        Ok(t) => t,
        Err(_) => unreachable!(),
    };
    assert!(addr(t.as_ptr()) == p && t.len() == len && t.capacity() == CAP);
    for i in 0..CAP {
        if i < len {
            assert!(same(&t[i].fields(), &fs[i]));
        }
    }
    drop(t);
    kani::cover!(true); // the end is reachable: none of the capacity assumptions above is vacuous
}

/// Vec<C> with capacity `CAPC` components and any length: rejected exactly when the length or the capacity is not a
/// multiple of N, with an error kind that names a mismatch that exists, and the rejected vector is handed back unchanged.
pub fn check_vec_try<T: Fields<C, N>, C: Comp, const N: usize, const CAPC: usize>() {
    use palette::cast::{TryFromComponents, VecCastErrorKind};
    let cs: [C; CAPC] = kani::any();
    let len: usize = kani::any();
    kani::assume(len <= CAPC);
    let v: Vec<C> = vec_with(&cs, len);
    let cap = v.capacity();
    kani::assume(cap == CAPC);
    kani::cover!(len == CAPC);
    kani::cover!(len % N != 0 || N == 1 || CAPC == 0);
    kani::cover!(len % N == 0);
    let p = addr(v.as_ptr());
    match cast::try_from_component_vec::<T>(v) {
        Ok(t) => {
            assert!(len % N == 0 && cap % N == 0);
            assert!(addr(t.as_ptr()) == p && t.len() == len / N && t.capacity() == cap / N);
            for i in 0..CAPC / N {
                if i < t.len() {
                    let f = t[i].fields();
                    for j in 0..N {
                        assert!(f[j].bits() == cs[i * N + j].bits());
                    }
                }
            }
            drop(t); // allocated as Vec<C>, freed as Vec<T>
        }
        Err(e) => {
            assert!(len % N != 0 || cap % N != 0);
            match e.kind {
                VecCastErrorKind::LengthMismatch => assert!(len % N != 0),
                VecCastErrorKind::CapacityMismatch => assert!(cap % N != 0),
            }
            assert!(addr(e.values.as_ptr()) == p && e.values.len() == len && e.values.capacity() == cap);
            for i in 0..CAPC {
                if i < len {
                    assert!(e.values[i].bits() == cs[i].bits());
                }
            }
            drop(e);
        }
    }
    // trait front end: same verdict, pointer, length and capacity
    let v: Vec<C> = vec_with(&cs, len);
    kani::assume(v.capacity() == CAPC);
    let p = addr(v.as_ptr());
    match Vec::<T>::try_from_components(v) {
        Ok(t) => {
            assert!(len % N == 0 && cap % N == 0);
            assert!(addr(t.as_ptr()) == p && t.len() == len / N && t.capacity() == cap / N);
        }
        Err(e) => {
            assert!(len % N != 0 || cap % N != 0);
            assert!(addr(e.values.as_ptr()) == p && e.values.len() == len && e.values.capacity() == cap);
        }
    }
    kani::cover!(true); // the end is reachable: none of the capacity assumptions above is vacuous
}

// ------------------------------------------------------------------------------------------------------------------
// map_vec_in_place / map_slice_box_in_place
// ------------------------------------------------------------------------------------------------------------------

/// `map` is applied exactly once to every element, in order, in place: same buffer, length and capacity.
pub fn check_map_vec<A, B, C: Comp, const N: usize, const CAP: usize>(map: impl Fn([C; N]) -> [C; N])
where
    A: Fields<C, N>,
    B: Fields<C, N>,
{
    let fs: [[C; N]; CAP] = kani::any();
    let len: usize = kani::any();
    kani::assume(len <= CAP);
    let v: Vec<A> = vec_with(&colors::<A, C, N, CAP>(&fs), len);
    kani::assume(v.capacity() == CAP);
    kani::cover!(len == CAP);
    kani::cover!(len == 0);
    let p = addr(v.as_ptr());
    let mut calls = 0usize;
    let out: Vec<B> = cast::map_vec_in_place(v, |a: A| {
        assert!(calls < CAP && same(&a.fields(), &fs[calls]));
        calls += 1;
        B::make(map(a.fields()))
    });
    assert!(calls == len);
    assert!(addr(out.as_ptr()) == p && out.len() == len && out.capacity() == CAP);
    for i in 0..CAP {
        if i < len {
            assert!(same(&out[i].fields(), &map(fs[i])));
        }
    }
    drop(out);
}

pub fn check_map_slice_box<A, B, C: Comp, const N: usize, const L: usize>(map: impl Fn([C; N]) -> [C; N])
where
    A: Fields<C, N>,
    B: Fields<C, N>,
{
    let fs: [[C; N]; L] = kani::any();
    kani::cover!(true);
    let b: Box<[A]> = Box::new(colors::<A, C, N, L>(&fs));
    let p = addr(&*b);
    let mut calls = 0usize;
    let out: Box<[B]> = cast::map_slice_box_in_place(b, |a: A| {
        assert!(calls < L && same(&a.fields(), &fs[calls]));
        calls += 1;
        B::make(map(a.fields()))
    });
    assert!(calls == L);
    assert!(addr(&*out) == p && out.len() == L);
    for i in 0..L {
        assert!(same(&out[i].fields(), &map(fs[i])));
    }
    drop(out);
}

// ------------------------------------------------------------------------------------------------------------------
// unsigned integer casts
// ------------------------------------------------------------------------------------------------------------------

pub fn check_uint_single<T: UFields<U>, U: Copy + Eq + kani::Arbitrary>() {
    let u: U = kani::any();
    let w: U = kani::any();
    kani::cover!(true);
    let t = T::make(u);
    assert!(cast::into_uint(t) == u);
    assert!(cast::from_uint::<T>(u).get() == u);
    let r: &U = cast::into_uint_ref(&t);
    assert!(addr(r) == addr(&t) && *r == u);
    let b: &T = cast::from_uint_ref(&u);
    assert!(addr(b) == addr(&u) && b.get() == u);
    let mut t = t;
    let pt = addr(&t);
    {
        let m: &mut U = cast::into_uint_mut(&mut t);
        assert!(addr(m) == pt && *m == u);
        *m = w;
    }
    assert!(t.get() == w);
    let mut x = u;
    let px = addr(&x);
    {
        let m: &mut T = cast::from_uint_mut(&mut x);
        assert!(addr(m) == px && m.get() == u);
        *m = T::make(w);
    }
    assert!(x == w);
}

/// The `From`/`AsRef`/`AsMut` front ends of `impl_uint_casts_self!` / `impl_uint_casts_other!` (only `Packed` has them).
macro_rules! c04_uint_front_ends {
    ($T:ty, $U:ty) => {{
        use $crate::c04_support::{addr, UFields};
        let u: $U = kani::any();
        let w: $U = kani::any();
        kani::cover!(true);
        let t = <$T as UFields<$U>>::make(u);
        let x: $U = t.into();
        assert!(x == u);
        let y: $T = u.into();
        assert!(y.get() == u);
        let r: &$U = t.as_ref();
        assert!(addr(r) == addr(&t) && *r == u);
        let r: &$U = (&t).into();
        assert!(addr(r) == addr(&t));
        let b: &$T = u.as_ref();
        assert!(addr(b) == addr(&u) && b.get() == u);
        let b: &$T = (&u).into();
        assert!(addr(b) == addr(&u));
        let mut t = t;
        let pt = addr(&t);
        {
            let m: &mut $U = t.as_mut();
            assert!(addr(m) == pt);
            *m = w;
        }
        assert!(t.get() == w);
        {
            let m: &mut $U = (&mut t).into();
            assert!(addr(m) == pt);
        }
        let mut x = u;
        let px = addr(&x);
        {
            let m: &mut $T = x.as_mut();
            assert!(addr(m) == px);
            *m = <$T as UFields<$U>>::make(w);
        }
        assert!(x == w);
        {
            let m: &mut $T = (&mut x).into();
            assert!(addr(m) == px);
        }
    }};
}
pub(crate) use c04_uint_front_ends;

/// `[T; K]` by value and every borrowed slice form with a symbolic prefix length.
pub fn check_uint_slices<T: UFields<U>, U: Copy + Eq + kani::Arbitrary, const K: usize>() {
    use palette::cast::{AsUints, AsUintsMut, FromUints, IntoUints, UintsAs, UintsAsMut, UintsFrom, UintsInto};
    let us: [U; K] = kani::any();
    let w: U = kani::any();
    let len: usize = kani::any();
    let at: usize = kani::any();
    kani::assume(len <= K);
    kani::cover!(len == K);
    kani::cover!(len == 0);
    let ts: [T; K] = core::array::from_fn(|i| T::make(us[i]));
    // arrays by value
    let ua: [U; K] = cast::into_uint_array(ts);
    let ta: [T; K] = cast::from_uint_array(us);
    let ua2: [U; K] = ts.into_uints();
    let ua3 = <[U; K]>::uints_from(ts);
    let ta2 = <[T; K]>::from_uints(us);
    let ta3: [T; K] = us.uints_into();
    for i in 0..K {
        assert!(ua[i] == us[i] && ua2[i] == us[i] && ua3[i] == us[i]);
        assert!(ta[i].get() == us[i] && ta2[i].get() == us[i] && ta3[i].get() == us[i]);
    }
    // shared slices
    {
        let s: &[T] = &ts[..len];
        let x: &[U] = cast::into_uint_slice(s);
        assert!(addr(x) == addr(s) && x.len() == len);
        for i in 0..K {
            if i < len {
                assert!(x[i] == us[i]);
            }
        }
        let y: &[U] = s.as_uints();
        assert!(addr(y) == addr(s) && y.len() == len);
        let y: &[U] = ts.as_uints();
        assert!(addr(y) == addr(&ts) && y.len() == K);
        let y: &[U] = s.into_uints();
        assert!(addr(y) == addr(s) && y.len() == len);
        let y = <&[U]>::uints_from(s);
        assert!(addr(y) == addr(s) && y.len() == len);
        let q: &[U] = &us[..len];
        let z: &[T] = cast::from_uint_slice(q);
        assert!(addr(z) == addr(q) && z.len() == len);
        for i in 0..K {
            if i < len {
                assert!(z[i].get() == us[i]);
            }
        }
        let z: &[T] = q.uints_as();
        assert!(addr(z) == addr(q) && z.len() == len);
        let z: &[T] = us.uints_as();
        assert!(addr(z) == addr(&us) && z.len() == K);
        let z = <&[T]>::from_uints(q);
        assert!(addr(z) == addr(q) && z.len() == len);
        let z: &[T] = q.uints_into();
        assert!(addr(z) == addr(q) && z.len() == len);
        let y: &[U] = (&ts).into_uints();
        assert!(addr(y) == addr(&ts) && y.len() == K);
        let z = <&[T]>::from_uints(&us);
        assert!(addr(z) == addr(&us) && z.len() == K);
    }
    {
        let mut ts = ts;
        let p = addr(&ts);
        {
            let y: &mut [U] = ts.as_uints_mut();
            assert!(addr(y) == p && y.len() == K);
        }
        {
            let y: &mut [U] = (&mut ts).into_uints();
            assert!(addr(y) == p && y.len() == K);
        }
        let mut us2 = us;
        let p = addr(&us2);
        {
            let z: &mut [T] = us2.uints_as_mut();
            assert!(addr(z) == p && z.len() == K);
        }
        {
            let z = <&mut [T]>::from_uints(&mut us2);
            assert!(addr(z) == p && z.len() == K);
        }
    }
    // mutable slices with write-through
    if at < len {
        let mut ts = ts;
        let p = addr(&ts);
        {
            let x: &mut [U] = cast::into_uint_slice_mut(&mut ts[..len]);
            assert!(addr(x) == p && x.len() == len && x[at] == us[at]);
            x[at] = w;
        }
        assert!(ts[at].get() == w);
        {
            let y: &mut [U] = ts[..len].as_uints_mut();
            assert!(addr(y) == p && y.len() == len);
        }
        {
            let y: &mut [U] = (&mut ts[..len]).into_uints();
            assert!(addr(y) == p && y.len() == len);
        }
        let mut us2 = us;
        let p = addr(&us2);
        {
            let z: &mut [T] = cast::from_uint_slice_mut(&mut us2[..len]);
            assert!(addr(z) == p && z.len() == len && z[at].get() == us[at]);
            z[at] = T::make(w);
        }
        assert!(us2[at] == w);
        {
            let z: &mut [T] = us2[..len].uints_as_mut();
            assert!(addr(z) == p && z.len() == len);
        }
        {
            let z = <&mut [T]>::from_uints(&mut us2[..len]);
            assert!(addr(z) == p && z.len() == len);
        }
        {
            let z: &mut [T] = (&mut us2[..len]).uints_into();
            assert!(addr(z) == p && z.len() == len);
        }
    }
}

/// Box<[T]> of `L` items and Vec<T> with capacity `L` and any length, each dropped with the new element type.
pub fn check_uint_owned<T: UFields<U>, U: Copy + Eq + kani::Arbitrary, const L: usize>() {
    use palette::cast::{AsUints, AsUintsMut, FromUints, IntoUints, UintsAs, UintsAsMut, UintsFrom, UintsInto};
    let us: [U; L] = kani::any();
    let len: usize = kani::any();
    kani::assume(len <= L);
    let ts: [T; L] = core::array::from_fn(|i| T::make(us[i]));
    let v: Vec<T> = vec_with(&ts, len);
    kani::assume(v.capacity() == L);
    kani::cover!(len == L);
    kani::cover!(len == 0);
    // boxed slices
    let b: Box<[T]> = Box::new(ts);
    let p = addr(&*b);
    {
        let y: &[U] = b.as_uints();
        assert!(addr(y) == p && y.len() == L);
    }
    let mut b = b;
    {
        let y: &[U] = (&b).into_uints();
        assert!(addr(y) == p && y.len() == L);
    }
    {
        let y: &mut [U] = b.as_uints_mut();
        assert!(addr(y) == p && y.len() == L);
    }
    {
        let y: &mut [U] = (&mut b).into_uints();
        assert!(addr(y) == p && y.len() == L);
    }
    let mut ub: Box<[U]> = cast::into_uint_slice_box(b);
    assert!(addr(&*ub) == p && ub.len() == L);
    for i in 0..L {
        assert!(ub[i] == us[i]);
    }
    {
        let z: &[T] = ub.uints_as();
        assert!(addr(z) == p && z.len() == L);
        let z = <&[T]>::from_uints(&ub);
        assert!(addr(z) == p && z.len() == L);
    }
    {
        let z: &mut [T] = ub.uints_as_mut();
        assert!(addr(z) == p && z.len() == L);
    }
    {
        let z = <&mut [T]>::from_uints(&mut ub);
        assert!(addr(z) == p && z.len() == L);
    }
    let tb: Box<[T]> = cast::from_uint_slice_box(ub);
    assert!(addr(&*tb) == p && tb.len() == L);
    for i in 0..L {
        assert!(tb[i].get() == us[i]);
    }
    let ub: Box<[U]> = tb.into_uints();
    assert!(addr(&*ub) == p && ub.len() == L);
    let tb: Box<[T]> = ub.uints_into();
    assert!(addr(&*tb) == p && tb.len() == L);
    let ub = Box::<[U]>::uints_from(tb);
    assert!(addr(&*ub) == p && ub.len() == L);
    drop(ub); // allocated as [T], freed as [U]
    let ub: Box<[U]> = Box::new(us);
    let p = addr(&*ub);
    let tb = Box::<[T]>::from_uints(ub);
    assert!(addr(&*tb) == p && tb.len() == L);
    drop(tb); // allocated as [U], freed as [T]
    // vectors
    let p = addr(v.as_ptr());
    {
        let y: &[U] = v.as_uints();
        assert!(addr(y) == p && y.len() == len);
    }
    let mut v = v;
    {
        let y: &[U] = (&v).into_uints();
        assert!(addr(y) == p && y.len() == len);
    }
    {
        let y: &mut [U] = v.as_uints_mut();
        assert!(addr(y) == p && y.len() == len);
    }
    {
        let y: &mut [U] = (&mut v).into_uints();
        assert!(addr(y) == p && y.len() == len);
    }
    let mut uv: Vec<U> = cast::into_uint_vec(v);
    assert!(addr(uv.as_ptr()) == p && uv.len() == len && uv.capacity() == L);
    for i in 0..L {
        if i < len {
            assert!(uv[i] == us[i]);
        }
    }
    {
        let z: &[T] = uv.uints_as();
        assert!(addr(z) == p && z.len() == len);
        let z = <&[T]>::from_uints(&uv);
        assert!(addr(z) == p && z.len() == len);
    }
    {
        let z: &mut [T] = uv.uints_as_mut();
        assert!(addr(z) == p && z.len() == len);
    }
    {
        let z = <&mut [T]>::from_uints(&mut uv);
        assert!(addr(z) == p && z.len() == len);
    }
    let tv: Vec<T> = cast::from_uint_vec(uv);
    assert!(addr(tv.as_ptr()) == p && tv.len() == len && tv.capacity() == L);
    for i in 0..L {
        if i < len {
            assert!(tv[i].get() == us[i]);
        }
    }
    let uv: Vec<U> = tv.into_uints();
    assert!(addr(uv.as_ptr()) == p && uv.len() == len && uv.capacity() == L);
    let tv: Vec<T> = uv.uints_into();
    assert!(addr(tv.as_ptr()) == p && tv.len() == len && tv.capacity() == L);
    let uv = Vec::<U>::uints_from(tv);
    assert!(addr(uv.as_ptr()) == p && uv.len() == len && uv.capacity() == L);
    drop(uv); // allocated as Vec<T>, freed as Vec<U>
    let uv: Vec<U> = vec_with(&us, len);
    kani::assume(uv.capacity() == L);
    let p = addr(uv.as_ptr());
    let tv = Vec::<T>::from_uints(uv);
    assert!(addr(tv.as_ptr()) == p && tv.len() == len && tv.capacity() == L);
    drop(tv); // allocated as Vec<U>, freed as Vec<T>
    kani::cover!(true); // the end is reachable: none of the capacity assumptions above is vacuous
}

// ------------------------------------------------------------------------------------------------------------------
// length arithmetic at symbolic usize: the real slice functions on a type whose items are zero-sized, so that a slice of
// any length exists without a buffer
// ------------------------------------------------------------------------------------------------------------------

/// A cast-able type with `N` zero-sized components: `Packed<(), [(); N]>`.
pub type Zst<const N: usize> = palette::cast::Packed<(), [(); N]>;

pub fn check_len_arithmetic<const N: usize>() {
    let len: usize = kani::any();
    // a slice of non-zero-sized colours obeys len * N * size_of::<Item>() <= isize::MAX, which implies this bound
    kani::assume(len <= usize::MAX / N);
    kani::cover!(len == usize::MAX / N);
    kani::cover!(len == 0);
    let base = core::ptr::NonNull::<Zst<N>>::dangling();
    let s: &[Zst<N>] = unsafe { core::slice::from_raw_parts(base.as_ptr(), len) };
    let c: &[()] = cast::into_component_slice(s);
    assert!(c.len() / N == len && c.len() % N == 0);
    let a: &[[(); N]] = cast::into_array_slice(s);
    assert!(a.len() == len);
    let m: usize = kani::any();
    kani::cover!(m == usize::MAX);
    let q: &[()] = unsafe { core::slice::from_raw_parts(core::ptr::NonNull::<()>::dangling().as_ptr(), m) };
    match cast::try_from_component_slice::<Zst<N>>(q) {
        Ok(t) => {
            assert!(m % N == 0);
            assert!(t.len() == m / N && t.len() * N == m);
        }
        Err(_) => assert!(m % N != 0),
    }
}

/// The mutable slice forms have their own copy of the arithmetic.
pub fn check_len_arithmetic_mut<const N: usize>() {
    let len: usize = kani::any();
    kani::assume(len <= usize::MAX / N);
    kani::cover!(len == usize::MAX / N);
    let base = core::ptr::NonNull::<Zst<N>>::dangling();
    let sm: &mut [Zst<N>] = unsafe { core::slice::from_raw_parts_mut(base.as_ptr(), len) };
    let cm: &mut [()] = cast::into_component_slice_mut(sm);
    assert!(cm.len() / N == len && cm.len() % N == 0);
    let m: usize = kani::any();
    kani::cover!(m == usize::MAX);
    let qm: &mut [()] = unsafe { core::slice::from_raw_parts_mut(core::ptr::NonNull::<()>::dangling().as_ptr(), m) };
    match cast::try_from_component_slice_mut::<Zst<N>>(qm) {
        Ok(t) => assert!(m % N == 0 && t.len() == m / N),
        Err(_) => assert!(m % N != 0),
    }
}

/// The boxed slice forms (a `Box<[ZST]>` of any length exists without an allocation).
pub fn check_len_arithmetic_box<const N: usize>() {
    let len: usize = kani::any();
    kani::assume(len <= usize::MAX / N);
    kani::cover!(len == usize::MAX / N);
    let base = core::ptr::NonNull::<Zst<N>>::dangling();
    let sb: Box<[Zst<N>]> = unsafe { Box::from_raw(core::ptr::slice_from_raw_parts_mut(base.as_ptr(), len)) };
    let cb: Box<[()]> = cast::into_component_slice_box(sb);
    assert!(cb.len() / N == len && cb.len() % N == 0);
    let m: usize = kani::any();
    kani::cover!(m == usize::MAX);
    let qb: Box<[()]> = unsafe { Box::from_raw(core::ptr::slice_from_raw_parts_mut(core::ptr::NonNull::<()>::dangling().as_ptr(), m)) };
    match cast::try_from_component_slice_box::<Zst<N>>(qb) {
        Ok(t) => assert!(m % N == 0 && t.len() == m / N),
        Err(e) => assert!(m % N != 0 && e.values.len() == m),
    }
}
