//! C07 / C15 support: `N32`, an f32 component type whose *transcendental* functions are nondeterministic.
//!
//! CBMC models `+ - * / sqrt floor ceil abs min max` and comparisons of IEEE-754 binary32 exactly, but its `sinf`, `cosf`,
//! `powf`, `cbrtf`, `expf` are crude approximations (DESIGN.md section 0): a harness that let them reach CBMC would report
//! spurious counterexamples. `N32` keeps the exact operations exact (they are `f32`'s) and replaces each transcendental call
//! by an arbitrary value constrained only by what *every* conforming libm result satisfies (range and sign; NaN exactly
//! where the real function is undefined). A kernel proved finite over `N32` is therefore finite for every libm; a
//! counterexample is replayed natively with the *real* f32 functions before it is reported.
//!
//! Contracts (x, y finite unless stated):
//! * `sin`, `cos`: some value in [-1, 1]; `sin_cos` two such values (no Pythagorean coupling - weaker, hence sound);
//! * `tan`: any non-NaN value; `atan`: in [-pi/2, pi/2]; `atan2`: in [-pi, pi]; `asin` / `acos`: NaN outside [-1, 1];
//! * `sqrt`: the exact IEEE `sqrtf` (NaN for negative arguments);
//! * `powf(x, e)`: NaN for x < 0 (non-integer e is all the code uses), for x >= 0 and 0 < e <= 1 a value in
//!   [0, max(1, x)], otherwise any non-negative non-NaN value (possibly +inf: overflow is a legitimate libm result);
//! * `cbrt`: sign of x, magnitude <= max(1, |x|); `exp`: non-negative, non-NaN; `ln`: NaN for x < 0, else non-NaN.
//!
//! Under native replay (`cargo kani playback`, a test build) the same methods call the real `f32` functions; an infinite or NaN
//! argument never draws a value (non-finite arguments to transcendental functions are outside every harness's domain: the
//! model then returns NaN or the limit, which fails the harness's finiteness assertion just as the real function would).
use core::ops::{Add, AddAssign, Div, DivAssign, Mul, MulAssign, Neg, Sub, SubAssign};

#[derive(Clone, Copy, PartialEq, PartialOrd, Debug, Default)]
pub struct N32(pub f32);

impl kani::Arbitrary for N32 {
    fn any() -> Self {
        N32(kani::any())
    }
}

#[cfg(not(test))]
fn nd(lo: f32, hi: f32) -> f32 {
    let v: f32 = kani::any();
    kani::assume(v >= lo && v <= hi);
    v
}

// Verification (cfg(kani), not a test build): the contract model. Native replay (`cargo kani playback` builds the crate
// as a test): the recorded nondeterministic value is consumed, to stay aligned with the recorded `kani::any()` sequence,
// and the REAL f32 function is called - a counterexample only counts if it survives the real libm.
macro_rules! transcendental {
    ($name:ident ( $($arg:ident),* ) -> native $native:expr, model $model:expr) => {
        #[cfg(test)]
        fn $name($($arg: f32),*) -> f32 {
            if $( $arg.is_finite() && )* true {
                let _: f32 = kani::any();
            }
            $native
        }
        #[cfg(not(test))]
        fn $name($($arg: f32),*) -> f32 { $model }
    };
}

// Every model draws exactly one nondeterministic value when all arguments are finite and none otherwise (the replay build
// relies on that), and constrains it afterwards.
fn pick(cond_nan: bool, lo: f32, hi: f32) -> f32 {
    #[cfg(not(test))]
    {
        let v = nd(f32::NEG_INFINITY, f32::INFINITY);
        if cond_nan {
            return f32::NAN;
        }
        kani::assume(v >= lo && v <= hi);
        v
    }
    #[cfg(test)]
    {
        let _ = (cond_nan, lo, hi);
        unreachable!()
    }
}
fn nan_or(x: f32) -> f32 {
    if x.is_nan() {
        x
    } else {
        f32::NAN
    }
}
transcendental!(t_sin(x) -> native x.sin(), model if !x.is_finite() { nan_or(x) } else if x == 0.0 { pick(false, 0.0, 0.0) } else { pick(false, -1.0, 1.0) });
transcendental!(t_cos(x) -> native x.cos(), model if !x.is_finite() { nan_or(x) } else if x == 0.0 { pick(false, 1.0, 1.0) } else { pick(false, -1.0, 1.0) });
transcendental!(t_tan(x) -> native x.tan(), model if !x.is_finite() { nan_or(x) } else { pick(false, f32::NEG_INFINITY, f32::INFINITY) });
transcendental!(t_atan(x) -> native x.atan(), model if !x.is_finite() { if x.is_nan() { x } else if x > 0.0 { 1.5707964 } else { -1.5707964 } } else { pick(false, -1.5707964, 1.5707964) });
transcendental!(t_atan2(y, x) -> native y.atan2(x), model if !(x.is_finite() && y.is_finite()) { f32::NAN } else { pick(false, -3.1415927, 3.1415927) });
transcendental!(t_asin(x) -> native x.asin(), model if !x.is_finite() { f32::NAN } else { pick(!(x >= -1.0 && x <= 1.0), -1.5707964, 1.5707964) });
transcendental!(t_acos(x) -> native x.acos(), model if !x.is_finite() { f32::NAN } else { pick(!(x >= -1.0 && x <= 1.0), 0.0, 3.1415927) });
transcendental!(t_powf(x, e) -> native x.powf(e), model
    if !(x.is_finite() && e.is_finite()) { f32::NAN }
    else if e > 0.0 && e <= 1.0 { pick(x < 0.0, 0.0, if x > 1.0 { x } else { 1.0 }) }
    else { pick(x < 0.0, 0.0, f32::INFINITY) });
transcendental!(t_cbrt(x) -> native x.cbrt(), model
    if !x.is_finite() { x }
    else if x >= 0.0 { pick(false, 0.0, if x > 1.0 { x } else { 1.0 }) }
    else { pick(false, if x < -1.0 { x } else { -1.0 }, 0.0) });
transcendental!(t_exp(x) -> native x.exp(), model if !x.is_finite() { if x < 0.0 { 0.0 } else { x } } else { pick(false, 0.0, f32::INFINITY) });
transcendental!(t_ln(x) -> native x.ln(), model if !x.is_finite() { if x > 0.0 { x } else { f32::NAN } } else { pick(x < 0.0, f32::NEG_INFINITY, f32::INFINITY) });

macro_rules! binop {
    ($Tr:ident, $f:ident, $TrA:ident, $fa:ident, $op:tt) => {
        impl $Tr for N32 {
            type Output = N32;
            fn $f(self, o: N32) -> N32 {
                N32(self.0 $op o.0)
            }
        }
        impl<'a> $Tr<&'a N32> for N32 {
            type Output = N32;
            fn $f(self, o: &'a N32) -> N32 {
                N32(self.0 $op o.0)
            }
        }
        impl<'a> $Tr<N32> for &'a N32 {
            type Output = N32;
            fn $f(self, o: N32) -> N32 {
                N32(self.0 $op o.0)
            }
        }
        impl<'a, 'b> $Tr<&'b N32> for &'a N32 {
            type Output = N32;
            fn $f(self, o: &'b N32) -> N32 {
                N32(self.0 $op o.0)
            }
        }
        impl $TrA for N32 {
            fn $fa(&mut self, o: N32) {
                self.0 = self.0 $op o.0;
            }
        }
        impl<'a> $TrA<&'a N32> for N32 {
            fn $fa(&mut self, o: &'a N32) {
                self.0 = self.0 $op o.0;
            }
        }
    };
}
binop!(Add, add, AddAssign, add_assign, +);
binop!(Sub, sub, SubAssign, sub_assign, -);
binop!(Mul, mul, MulAssign, mul_assign, *);
binop!(Div, div, DivAssign, div_assign, /);
impl Neg for N32 {
    type Output = N32;
    fn neg(self) -> N32 {
        N32(-self.0)
    }
}
impl<'a> Neg for &'a N32 {
    type Output = N32;
    fn neg(self) -> N32 {
        N32(-self.0)
    }
}

impl palette::num::Real for N32 {
    fn from_f64(n: f64) -> Self {
        N32(n as f32)
    }
}
impl palette::num::FromScalar for N32 {
    type Scalar = N32;
    fn from_scalar(s: N32) -> N32 {
        s
    }
}
impl palette::num::Zero for N32 {
    fn zero() -> Self {
        N32(0.0)
    }
}
impl palette::num::One for N32 {
    fn one() -> Self {
        N32(1.0)
    }
}
impl palette::bool_mask::HasBoolMask for N32 {
    type Mask = bool;
}
impl palette::num::PartialCmp for N32 {
    fn lt(&self, o: &N32) -> bool {
        self.0 < o.0
    }
    fn lt_eq(&self, o: &N32) -> bool {
        self.0 <= o.0
    }
    fn eq(&self, o: &N32) -> bool {
        self.0 == o.0
    }
    fn neq(&self, o: &N32) -> bool {
        self.0 != o.0
    }
    fn gt_eq(&self, o: &N32) -> bool {
        self.0 >= o.0
    }
    fn gt(&self, o: &N32) -> bool {
        self.0 > o.0
    }
}
impl palette::num::MinMax for N32 {
    fn min(self, o: N32) -> N32 {
        N32(f32::min(self.0, o.0))
    }
    fn max(self, o: N32) -> N32 {
        N32(f32::max(self.0, o.0))
    }
    fn min_max(self, o: N32) -> (N32, N32) {
        if self.0 > o.0 {
            (o, self)
        } else {
            (self, o)
        }
    }
}
impl palette::num::IsValidDivisor for N32 {
    fn is_valid_divisor(&self) -> bool {
        self.0.is_normal()
    }
}
impl palette::num::Clamp for N32 {
    fn clamp(self, min: N32, max: N32) -> N32 {
        N32(f32::clamp(self.0, min.0, max.0))
    }
    fn clamp_min(self, min: N32) -> N32 {
        N32(f32::max(self.0, min.0))
    }
    fn clamp_max(self, max: N32) -> N32 {
        N32(f32::min(self.0, max.0))
    }
}
impl palette::num::ClampAssign for N32 {
    fn clamp_assign(&mut self, min: N32, max: N32) {
        *self = palette::num::Clamp::clamp(*self, min, max);
    }
    fn clamp_min_assign(&mut self, min: N32) {
        *self = palette::num::Clamp::clamp_min(*self, min);
    }
    fn clamp_max_assign(&mut self, max: N32) {
        *self = palette::num::Clamp::clamp_max(*self, max);
    }
}
impl palette::num::Abs for N32 {
    fn abs(self) -> N32 {
        N32(self.0.abs())
    }
}
impl palette::num::Signum for N32 {
    fn signum(self) -> N32 {
        N32(self.0.signum())
    }
}
impl palette::num::Sqrt for N32 {
    fn sqrt(self) -> N32 {
        N32(self.0.sqrt())
    }
}
impl palette::num::Recip for N32 {
    fn recip(self) -> N32 {
        N32(1.0 / self.0)
    }
}
impl palette::num::Powi for N32 {
    fn powi(self, e: i32) -> N32 {
        // the code base only uses small non-negative integer powers; repeated multiplication is what libm's powi does for them
        let mut r = 1.0f32;
        let mut k = 0;
        while k < e && k < 8 {
            r *= self.0;
            k += 1;
        }
        N32(r)
    }
}
impl palette::num::Round for N32 {
    fn round(self) -> N32 {
        N32(self.0.round())
    }
    fn floor(self) -> N32 {
        N32(self.0.floor())
    }
    fn ceil(self) -> N32 {
        N32(self.0.ceil())
    }
}
impl palette::num::MulAdd for N32 {
    fn mul_add(self, m: N32, a: N32) -> N32 {
        N32(self.0 * m.0 + a.0)
    }
}
impl palette::num::MulSub for N32 {
    fn mul_sub(self, m: N32, s: N32) -> N32 {
        N32(self.0 * m.0 - s.0)
    }
}
impl palette::num::Hypot for N32 {
    fn hypot(self, o: N32) -> N32 {
        N32((self.0 * self.0 + o.0 * o.0).sqrt())
    }
}
impl palette::num::Trigonometry for N32 {
    fn sin(self) -> N32 {
        N32(t_sin(self.0))
    }
    fn cos(self) -> N32 {
        N32(t_cos(self.0))
    }
    fn sin_cos(self) -> (N32, N32) {
        (N32(t_sin(self.0)), N32(t_cos(self.0)))
    }
    fn tan(self) -> N32 {
        N32(t_tan(self.0))
    }
    fn asin(self) -> N32 {
        N32(t_asin(self.0))
    }
    fn acos(self) -> N32 {
        N32(t_acos(self.0))
    }
    fn atan(self) -> N32 {
        N32(t_atan(self.0))
    }
    fn atan2(self, o: N32) -> N32 {
        N32(t_atan2(self.0, o.0))
    }
}
impl palette::num::Powf for N32 {
    fn powf(self, e: N32) -> N32 {
        N32(t_powf(self.0, e.0))
    }
}
impl palette::num::Cbrt for N32 {
    fn cbrt(self) -> N32 {
        N32(t_cbrt(self.0))
    }
}
impl palette::num::Exp for N32 {
    fn exp(self) -> N32 {
        N32(t_exp(self.0))
    }
}
impl palette::num::Ln for N32 {
    fn ln(self) -> N32 {
        N32(t_ln(self.0))
    }
}
impl palette::angle::HalfRotation for N32 {
    fn half_rotation() -> N32 {
        N32(180.0)
    }
}
impl palette::angle::FullRotation for N32 {
    fn full_rotation() -> N32 {
        N32(360.0)
    }
}
impl palette::angle::RealAngle for N32 {
    fn radians_to_degrees(self) -> N32 {
        N32(self.0.to_degrees())
    }
    fn degrees_to_radians(self) -> N32 {
        N32(self.0.to_radians())
    }
}
impl palette::angle::SignedAngle for N32 {
    fn normalize_signed_angle(self) -> N32 {
        N32(palette::angle::SignedAngle::normalize_signed_angle(self.0))
    }
}
impl palette::angle::UnsignedAngle for N32 {
    fn normalize_unsigned_angle(self) -> N32 {
        N32(palette::angle::UnsignedAngle::normalize_unsigned_angle(self.0))
    }
}
impl palette::angle::AngleEq for N32 {
    fn angle_eq(&self, o: &N32) -> bool {
        palette::angle::AngleEq::angle_eq(&self.0, &o.0)
    }
}
