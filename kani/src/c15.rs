//! C15, bit-precise kernels (Engine K): the hexcone conversions in f32 for EVERY hue bit pattern up to a million degrees.
//! Engine S decides the real-arithmetic statement; what it cannot see is a hue whose normal form *rounds* onto a sector
//! boundary the code does not expect (x - floor(x / 360) * 360 is exactly 360.0 for tiny negative x).
use palette::convert::FromColorUnclamped;
use palette::encoding::Srgb;
use palette::{Hsl, Hsv, Hwb, Srgb as SrgbColor};

fn hue_ok(h: f32) -> bool {
    h >= -1.0e6 && h <= 1.0e6
}

/// HSV -> RGB, full saturation and value, every hue: the result is in [0,1]^3, its largest component is exactly the value
/// (1) and its smallest exactly value x (1 - saturation) (0) - no hue may collapse a saturated colour to grey
/// @fn <Rgb<S,f32> as FromColorUnclamped<Hsv<S,f32>>>::from_color_unclamped
/// @fn <f32 as UnsignedAngle>::normalize_unsigned_angle
/// @bound all f32 hues with |h| <= 1e6 (every bit pattern, incl. -0.0 and subnormals); S = V = 1
#[kani::proof]
pub fn c15_hsv_to_rgb_f32_saturated_every_hue() {
    let h: f32 = kani::any();
    kani::assume(hue_ok(h));
    kani::cover!(true);
    let c = SrgbColor::<f32>::from_color_unclamped(Hsv::<Srgb, f32>::new(h, 1.0, 1.0));
    let (mx, mn) = (c.red.max(c.green).max(c.blue), c.red.min(c.green).min(c.blue));
    assert!(mn >= 0.0 && mx <= 1.0, "HSV -> RGB left [0,1]");
    assert!(mx == 1.0, "HSV -> RGB: largest component is not the value");
    assert!(mn == 0.0, "HSV -> RGB: smallest component is not value * (1 - saturation)");
}

/// HSL -> RGB, full saturation at lightness 1/2, every hue: in [0,1]^3 with largest component 1 and smallest 0
/// @fn <Rgb<S,f32> as FromColorUnclamped<Hsl<S,f32>>>::from_color_unclamped
/// @bound all f32 hues with |h| <= 1e6; S = 1, L = 0.5
#[kani::proof]
pub fn c15_hsl_to_rgb_f32_saturated_every_hue() {
    let h: f32 = kani::any();
    kani::assume(hue_ok(h));
    kani::cover!(true);
    let c = SrgbColor::<f32>::from_color_unclamped(Hsl::<Srgb, f32>::new(h, 1.0, 0.5));
    let (mx, mn) = (c.red.max(c.green).max(c.blue), c.red.min(c.green).min(c.blue));
    assert!(mn >= 0.0 && mx <= 1.0, "HSL -> RGB left [0,1]");
    assert!(mx == 1.0, "HSL -> RGB: largest component is not L + C/2");
    assert!(mn == 0.0, "HSL -> RGB: smallest component is not L - C/2");
}

/// HWB -> RGB, no whiteness and no blackness, every hue: in [0,1]^3 with largest component 1 and smallest 0
/// @fn <Rgb<S,f32> as FromColorUnclamped<Hwb<S,f32>>>::from_color_unclamped
/// @fn <Hsv<S,f32> as FromColorUnclamped<Hwb<S,f32>>>::from_color_unclamped
/// @bound all f32 hues with |h| <= 1e6; W = B = 0
#[kani::proof]
pub fn c15_hwb_to_rgb_f32_saturated_every_hue() {
    let h: f32 = kani::any();
    kani::assume(hue_ok(h));
    kani::cover!(true);
    let c = SrgbColor::<f32>::from_color_unclamped(Hwb::<Srgb, f32>::new(h, 0.0, 0.0));
    let (mx, mn) = (c.red.max(c.green).max(c.blue), c.red.min(c.green).min(c.blue));
    assert!(mn >= 0.0 && mx <= 1.0, "HWB -> RGB left [0,1]");
    assert!(mx == 1.0 && mn == 0.0, "HWB -> RGB: a pure hue did not keep its largest / smallest component");
}

// Attempted and not decided: all three of hue, saturation and value symbolic at once (two symbolic f32 multiplications on top of
// the hue normalisation) did not finish in 50 minutes; the two harnesses below make one of saturation / value symbolic each.

/// HSV -> RGB, every hue, full value and every saturation in [0,1]: in [0,1]^3, largest component exactly the value (1),
/// smallest 1 - saturation to within 1 ulp of 1
/// @fn <Rgb<S,f32> as FromColorUnclamped<Hsv<S,f32>>>::from_color_unclamped
/// @bound all f32 hues with |h| <= 1e6, all f32 S in [0,1]; V = 1
/// @thorough
#[kani::proof]
pub fn c15_hsv_to_rgb_f32_full_value_every_hue_and_saturation() {
    let (h, s): (f32, f32) = (kani::any(), kani::any());
    kani::assume(hue_ok(h) && s >= 0.0 && s <= 1.0);
    kani::cover!(true);
    let c = SrgbColor::<f32>::from_color_unclamped(Hsv::<Srgb, f32>::new(h, s, 1.0));
    let (mx, mn) = (c.red.max(c.green).max(c.blue), c.red.min(c.green).min(c.blue));
    assert!(mn >= 0.0 && mx <= 1.0, "HSV -> RGB left [0,1]");
    assert!(mx == 1.0, "HSV -> RGB: largest component is not the value");
    assert!((mn - (1.0 - s)).abs() <= 1.2e-7, "HSV -> RGB: smallest component is not value * (1 - saturation)");
}

/// HSV -> RGB, every hue, full saturation and every value in [0,1]: in [0,1]^3, largest component exactly the value,
/// smallest exactly 0
/// @fn <Rgb<S,f32> as FromColorUnclamped<Hsv<S,f32>>>::from_color_unclamped
/// @bound all f32 hues with |h| <= 1e6, all f32 V in [0,1]; S = 1
/// @thorough
#[kani::proof]
pub fn c15_hsv_to_rgb_f32_full_saturation_every_hue_and_value() {
    let (h, v): (f32, f32) = (kani::any(), kani::any());
    kani::assume(hue_ok(h) && v >= 0.0 && v <= 1.0);
    kani::cover!(true);
    let c = SrgbColor::<f32>::from_color_unclamped(Hsv::<Srgb, f32>::new(h, 1.0, v));
    let (mx, mn) = (c.red.max(c.green).max(c.blue), c.red.min(c.green).min(c.blue));
    assert!(mn >= 0.0 && mx <= 1.0, "HSV -> RGB left [0,1]");
    assert!(mx == v, "HSV -> RGB: largest component is not the value");
    assert!(mn == 0.0, "HSV -> RGB: smallest component is not 0 at full saturation");
}
