//! C08, bit-precise complement (Engine K) of the real-arithmetic blend obligations: the non-zero-alpha rule of
//! premultiplication for *every* non-zero normal alpha, however small.
use palette::blend::Premultiply;
use palette::LinSrgb;

/// premultiplying white by any normal non-zero alpha and unpremultiplying returns exactly white (alpha * 1 / alpha), and a
/// zero alpha returns the zero colour: no non-zero alpha is treated as zero (f32)
/// @fn impl_premultiply! (Rgb): Premultiply::premultiply, Premultiply::unpremultiply
/// @fn <f32 as IsValidDivisor>::is_valid_divisor
/// @bound all normal f32 alpha in (0, 1] and alpha = 0
#[kani::proof]
pub fn c08_f32_unpremultiply_any_nonzero_alpha() {
    let a: f32 = kani::any();
    kani::assume((a.is_normal() && a > 0.0 && a <= 1.0) || a == 0.0);
    kani::cover!(a > 0.0 && a < 1e-30);
    let back = LinSrgb::new(1.0f32, 1.0, 1.0).premultiply(a).unpremultiply();
    if a == 0.0 {
        assert!(back.color.red == 0.0 && back.color.green == 0.0 && back.color.blue == 0.0);
    } else {
        assert!(back.color.red == 1.0 && back.color.green == 1.0 && back.color.blue == 1.0);
    }
    assert!(back.alpha == a);
}
// (the f64 twin does not finish within 600 s - 53-bit symbolic division; the f64 validity test itself is decided by
// c07_is_valid_divisor_is_normal)
