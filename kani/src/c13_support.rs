//! C13 support: the harness wrapping-integer component type `W` and field-wise views of the colour types used by the
//! in-place conversion harnesses.
//!
//! C13 is about plumbing (same memory, element-wise equality with the out-of-place conversion, guard state machine); the
//! numeric content of the conversions belongs to other properties. `W` therefore implements exactly the `palette::num`
//! traits that `Hsv <-> Hwb <-> Hsl` (conversion and clamp) need, over wrapping 8-bit signed integer arithmetic: every
//! conversion is an ordinary total function that a SAT solver decides in seconds, while the real generic palette code
//! (conversion impls, `Clamp`, the `FromColor` blanket impl, `ArrayCast`, guards, `map_vec_in_place`) is what is executed.
//! (Measured: the same harness over a 16-bit `W` needs 312 s instead of 8 s - the solver has to prove two copies of
//! the multiplier/divider circuits equal.)
//!
//! Constants use a 4.4 fixed-point scale (`one() == 16`, `from_f64(0.5) == 8`, `from_f64(2.0) == 32`), so that `clamp`
//! to `[0, one]` keeps 17 distinct values per component; `+ - * /` and negation are the plain wrapping `i8` operations,
//! division by zero gives zero (total).
use core::ops::{Add, Div, DivAssign, Mul, Neg, Sub};
use palette::encoding::Srgb;
use palette::{Hsl, Hsv, Hwb, RgbHue};

#[derive(Clone, Copy, PartialEq, Debug)]
pub struct W(pub i8);

impl kani::Arbitrary for W {
    fn any() -> Self {
        W(kani::any())
    }
}

impl palette::num::Real for W {
    fn from_f64(n: f64) -> Self {
        W((n * 16.0) as i64 as i8)
    }
}
impl palette::num::Zero for W {
    fn zero() -> Self {
        W(0)
    }
}
impl palette::num::One for W {
    fn one() -> Self {
        W(16)
    }
}

fn wdiv(a: i8, b: i8) -> i8 {
    if b == 0 {
        0
    } else {
        a.wrapping_div(b)
    }
}

impl Add for W {
    type Output = W;
    fn add(self, o: W) -> W {
        W(self.0.wrapping_add(o.0))
    }
}
impl Sub for W {
    type Output = W;
    fn sub(self, o: W) -> W {
        W(self.0.wrapping_sub(o.0))
    }
}
impl Mul for W {
    type Output = W;
    fn mul(self, o: W) -> W {
        W(self.0.wrapping_mul(o.0))
    }
}
impl Div for W {
    type Output = W;
    fn div(self, o: W) -> W {
        W(wdiv(self.0, o.0))
    }
}
impl<'a> Add<&'a W> for W {
    type Output = W;
    fn add(self, o: &'a W) -> W {
        self + *o
    }
}
impl<'a> Sub<&'a W> for W {
    type Output = W;
    fn sub(self, o: &'a W) -> W {
        self - *o
    }
}
impl<'a> Mul<&'a W> for W {
    type Output = W;
    fn mul(self, o: &'a W) -> W {
        self * *o
    }
}
impl<'a> Div<&'a W> for W {
    type Output = W;
    fn div(self, o: &'a W) -> W {
        self / *o
    }
}
impl Neg for W {
    type Output = W;
    fn neg(self) -> W {
        W(self.0.wrapping_neg())
    }
}
impl DivAssign for W {
    fn div_assign(&mut self, o: W) {
        *self = *self / o;
    }
}

impl palette::bool_mask::HasBoolMask for W {
    type Mask = bool;
}
impl palette::num::PartialCmp for W {
    fn lt(&self, o: &W) -> bool {
        self.0 < o.0
    }
    fn lt_eq(&self, o: &W) -> bool {
        self.0 <= o.0
    }
    fn eq(&self, o: &W) -> bool {
        self.0 == o.0
    }
    fn neq(&self, o: &W) -> bool {
        self.0 != o.0
    }
    fn gt_eq(&self, o: &W) -> bool {
        self.0 >= o.0
    }
    fn gt(&self, o: &W) -> bool {
        self.0 > o.0
    }
}
impl palette::num::IsValidDivisor for W {
    fn is_valid_divisor(&self) -> bool {
        self.0 != 0
    }
}
impl palette::num::Clamp for W {
    fn clamp(self, min: W, max: W) -> W {
        if self.0 < min.0 {
            min
        } else if self.0 > max.0 {
            max
        } else {
            self
        }
    }
    fn clamp_min(self, min: W) -> W {
        if self.0 < min.0 {
            min
        } else {
            self
        }
    }
    fn clamp_max(self, max: W) -> W {
        if self.0 > max.0 {
            max
        } else {
            self
        }
    }
}
impl palette::num::ClampAssign for W {
    fn clamp_assign(&mut self, min: W, max: W) {
        *self = palette::num::Clamp::clamp(*self, min, max);
    }
    fn clamp_min_assign(&mut self, min: W) {
        *self = palette::num::Clamp::clamp_min(*self, min);
    }
    fn clamp_max_assign(&mut self, max: W) {
        *self = palette::num::Clamp::clamp_max(*self, max);
    }
}

/// The three layout-compatible palette colour types (`ArrayCast::Array == [W; 3]`) with all six pairwise conversions.
pub type A = Hsv<Srgb, W>;
pub type B = Hwb<Srgb, W>;
pub type C = Hsl<Srgb, W>;

/// Field-wise construction and observation of a colour (independent of `palette::cast`).
pub trait Col: Copy {
    fn mk(h: W, x: W, y: W) -> Self;
    fn raw(&self) -> (i8, i8, i8);
}
impl Col for A {
    fn mk(h: W, x: W, y: W) -> Self {
        Hsv::new_const(RgbHue::new(h), x, y)
    }
    fn raw(&self) -> (i8, i8, i8) {
        (self.hue.into_inner().0, self.saturation.0, self.value.0)
    }
}
impl Col for B {
    fn mk(h: W, x: W, y: W) -> Self {
        Hwb::new_const(RgbHue::new(h), x, y)
    }
    fn raw(&self) -> (i8, i8, i8) {
        (self.hue.into_inner().0, self.whiteness.0, self.blackness.0)
    }
}
impl Col for C {
    fn mk(h: W, x: W, y: W) -> Self {
        Hsl::new_const(RgbHue::new(h), x, y)
    }
    fn raw(&self) -> (i8, i8, i8) {
        (self.hue.into_inner().0, self.saturation.0, self.lightness.0)
    }
}

/// An arbitrary colour: three unconstrained symbolic components (3 x `kani::any::<i8>()`, in field order).
pub fn any_col<T: Col>() -> T {
    T::mk(kani::any(), kani::any(), kani::any())
}

/// Component-wise equality (no memcmp loop, no index checks).
pub fn same<T: Col>(x: &T, y: &T) -> bool {
    x.raw() == y.raw()
}

/// Component-wise equality of a colour with a raw component array as seen through `palette::cast`.
pub fn same_raw<T: Col>(x: &T, y: &[W; 3]) -> bool {
    let [a, b, c] = *y;
    x.raw() == (a.0, b.0, c.0)
}

/// Address of a colour / of the first element of a colour buffer.
pub fn addr<T>(p: *const T) -> usize {
    p as usize
}

/// Transparent colours: `Alpha<Hsv<Srgb, W>, W>` and `Alpha<Hwb<Srgb, W>, W>` (`ArrayCast::Array == [W; 4]`).
pub type Aa = palette::Alpha<A, W>;
pub type Ba = palette::Alpha<B, W>;

/// An arbitrary transparent colour: four unconstrained symbolic components (colour fields, then alpha).
pub fn any_alpha<T: Col>() -> palette::Alpha<T, W> {
    let color = any_col::<T>();
    palette::Alpha { color, alpha: kani::any() }
}

/// Component-wise equality of transparent colours.
pub fn same_alpha<T: Col>(x: &palette::Alpha<T, W>, y: &palette::Alpha<T, W>) -> bool {
    same(&x.color, &y.color) && x.alpha.0 == y.alpha.0
}
