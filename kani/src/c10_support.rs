//! C10 support: the plumbing component type `W` for the variant-agreement obligations.
//!
//! The agreement part of C10 says that the by-value, assigning, slice and `Alpha`/`PreAlpha` forms of an operator give
//! *exactly* the same colour. Each form is separately written macro output, so the obligation is that all forms apply the
//! same operations to the same operands in the same order - then they agree bit for bit for every component type,
//! `f32`/`f64` included. `W` decides that by bit-vector reasoning instead of by proving two floating-point circuits equal:
//!
//! * `W(i16)`; constants are 12.4 fixed point (`from_f64(1.0) == 16`, `from_f64(360.0) == 5760`), comparisons, `min`/`max`
//!   and `clamp` are the ordinary signed integer ones (so the `factor >= 0` / clamp control flow is the real one);
//! * `+`, `*`, `/`, unary `-` and the angle normal forms are fixed *scrambled* functions (rotate/xor/wrapping add on the 16
//!   bits) that deliberately satisfy no ring identity: no associativity, no distributivity, no cancellation. The only
//!   identities kept are the ones IEEE floats also satisfy bit for bit: `a + b == b + a`, `a * b == b * a`,
//!   `a - b == a + (-b)`, `-(-a) == a`, and `x op= y` is `x = x op y`. (Over a genuine ring such as wrapping integers, two
//!   forms that differ by a rewrite like `a + (b - a) * f` vs `a * (1 - f) + b * f` would agree although they differ in
//!   floating point; over `W` they do not.)
use core::ops::{Add, AddAssign, Div, DivAssign, Mul, MulAssign, Neg, Sub, SubAssign};

#[derive(Clone, Copy, PartialEq, Debug)]
pub struct W(pub i16);

impl kani::Arbitrary for W {
    fn any() -> Self {
        W(kani::any())
    }
}

fn sc_add(a: i16, b: i16) -> i16 {
    let f = |x: i16| (x as u16).rotate_left(3) ^ 0x5A5A;
    f(a).wrapping_add(f(b)) as i16
}
fn sc_neg(a: i16) -> i16 {
    !a
}
fn sc_mul(a: i16, b: i16) -> i16 {
    let g = |x: i16| (x as u16).rotate_left(7) ^ 0x3C3C;
    (g(a).wrapping_add(g(b)) ^ 0x0FF0) as i16
}
fn sc_div(a: i16, b: i16) -> i16 {
    ((a as u16).rotate_left(5).wrapping_sub((b as u16).rotate_left(11)) ^ 0x6666) as i16
}

impl palette::num::Real for W {
    fn from_f64(n: f64) -> Self {
        W((n * 16.0) as i64 as i16)
    }
}
impl palette::num::Zero for W {
    fn zero() -> Self {
        W(0)
    }
}
impl palette::num::One for W {
    fn one() -> Self {
        W(16)
    }
}
impl Add for W {
    type Output = W;
    fn add(self, o: W) -> W {
        W(sc_add(self.0, o.0))
    }
}
impl Sub for W {
    type Output = W;
    fn sub(self, o: W) -> W {
        W(sc_add(self.0, sc_neg(o.0)))
    }
}
impl Mul for W {
    type Output = W;
    fn mul(self, o: W) -> W {
        W(sc_mul(self.0, o.0))
    }
}
impl Div for W {
    type Output = W;
    fn div(self, o: W) -> W {
        W(sc_div(self.0, o.0))
    }
}
impl Neg for W {
    type Output = W;
    fn neg(self) -> W {
        W(sc_neg(self.0))
    }
}
impl<'a> Add<&'a W> for W {
    type Output = W;
    fn add(self, o: &'a W) -> W {
        self + *o
    }
}
impl<'a> Sub<&'a W> for W {
    type Output = W;
    fn sub(self, o: &'a W) -> W {
        self - *o
    }
}
impl<'a> Mul<&'a W> for W {
    type Output = W;
    fn mul(self, o: &'a W) -> W {
        self * *o
    }
}
impl<'a> Div<&'a W> for W {
    type Output = W;
    fn div(self, o: &'a W) -> W {
        self / *o
    }
}
impl AddAssign for W {
    fn add_assign(&mut self, o: W) {
        *self = *self + o;
    }
}
impl SubAssign for W {
    fn sub_assign(&mut self, o: W) {
        *self = *self - o;
    }
}
impl MulAssign for W {
    fn mul_assign(&mut self, o: W) {
        *self = *self * o;
    }
}
impl DivAssign for W {
    fn div_assign(&mut self, o: W) {
        *self = *self / o;
    }
}

impl palette::bool_mask::HasBoolMask for W {
    type Mask = bool;
}
impl palette::num::PartialCmp for W {
    fn lt(&self, o: &W) -> bool {
        self.0 < o.0
    }
    fn lt_eq(&self, o: &W) -> bool {
        self.0 <= o.0
    }
    fn eq(&self, o: &W) -> bool {
        self.0 == o.0
    }
    fn neq(&self, o: &W) -> bool {
        self.0 != o.0
    }
    fn gt_eq(&self, o: &W) -> bool {
        self.0 >= o.0
    }
    fn gt(&self, o: &W) -> bool {
        self.0 > o.0
    }
}
impl palette::num::MinMax for W {
    fn min(self, o: W) -> W {
        if o.0 < self.0 {
            o
        } else {
            self
        }
    }
    fn max(self, o: W) -> W {
        if o.0 > self.0 {
            o
        } else {
            self
        }
    }
    fn min_max(self, o: W) -> (W, W) {
        if self.0 > o.0 {
            (o, self)
        } else {
            (self, o)
        }
    }
}
impl palette::num::IsValidDivisor for W {
    fn is_valid_divisor(&self) -> bool {
        self.0 != 0
    }
}
impl palette::num::Clamp for W {
    fn clamp(self, min: W, max: W) -> W {
        if self.0 < min.0 {
            min
        } else if self.0 > max.0 {
            max
        } else {
            self
        }
    }
    fn clamp_min(self, min: W) -> W {
        if self.0 < min.0 {
            min
        } else {
            self
        }
    }
    fn clamp_max(self, max: W) -> W {
        if self.0 > max.0 {
            max
        } else {
            self
        }
    }
}
impl palette::num::ClampAssign for W {
    fn clamp_assign(&mut self, min: W, max: W) {
        *self = palette::num::Clamp::clamp(*self, min, max);
    }
    fn clamp_min_assign(&mut self, min: W) {
        *self = palette::num::Clamp::clamp_min(*self, min);
    }
    fn clamp_max_assign(&mut self, max: W) {
        *self = palette::num::Clamp::clamp_max(*self, max);
    }
}
impl palette::angle::HalfRotation for W {
    fn half_rotation() -> W {
        W(180 * 16)
    }
}
impl palette::angle::FullRotation for W {
    fn full_rotation() -> W {
        W(360 * 16)
    }
}
impl palette::angle::RealAngle for W {
    fn radians_to_degrees(self) -> W {
        W(((self.0 as u16).rotate_left(3) ^ 0x1111) as i16)
    }
    fn degrees_to_radians(self) -> W {
        W(((self.0 as u16).rotate_left(5) ^ 0x2222) as i16)
    }
}
impl palette::angle::SignedAngle for W {
    fn normalize_signed_angle(self) -> W {
        W(((self.0 as u16).rotate_left(9) ^ 0x4444) as i16)
    }
}
impl palette::angle::UnsignedAngle for W {
    fn normalize_unsigned_angle(self) -> W {
        W(((self.0 as u16).rotate_left(11) ^ 0x8888) as i16)
    }
}
