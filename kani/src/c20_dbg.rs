use crate::c20_support::*;
use palette::{Hsv, Hsva, Srgb, Srgba};
use serde::{Deserialize, Serialize};

/// dbg
#[kani::proof]
#[kani::unwind(13)]
pub fn c20_dbg_p1() {
    let h: u32 = kani::any();
    kani::cover!(true);
    let rec = Rec::of(Fmt::Named, &[Tok::Struct("Hsv", 4), Tok::Field("hue"), Tok::F32(h), Tok::Field("saturation"), Tok::End]);
    let mut p = Play::new(&rec);
    let t = p.toks[p.pos];
    p.pos += 1;
    assert!(t.name == "Hsv");
    let t = p.toks[p.pos];
    p.pos += 1;
    assert!(t.name == "hue");
    assert!(t.name != "alpha");
}

/// dbg
#[kani::proof]
#[kani::unwind(13)]
pub fn c20_dbg_p2() {
    let h: u32 = kani::any();
    let s: u32 = kani::any();
    let v: u32 = kani::any();
    kani::cover!(true);
    let rec = Rec::of(Fmt::Named, &[
        Tok::Struct("Hsv", 3), Tok::Field("hue"), Tok::F32(h), Tok::Field("saturation"), Tok::F32(s), Tok::Field("value"), Tok::F32(v), Tok::End
    ]);
    let d: Result<Hsv<palette::encoding::Srgb, f32>, E> = replay(&rec);
    match d {
        Ok(d) => {
            assert!(d.hue.into_inner().to_bits() == h);
            assert!(d.saturation.to_bits() == s);
            assert!(d.value.to_bits() == v);
        }
        Err(_) => { assert!(false); }
    }
}

/// dbg
#[kani::proof]
#[kani::unwind(13)]
pub fn c20_dbg_p3() {
    let r: u8 = kani::any();
    let g: u8 = kani::any();
    let b: u8 = kani::any();
    kani::cover!(true);
    let rec = Rec::of(Fmt::Named, &[
        Tok::Struct("Rgb", 3), Tok::Field("red"), Tok::U8(r), Tok::Field("green"), Tok::U8(g), Tok::Field("blue"), Tok::U8(b), Tok::End
    ]);
    let d: Result<Srgb<u8>, E> = replay(&rec);
    match d {
        Ok(d) => {
            assert!(d.red == r && d.green == g && d.blue == b);
        }
        Err(_) => { assert!(false); }
    }
}

/// dbg
#[kani::proof]
#[kani::unwind(7)]
pub fn c20_dbg_p4() {
    let l: u8 = kani::any();
    let a: u8 = kani::any();
    kani::cover!(true);
    let rec = Rec::of(Fmt::Named, &[Tok::Struct("Luma", 2), Tok::Field("luma"), Tok::U8(l), Tok::Field("alpha"), Tok::U8(a), Tok::End]);
    let d: Result<palette::SrgbLumaa<u8>, E> = replay(&rec);
    match d {
        Ok(d) => {
            assert!(d.color.luma == l && d.alpha == a);
        }
        Err(_) => { assert!(false); }
    }
}

/// dbg
#[kani::proof]
#[kani::unwind(11)]
pub fn c20_dbg_p5() {
    let r: u8 = kani::any();
    let g: u8 = kani::any();
    let a: u8 = kani::any();
    kani::cover!(true);
    let rec = Rec::of(Fmt::Named, &[Tok::Struct("Rgb", 4), Tok::Field("red"), Tok::U8(r), Tok::Field("green"), Tok::U8(g), Tok::Field("blue"), Tok::U8(g), Tok::Field("alpha"), Tok::U8(a), Tok::End]);
    let d: Result<palette::Srgba<u8>, E> = replay(&rec);
    match d {
        Ok(d) => {
            assert!(d.color.red == r && d.alpha == a);
        }
        Err(_) => { assert!(false); }
    }
}
