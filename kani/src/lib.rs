#![recursion_limit = "1024"]
//! Kani proof harnesses over the real palette code (path dependency on /repo/palette).
//! Harness files are `cNN*.rs`; `registry.rs` (generated) declares them and lists them for native replay.
#![allow(dead_code, unused_imports, unused_variables, unused_mut, clippy::all)]

#[cfg(kani)]
include!("registry.rs");

#[cfg(kani)]
pub mod support;

/// Native replay of a solver counterexample: PV_REPLAY names a file whose first
/// line is the harness name and whose following lines are the byte vectors Kani's
/// concrete playback printed, one `kani::any()` per line, decimal bytes (`-` = empty).
#[cfg(kani)]
#[test]
fn pv_replay() {
    let path = std::env::var("PV_REPLAY").expect("PV_REPLAY not set");
    let txt = std::fs::read_to_string(&path).expect("read replay file");
    let mut lines = txt.lines();
    let name = lines.next().expect("harness name").trim().to_string();
    let vals: Vec<Vec<u8>> = lines
        .filter(|l| !l.trim().is_empty())
        .map(|l| {
            l.split_whitespace()
                .filter(|t| *t != "-")
                .map(|t| t.parse::<u8>().expect("byte"))
                .collect()
        })
        .collect();
    let f = ALL
        .iter()
        .find(|(n, _)| *n == name)
        .unwrap_or_else(|| panic!("unknown harness {name}"))
        .1;
    kani::concrete_playback_run(vals, f);
}
