//! C17 support: models of the x86 SSE/SSE2 intrinsics that Kani 0.68 cannot translate (`llvm.x86.sse.cmp.ps`, `max.ps`,
//! `cvtps2dq`, ... and their `pd` twins). Each model is the lane-wise semantics of the instruction from the Intel SDM
//! (ordered comparisons are false on NaN, `cmpneq` / `cmpunord` are true on NaN; `max(a, b) = a > b ? a : b`, i.e. the second
//! operand when either is NaN or both are zero; conversions round to nearest even and return 0x8000_0000 out of range).
//! They are installed with `#[kani::stub]` on every C17 harness and are part of the trusted base of those harnesses.
#![allow(dead_code)]
use core::arch::x86_64::*;

fn ps(a: __m128) -> [f32; 4] {
    unsafe { core::mem::transmute(a) }
}
fn pd(a: __m128d) -> [f64; 2] {
    unsafe { core::mem::transmute(a) }
}
fn mps(m: [bool; 4]) -> __m128 {
    let f = |b: bool| if b { u32::MAX } else { 0 };
    unsafe { core::mem::transmute([f(m[0]), f(m[1]), f(m[2]), f(m[3])]) }
}
fn mpd(m: [bool; 2]) -> __m128d {
    let f = |b: bool| if b { u64::MAX } else { 0 };
    unsafe { core::mem::transmute([f(m[0]), f(m[1])]) }
}
fn vps(v: [f32; 4]) -> __m128 {
    unsafe { core::mem::transmute(v) }
}
fn vpd(v: [f64; 2]) -> __m128d {
    unsafe { core::mem::transmute(v) }
}

macro_rules! cmp_ps {
    ($name:ident, |$x:ident, $y:ident| $e:expr) => {
        pub fn $name(a: __m128, b: __m128) -> __m128 {
            let (p, q) = (ps(a), ps(b));
            let f = |$x: f32, $y: f32| -> bool { $e };
            mps([f(p[0], q[0]), f(p[1], q[1]), f(p[2], q[2]), f(p[3], q[3])])
        }
    };
}
macro_rules! cmp_pd {
    ($name:ident, |$x:ident, $y:ident| $e:expr) => {
        pub fn $name(a: __m128d, b: __m128d) -> __m128d {
            let (p, q) = (pd(a), pd(b));
            let f = |$x: f64, $y: f64| -> bool { $e };
            mpd([f(p[0], q[0]), f(p[1], q[1])])
        }
    };
}
cmp_ps!(cmpeq_ps, |x, y| x == y);
cmp_ps!(cmpneq_ps, |x, y| x != y);
cmp_ps!(cmplt_ps, |x, y| x < y);
cmp_ps!(cmple_ps, |x, y| x <= y);
cmp_ps!(cmpgt_ps, |x, y| x > y);
cmp_ps!(cmpge_ps, |x, y| x >= y);
cmp_ps!(cmpunord_ps, |x, y| x.is_nan() || y.is_nan());
cmp_ps!(cmpord_ps, |x, y| !(x.is_nan() || y.is_nan()));
cmp_pd!(cmpeq_pd, |x, y| x == y);
cmp_pd!(cmpneq_pd, |x, y| x != y);
cmp_pd!(cmplt_pd, |x, y| x < y);
cmp_pd!(cmple_pd, |x, y| x <= y);
cmp_pd!(cmpgt_pd, |x, y| x > y);
cmp_pd!(cmpge_pd, |x, y| x >= y);
cmp_pd!(cmpunord_pd, |x, y| x.is_nan() || y.is_nan());
cmp_pd!(cmpord_pd, |x, y| !(x.is_nan() || y.is_nan()));

pub fn max_ps(a: __m128, b: __m128) -> __m128 {
    let (p, q) = (ps(a), ps(b));
    let f = |x: f32, y: f32| if x > y { x } else { y };
    vps([f(p[0], q[0]), f(p[1], q[1]), f(p[2], q[2]), f(p[3], q[3])])
}
pub fn min_ps(a: __m128, b: __m128) -> __m128 {
    let (p, q) = (ps(a), ps(b));
    let f = |x: f32, y: f32| if x < y { x } else { y };
    vps([f(p[0], q[0]), f(p[1], q[1]), f(p[2], q[2]), f(p[3], q[3])])
}
pub fn max_pd(a: __m128d, b: __m128d) -> __m128d {
    let (p, q) = (pd(a), pd(b));
    let f = |x: f64, y: f64| if x > y { x } else { y };
    vpd([f(p[0], q[0]), f(p[1], q[1])])
}
pub fn min_pd(a: __m128d, b: __m128d) -> __m128d {
    let (p, q) = (pd(a), pd(b));
    let f = |x: f64, y: f64| if x < y { x } else { y };
    vpd([f(p[0], q[0]), f(p[1], q[1])])
}

// Arithmetic: Kani 0.68 translates `_mm_add_ps` etc. through `simd_add`, attaches an (integer-style) overflow check to it that fails
// spuriously on floats AND assumes the "overflowing" inputs away afterwards, which silently removes inputs from the harness
// (observed: after `splat(x) + splat(180.0)` the value x = -181 is no longer reachable). The arithmetic intrinsics are therefore
// replaced by lane-wise scalar IEEE operations as well.
macro_rules! arith_ps {
    ($name:ident, $op:tt) => {
        pub fn $name(a: __m128, b: __m128) -> __m128 {
            let (p, q) = (ps(a), ps(b));
            vps([p[0] $op q[0], p[1] $op q[1], p[2] $op q[2], p[3] $op q[3]])
        }
    };
}
macro_rules! arith_pd {
    ($name:ident, $op:tt) => {
        pub fn $name(a: __m128d, b: __m128d) -> __m128d {
            let (p, q) = (pd(a), pd(b));
            vpd([p[0] $op q[0], p[1] $op q[1]])
        }
    };
}
arith_ps!(add_ps, +);
arith_ps!(sub_ps, -);
arith_ps!(mul_ps, *);
arith_ps!(div_ps, /);
arith_pd!(add_pd, +);
arith_pd!(sub_pd, -);
arith_pd!(mul_pd, *);
arith_pd!(div_pd, /);
