use crate::c19_support::*;
use palette::IsWithinBounds;
use rand::distributions::{Distribution, Uniform};
use rand::Rng;

type Rgb = palette::rgb::Rgb<palette::encoding::Srgb, f32>;
type Lab = palette::Lab<palette::white_point::D65, f32>;
type Lch = palette::Lch<palette::white_point::D65, f32>;

/// probe
#[kani::proof]
pub fn c19_probe_rgb_std() {
    let mut rng = AnyRng;
    let c: Rgb = rng.gen();
    kani::cover!(true);
    assert!(c.is_within_bounds());
    assert!(c.red >= 0.0 && c.red < 1.0);
}

/// probe
#[kani::proof]
pub fn c19_probe_lab_std() {
    let mut rng = AnyRng;
    let c: Lab = rng.gen();
    kani::cover!(true);
    assert!(c.is_within_bounds());
}

/// probe
#[kani::proof]
pub fn c19_probe_hue_std() {
    let mut rng = AnyRng;
    let c: palette::RgbHue<f32> = rng.gen();
    kani::cover!(true);
    let d = c.into_inner();
    assert!(d >= 0.0 && d < 360.0);
}

/// probe
#[kani::proof]
pub fn c19_probe_lch_std() {
    let mut rng = AnyRng;
    let c: Lch = rng.gen();
    kani::cover!(true);
    assert!(c.is_within_bounds());
    assert!(c.chroma <= 128.0);
}

/// probe
#[kani::proof]
#[kani::unwind(4)]
pub fn c19_probe_f32_uniform() {
    let lo: f32 = kani::any();
    let hi: f32 = kani::any();
    kani::assume(lo >= 0.0 && hi <= 1.0 && lo < hi);
    kani::assume(hi - lo >= hi * 0.5);
    let mut rng = AnyRng;
    let u = Uniform::new(lo, hi);
    let s = u.sample(&mut rng);
    kani::cover!(true);
    assert!(lo <= s && s < hi);
}

/// probe
#[kani::proof]
#[kani::unwind(4)]
pub fn c19_probe_hue_uniform() {
    let lo: f32 = kani::any();
    let hi: f32 = kani::any();
    kani::assume(lo >= 0.0 && hi <= 360.0 && lo < hi);
    kani::assume(hi - lo >= hi * 0.5);
    let mut rng = AnyRng;
    let u = Uniform::new(palette::RgbHue::new(lo), palette::RgbHue::new(hi));
    let s = u.sample(&mut rng).into_positive_degrees();
    kani::cover!(true);
    assert!(lo <= s && s <= hi);
}
