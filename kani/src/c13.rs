//! C13, hand-written: the f32 instances of the in-place slice guard (thorough tier; bounded by what CBMC's float
//! divider allows: a symbolic/symbolic f32 division does not finish in 3000 s, so the restore direction Hwb -> Hsv uses
//! concrete divisors). All other C13 harnesses are generated
//! (gen/c13.py -> c13_gen.rs) over the harness wrapping-integer component type.
use palette::convert::{FromColorUnclamped, FromColorUnclampedMut};
use palette::{FromColor, FromColorMut};
use palette::encoding::Srgb;
use palette::{Hsv, Hwb};

type Af = Hsv<Srgb, f32>;
type Bf = Hwb<Srgb, f32>;

/// Same value: numerically equal, or both NaN (a NaN payload is not a colour value).
fn feq(x: f32, y: f32) -> bool {
    x == y || (x.is_nan() && y.is_nan())
}

fn same_hsv(x: &Af, y: &Af) -> bool {
    feq(x.hue.into_inner(), y.hue.into_inner()) && feq(x.saturation, y.saturation) && feq(x.value, y.value)
}

fn same_hwb(x: &Bf, y: &Bf) -> bool {
    feq(x.hue.into_inner(), y.hue.into_inner()) && feq(x.whiteness, y.whiteness) && feq(x.blackness, y.blackness)
}

fn any_hsv() -> Af {
    let (h, s, v): (f32, f32, f32) = (kani::any(), kani::any(), kani::any());
    kani::assume(h.is_finite() && s.is_finite() && v.is_finite());
    Hsv::new_const(palette::RgbHue::new(h), s, v)
}

fn any_finite() -> f32 {
    let x: f32 = kani::any();
    kani::assume(x.is_finite());
    x
}

/// f32 instance (real component type, no harness type): <[Hwb<Srgb, f32>]>::from_color_unclamped_mut on a slice of
/// concrete length 2 with arbitrary finite components: the guard shows element for element
/// Hwb::from_color_unclamped(a_i) at the original address/length (component-wise numerically equal, or both NaN, to the
/// out-of-place conversion), and core::mem::forget(guard) leaves exactly that converted state in the buffer (read back
/// through palette::cast::into_array_slice).
/// @fn <[Hwb<Srgb, f32>] as FromColorUnclampedMut<[Hsv<Srgb, f32>]>>::from_color_unclamped_mut
/// @fn <FromColorUnclampedMutGuard as Deref>::deref
/// @fn core::mem::forget(guard)
/// @bound len = 2, all finite f32 components
/// @thorough
#[kani::proof]
#[kani::unwind(5)]
pub fn c13_f32_view_forget_unclamped_n2() {
    let orig: [Af; 2] = [any_hsv(), any_hsv()];
    let mut buf = orig;
    let p0 = buf.as_ptr() as usize;
    kani::cover!(true);
    {
        let g = <[Bf]>::from_color_unclamped_mut(&mut buf[..]);
        assert!(g.len() == 2 && g.as_ptr() as usize == p0);
        for i in 0..2 {
            assert!(same_hwb(&g[i], &Bf::from_color_unclamped(orig[i])));
        }
        core::mem::forget(g);
    }
    let raw: &[[f32; 3]] = palette::cast::into_array_slice(&buf[..]);
    assert!(raw.len() == 2 && raw.as_ptr() as usize == p0);
    for i in 0..2 {
        let e = Bf::from_color_unclamped(orig[i]);
        let [h, w, b] = raw[i];
        assert!(feq(h, e.hue.into_inner()) && feq(w, e.whiteness) && feq(b, e.blackness));
    }
}

/// f32 instance: drop of a live FromColorUnclampedMutGuard<[Hwb<Srgb, f32>], [Hsv<Srgb, f32>]> on a slice of concrete
/// length 2 (built from arbitrary finite colours, then both elements overwritten through DerefMut): the buffer holds
/// Hsv::from_color_unclamped(b_i) of the current contents. The current contents have arbitrary finite hue and
/// whiteness and a concrete blackness (0.25: valid divisor 0.75; 1.0: invalid divisor branch), because a symbolic
/// f32 divisor does not finish.
/// @fn <FromColorUnclampedMutGuard as DerefMut>::deref_mut
/// @fn <FromColorUnclampedMutGuard as Drop>::drop
/// @fn <[Hwb<Srgb, f32>] as FromColorUnclampedMut<[Hsv<Srgb, f32>]>>::from_color_unclamped_mut
/// @bound len = 2, original contents all finite f32; current contents: hue, whiteness all finite f32, blackness = 0.25 (element 0) and 1.0 (element 1)
/// @thorough
#[kani::proof]
#[kani::unwind(5)]
pub fn c13_f32_drop_unclamped_n2() {
    let orig: [Af; 2] = [any_hsv(), any_hsv()];
    let cur: [Bf; 2] = [
        Hwb::new_const(palette::RgbHue::new(any_finite()), any_finite(), 0.25),
        Hwb::new_const(palette::RgbHue::new(any_finite()), any_finite(), 1.0),
    ];
    let mut buf = orig;
    let p0 = buf.as_ptr() as usize;
    kani::cover!(true);
    {
        let mut g = <[Bf]>::from_color_unclamped_mut(&mut buf[..]);
        assert!(g.len() == 2 && g.as_ptr() as usize == p0);
        for i in 0..2 {
            g[i] = cur[i];
        }
    }
    for i in 0..2 {
        assert!(same_hsv(&buf[i], &Af::from_color_unclamped(cur[i])));
    }
}

/// f32 instance: drop of a live FromColorMutGuard<[Hwb<Srgb, f32>], [Hsv<Srgb, f32>]> (clamping guard) on a slice of
/// concrete length 2 (built from arbitrary finite colours, then both elements overwritten through DerefMut): the
/// buffer holds Hsv::from_color(b_i) (converted and clamped) of the current contents. Current contents as in
/// c13_f32_drop_unclamped_n2 (concrete blackness).
/// @fn <FromColorMutGuard as DerefMut>::deref_mut
/// @fn <FromColorMutGuard as Drop>::drop
/// @fn <[Hwb<Srgb, f32>] as FromColorMut<[Hsv<Srgb, f32>]>>::from_color_mut
/// @bound len = 2, original contents all finite f32; current contents: hue, whiteness all finite f32, blackness = 0.25 (element 0) and 1.0 (element 1)
/// @thorough
#[kani::proof]
#[kani::unwind(5)]
pub fn c13_f32_drop_clamped_n2() {
    let orig: [Af; 2] = [any_hsv(), any_hsv()];
    let cur: [Bf; 2] = [
        Hwb::new_const(palette::RgbHue::new(any_finite()), any_finite(), 0.25),
        Hwb::new_const(palette::RgbHue::new(any_finite()), any_finite(), 1.0),
    ];
    let mut buf = orig;
    let p0 = buf.as_ptr() as usize;
    kani::cover!(true);
    {
        let mut g = <[Bf]>::from_color_mut(&mut buf[..]);
        assert!(g.len() == 2 && g.as_ptr() as usize == p0);
        for i in 0..2 {
            g[i] = cur[i];
        }
    }
    for i in 0..2 {
        assert!(same_hsv(&buf[i], &Af::from_color(cur[i])));
    }
}
