//! C13, hand-written: the f32 instance of the in-place slice guard (thorough tier). All other C13 harnesses are generated
//! (gen/c13.py -> c13_gen.rs) over the harness wrapping-integer component type.
use palette::convert::{FromColorUnclamped, FromColorUnclampedMut};
use palette::encoding::Srgb;
use palette::{Hsv, Hwb};

type Af = Hsv<Srgb, f32>;
type Bf = Hwb<Srgb, f32>;

/// Same value: numerically equal, or both NaN (a NaN payload is not a colour value).
fn feq(x: f32, y: f32) -> bool {
    x == y || (x.is_nan() && y.is_nan())
}

fn same_hsv(x: &Af, y: &Af) -> bool {
    feq(x.hue.into_inner(), y.hue.into_inner()) && feq(x.saturation, y.saturation) && feq(x.value, y.value)
}

fn same_hwb(x: &Bf, y: &Bf) -> bool {
    feq(x.hue.into_inner(), y.hue.into_inner()) && feq(x.whiteness, y.whiteness) && feq(x.blackness, y.blackness)
}

fn any_hsv() -> Af {
    let (h, s, v): (f32, f32, f32) = (kani::any(), kani::any(), kani::any());
    kani::assume(h.is_finite() && s.is_finite() && v.is_finite());
    Hsv::new_const(palette::RgbHue::new(h), s, v)
}

/// f32 instance (real component type, no harness type): <[Hwb<Srgb, f32>]>::from_color_unclamped_mut on a slice of
/// concrete length 2 with arbitrary finite components: the guard shows element for element Hwb::from_color_unclamped(a_i)
/// at the original address/length, and dropping it leaves Hsv::from_color_unclamped(Hwb::from_color_unclamped(a_i))
/// (component-wise numerically equal, or both NaN, to the out-of-place conversion; one float division per element on
/// the way back).
/// @fn <[Hwb<Srgb, f32>] as FromColorUnclampedMut<[Hsv<Srgb, f32>]>>::from_color_unclamped_mut
/// @fn <FromColorUnclampedMutGuard as Deref>::deref
/// @fn <FromColorUnclampedMutGuard as Drop>::drop
/// @bound len = 2, all finite f32 components
/// @thorough
#[kani::proof]
#[kani::unwind(5)]
pub fn c13_f32_view_unclamped_n2() {
    let orig: [Af; 2] = [any_hsv(), any_hsv()];
    let mut buf = orig;
    let p0 = buf.as_ptr() as usize;
    kani::cover!(true);
    {
        let g = <[Bf]>::from_color_unclamped_mut(&mut buf[..]);
        assert!(g.len() == 2 && g.as_ptr() as usize == p0);
        for i in 0..2 {
            assert!(same_hwb(&g[i], &Bf::from_color_unclamped(orig[i])));
        }
    }
    for i in 0..2 {
        assert!(same_hsv(&buf[i], &Af::from_color_unclamped(Bf::from_color_unclamped(orig[i]))));
    }
}
