//! C18 helpers: the reference model is a plain `Vec<Colour<u8>>`; these helpers build a struct-of-arrays value and the
//! model from the same symbolic items, decompose a struct-of-arrays value into its component collections *without* going
//! through the collection API under test (field access / `into_inner`), and compare yielded items field by field.
//!
//! Items are compared through `key`: the four component bytes (hue or red first, alpha last, 0 when there is no alpha)
//! packed into one u32 - injective, and a single integer comparison instead of a slice memcmp loop.
use core::marker::PhantomData;
use palette::encoding::Srgb;
use palette::rgb::Rgb;
use palette::{Alpha, Hsv, RgbHue};

pub type S = Srgb;
pub type Rgb8 = Rgb<S, u8>;
pub type Rgba8 = Alpha<Rgb<S, u8>, u8>;
pub type Hsv8 = Hsv<S, u8>;
pub type Hsva8 = Alpha<Hsv<S, u8>, u8>;
pub type RgbC<C> = Rgb<S, C>;
pub type RgbaC<C> = Alpha<Rgb<S, C>, C>;
pub type HsvC<C> = Hsv<S, C>;
pub type HsvaC<C> = Alpha<Hsv<S, C>, C>;

#[inline(always)]
pub fn pack(b: [u8; 4]) -> u32 {
    u32::from_le_bytes(b)
}

/// An owned colour with `u8` components (the element type of the model vector).
pub trait Col: Copy {
    /// A colour with every component symbolic.
    fn sym() -> Self;
    /// The components in collection order (alpha last, 0 if absent).
    fn bytes(&self) -> [u8; 4];
}

impl Col for Rgb8 {
    fn sym() -> Self {
        Rgb { red: kani::any(), green: kani::any(), blue: kani::any(), standard: PhantomData }
    }
    fn bytes(&self) -> [u8; 4] {
        [self.red, self.green, self.blue, 0]
    }
}

impl Col for Hsv8 {
    fn sym() -> Self {
        Hsv { hue: RgbHue::new(kani::any()), saturation: kani::any(), value: kani::any(), standard: PhantomData }
    }
    fn bytes(&self) -> [u8; 4] {
        [self.hue.into_inner(), self.saturation, self.value, 0]
    }
}

impl<O: Col> Col for Alpha<O, u8> {
    fn sym() -> Self {
        let color = O::sym();
        Alpha { color, alpha: kani::any() }
    }
    fn bytes(&self) -> [u8; 4] {
        let [a, b, c, _] = self.color.bytes();
        [a, b, c, self.alpha]
    }
}

/// Anything an iterator / `get` / `pop` yields that denotes one colour: owned, `&Colour`, or a colour of `&u8`.
pub trait Item {
    fn key(self) -> u32;
}

impl Item for Rgb8 {
    fn key(self) -> u32 {
        pack(self.bytes())
    }
}
impl Item for Hsv8 {
    fn key(self) -> u32 {
        pack(self.bytes())
    }
}
impl<O: Col> Item for Alpha<O, u8> {
    fn key(self) -> u32 {
        pack(self.bytes())
    }
}
impl<'a, O: Col> Item for &'a O {
    fn key(self) -> u32 {
        pack(self.bytes())
    }
}
impl<'a> Item for Rgb<S, &'a u8> {
    fn key(self) -> u32 {
        pack([*self.red, *self.green, *self.blue, 0])
    }
}
impl<'a> Item for Hsv<S, &'a u8> {
    fn key(self) -> u32 {
        pack([*self.hue.into_inner(), *self.saturation, *self.value, 0])
    }
}
impl<'a> Item for Alpha<Rgb<S, &'a u8>, &'a u8> {
    fn key(self) -> u32 {
        self.color.key() | (*self.alpha as u32) << 24
    }
}
impl<'a> Item for Alpha<Hsv<S, &'a u8>, &'a u8> {
    fn key(self) -> u32 {
        self.color.key() | (*self.alpha as u32) << 24
    }
}

/// A colour of `&mut u8` yielded by `iter_mut` / `get_mut`: `replace` reads the old components and writes `v` through the
/// references (plain dereferences, not the library's `set`).
pub trait ItemMut {
    type Own: Col;
    fn replace(self, v: Self::Own) -> u32;
}

impl<'a> ItemMut for Rgb<S, &'a mut u8> {
    type Own = Rgb8;
    fn replace(self, v: Rgb8) -> u32 {
        let old = pack([*self.red, *self.green, *self.blue, 0]);
        *self.red = v.red;
        *self.green = v.green;
        *self.blue = v.blue;
        old
    }
}
impl<'a> ItemMut for Hsv<S, &'a mut u8> {
    type Own = Hsv8;
    fn replace(self, v: Hsv8) -> u32 {
        let Hsv { hue, saturation, value, .. } = self;
        let hue: &mut u8 = hue.into_inner();
        let old = pack([*hue, *saturation, *value, 0]);
        *hue = v.hue.into_inner();
        *saturation = v.saturation;
        *value = v.value;
        old
    }
}
impl<'a, X: ItemMut> ItemMut for Alpha<X, &'a mut u8> {
    type Own = Alpha<X::Own, u8>;
    fn replace(self, v: Self::Own) -> u32 {
        let Alpha { color, alpha } = self;
        let old = color.replace(v.color) | (*alpha as u32) << 24;
        *alpha = v.alpha;
        old
    }
}

/// A colour whose components are collections of type `C`.
pub trait Soa: Sized {
    type C;
    type Own: Col;
    /// The three colour component collections in field order (hue first for Hsv) and the alpha collection, by direct field
    /// access. (A tuple, not an array: Kani 0.68 / CBMC 6.11 mis-model `&[u8]` views of the non-first rows of a nested
    /// `[[u8; N]; K]` - spurious failures - so nested byte arrays are avoided throughout.)
    fn into_comps(self) -> (Self::C, Self::C, Self::C, Option<Self::C>);
    /// Inverse of `into_comps` (struct literal). The forms without alpha drop `a`; the Alpha forms require it.
    fn from_comps(c: (Self::C, Self::C, Self::C), a: Option<Self::C>) -> Self;
}

impl<C> Soa for Rgb<S, C> {
    type C = C;
    type Own = Rgb8;
    fn into_comps(self) -> (C, C, C, Option<C>) {
        (self.red, self.green, self.blue, None)
    }
    fn from_comps(c: (C, C, C), a: Option<C>) -> Self {
        let (red, green, blue) = c;
        Rgb { red, green, blue, standard: PhantomData }
    }
}

impl<C> Soa for Hsv<S, C> {
    type C = C;
    type Own = Hsv8;
    fn into_comps(self) -> (C, C, C, Option<C>) {
        (self.hue.into_inner(), self.saturation, self.value, None)
    }
    fn from_comps(c: (C, C, C), a: Option<C>) -> Self {
        let (hue, saturation, value) = c;
        Hsv { hue: RgbHue::new(hue), saturation, value, standard: PhantomData }
    }
}

impl<X: Soa> Soa for Alpha<X, X::C> {
    type C = X::C;
    type Own = Alpha<X::Own, u8>;
    fn into_comps(self) -> (X::C, X::C, X::C, Option<X::C>) {
        let (c0, c1, c2, _) = self.color.into_comps();
        (c0, c1, c2, Some(self.alpha))
    }
    fn from_comps(c: (X::C, X::C, X::C), a: Option<X::C>) -> Self {
        match a {
            Some(alpha) => Alpha { color: X::from_comps(c, None), alpha },
            None => panic!("alpha collection missing"),
        }
    }
}

/// N colours, every component symbolic.
pub fn sym_items<O: Col, const N: usize>() -> [O; N] {
    core::array::from_fn(|_| O::sym())
}

/// Component `j` of every item, as an array.
pub fn column<O: Col, const N: usize>(items: &[O; N], j: usize) -> [u8; N] {
    core::array::from_fn(|i| items[i].bytes()[j])
}

/// The struct of `Vec<u8>` holding `items`: every component vector has length N and capacity exactly N (so a following push
/// or extend goes through Vec's growth path).
pub fn vec_state<X: Soa<C = Vec<u8>>, const N: usize>(items: &[X::Own; N]) -> X {
    X::from_comps(
        (Vec::from(column(items, 0)), Vec::from(column(items, 1)), Vec::from(column(items, 2))),
        Some(Vec::from(column(items, 3))),
    )
}

/// Same with spare capacity `cap >= N` in every component vector (push/extend without reallocation while len < cap).
pub fn vec_state_cap<X: Soa<C = Vec<u8>>, const N: usize>(items: &[X::Own; N], cap: usize) -> X {
    let mk = |j: usize| {
        let mut v = Vec::with_capacity(cap);
        v.extend_from_slice(&column(items, j));
        v
    };
    X::from_comps((mk(0), mk(1), mk(2)), Some(mk(3)))
}

/// The struct of `[u8; N]` holding `items`.
pub fn array_state<X: Soa<C = [u8; N]>, const N: usize>(items: &[X::Own; N]) -> X {
    X::from_comps((column(items, 0), column(items, 1), column(items, 2)), Some(column(items, 3)))
}

/// The struct of `Box<[u8]>` holding `items`.
pub fn boxed_state<X: Soa<C = Box<[u8]>>, const N: usize>(items: &[X::Own; N]) -> X {
    let mk = |j: usize| -> Box<[u8]> { Box::from(column(items, j)) };
    X::from_comps((mk(0), mk(1), mk(2)), Some(mk(3)))
}

/// Both sides yielded nothing, or both yielded the same colour.
pub fn same_opt<A: Item, B: Item>(a: Option<A>, b: Option<B>) {
    match (a, b) {
        (None, None) => {}
        (Some(a), Some(b)) => assert!(a.key() == b.key(), "yielded colours differ"),
        (Some(_), None) => panic!("struct-of-arrays side yielded a colour, the model did not"),
        (None, Some(_)) => panic!("the model yielded a colour, the struct-of-arrays side did not"),
    }
}

/// One `next` on both iterators.
pub fn step<A: Iterator, B: Iterator>(a: &mut A, b: &mut B)
where
    A::Item: Item,
    B::Item: Item,
{
    same_opt(a.next(), b.next());
}

/// One `next_back` on both iterators.
pub fn step_back<A: DoubleEndedIterator, B: DoubleEndedIterator>(a: &mut A, b: &mut B)
where
    A::Item: Item,
    B::Item: Item,
{
    same_opt(a.next_back(), b.next_back());
}

/// Both sides yielded nothing, or both yielded a mutable colour with the same components; then `v` is written through both.
pub fn write_opt<A: ItemMut>(a: Option<A>, b: Option<&mut A::Own>, v: A::Own) {
    match (a, b) {
        (None, None) => {}
        (Some(a), Some(b)) => {
            let old = a.replace(v);
            assert!(old == pack(b.bytes()), "mutable colours differ before the write");
            *b = v;
        }
        (Some(_), None) => panic!("struct-of-arrays side yielded a mutable colour, the model did not"),
        (None, Some(_)) => panic!("the model yielded a mutable colour, the struct-of-arrays side did not"),
    }
}

/// Abstraction map and invariant: every component collection (hue and alpha included) has the model's length and holds the
/// model's components element by element.
pub fn check_state<X: Soa>(x: X, m: &[X::Own])
where
    X::C: AsRef<[u8]>,
{
    let (c0, c1, c2, a) = x.into_comps();
    let n = m.len();
    let (c0, c1, c2): (&[u8], &[u8], &[u8]) = (c0.as_ref(), c1.as_ref(), c2.as_ref());
    assert!(c0.len() == n, "first component collection length differs from the model");
    assert!(c1.len() == n, "second component collection length differs from the model");
    assert!(c2.len() == n, "third component collection length differs from the model");
    let a3: Option<&[u8]> = match &a {
        Some(a) => Some(a.as_ref()),
        None => None,
    };
    if let Some(a3) = a3 {
        assert!(a3.len() == n, "alpha collection length differs from the model");
    }
    let mut i = 0;
    while i < n {
        let al = match a3 {
            Some(a3) => a3[i],
            None => 0,
        };
        assert!(pack([c0[i], c1[i], c2[i], al]) == pack(m[i].bytes()), "stored colour differs from the model");
        i += 1;
    }
}

/// Ranged read: both `None`, or a colour of sub-slices that is element-wise the model's sub-slice (all components of the
/// sub-slice's length).
pub fn same_opt_slice<X: Soa>(a: Option<X>, b: Option<&[X::Own]>)
where
    X::C: AsRef<[u8]>,
{
    match (a, b) {
        (None, None) => {}
        (Some(a), Some(b)) => check_state(a, b),
        (Some(_), None) => panic!("struct-of-arrays ranged get succeeded, the model's did not"),
        (None, Some(_)) => panic!("the model's ranged get succeeded, the struct-of-arrays one did not"),
    }
}

/// Ranged mutable access: both `None`, or sub-slices of equal length in every component; then `v` is written at position `p`
/// of the sub-slice on both sides (if `p` is inside).
pub fn write_opt_slice<'a, X: Soa<C = &'a mut [u8]>>(a: Option<X>, b: Option<&mut [X::Own]>, p: usize, v: X::Own) {
    match (a, b) {
        (None, None) => {}
        (Some(a), Some(b)) => {
            let (c0, c1, c2, al) = a.into_comps();
            let n = b.len();
            assert!(c0.len() == n && c1.len() == n && c2.len() == n, "component sub-slice lengths differ from the model");
            let vb = v.bytes();
            if p < n {
                assert!(pack([c0[p], c1[p], c2[p], 0]) == pack(b[p].bytes()) & 0x00ff_ffff, "colour differs before the write");
                c0[p] = vb[0];
                c1[p] = vb[1];
                c2[p] = vb[2];
            }
            if let Some(al) = al {
                assert!(al.len() == n, "alpha sub-slice length differs from the model");
                if p < n {
                    assert!(al[p] == b[p].bytes()[3], "alpha differs before the write");
                    al[p] = vb[3];
                }
            }
            if p < n {
                b[p] = v;
            }
        }
        (Some(_), None) => panic!("struct-of-arrays ranged get_mut succeeded, the model's did not"),
        (None, Some(_)) => panic!("the model's ranged get_mut succeeded, the struct-of-arrays one did not"),
    }
}

/// A symbolic range end point: `Included(v)`, `Excluded(v)` or `Unbounded` with symbolic `v`.
pub fn sym_bound() -> core::ops::Bound<usize> {
    let v: usize = kani::any();
    let tag: u8 = kani::any();
    match tag {
        0 => core::ops::Bound::Included(v),
        1 => core::ops::Bound::Excluded(v),
        _ => core::ops::Bound::Unbounded,
    }
}

/// The index range `start..end` a pair of range bounds denotes on a collection of length `len` (the documented meaning of
/// `RangeBounds`), or `None` if an end point overflows, the range is inverted or it ends past `len`.
pub fn resolve(r: (core::ops::Bound<usize>, core::ops::Bound<usize>), len: usize) -> Option<(usize, usize)> {
    use core::ops::Bound::*;
    let start = match r.0 {
        Included(a) => a,
        Excluded(a) => {
            if a == usize::MAX {
                return None;
            }
            a + 1
        }
        Unbounded => 0,
    };
    let end = match r.1 {
        Included(b) => {
            if b == usize::MAX {
                return None;
            }
            b + 1
        }
        Excluded(b) => b,
        Unbounded => len,
    };
    if start <= end && end <= len {
        Some((start, end))
    } else {
        None
    }
}
