//! C12 helpers: the harness-side specification of the hex colour syntax (independent of palette's parser), a builder for
//! symbolic strings that are valid UTF-8 by construction, and a stack `fmt::Write` sink for the formatting round trips.
//! Nothing in here calls the code under test except `check_parse` (the obligation itself) and `FromDigits` for the float
//! types (widening with `into_format`, which is what the `FromStr` docs promise: "16/32 bit components or less").
//! Everything used by the parse harnesses is loop-free on purpose, see the NOTE on `spec` (only `Sink::write_str`, used by the
//! formatting harnesses, loops - at most one component's digits per call).

use core::str::FromStr;
use palette::rgb::{Rgb, Rgba};

/// RGB standard used for every instantiation (the impls under test are generic in `S` and never look at it).
pub type Std = palette::encoding::Srgb;

/// Value of one ASCII hexadecimal digit, `None` for every other byte (in particular '+', '-', ' ', '#', bytes >= 0x80).
#[inline]
pub fn hexval(b: u8) -> Option<u32> {
    if b >= b'0' && b <= b'9' {
        Some((b - b'0') as u32)
    } else if b >= b'a' && b <= b'f' {
        Some((b - b'a') as u32 + 10)
    } else if b >= b'A' && b <= b'F' {
        Some((b - b'A') as u32 + 10)
    } else {
        None
    }
}

/// `true` for the ASCII hexadecimal digits (branch-free form of `hexval(b).is_some()`).
#[inline]
pub fn is_hex(b: u8) -> bool {
    (b.wrapping_sub(b'0') < 10) | (b.wrapping_sub(b'a') < 6) | (b.wrapping_sub(b'A') < 6)
}

/// The documented syntax: an optional '#' followed by exactly `n` hexadecimal digits with `n` one of `allowed`
/// (unused slots = usize::MAX), nothing else. `digits_ok(off)` must say whether every byte at positions `off..len` is a hex
/// digit (computed by the generated loop-free `hex_N` functions). Returns `Some((offset of the first digit, n))` for
/// well-formed input, `None` otherwise.
///
/// NOTE: no loops anywhere in the harness-side specification. `#[kani::unwind]` is one bound for every loop of the
/// harness, and the `from_str_radix` loops of the code under test are unwound up to that bound at every call site (their
/// trip count depends on the symbolic sign test), so the bound must be as small as the code under test allows.
pub fn spec(first: u8, len: usize, hex_from_0: bool, hex_from_1: bool, allowed: [usize; 4]) -> Option<(usize, usize)> {
    let hash = len > 0 && first == b'#';
    let off = if hash { 1 } else { 0 };
    let n = len - off;
    let count_ok = (n == allowed[0]) | (n == allowed[1]) | (n == allowed[2]) | (n == allowed[3]);
    let digits_ok = if hash { hex_from_1 } else { hex_from_0 };
    if count_ok & digits_ok {
        Some((off, n))
    } else {
        None
    }
}

/// Value of the `width` (<= 8) hex digits starting at `start` (caller guarantees they are digits). Unrolled.
pub fn field<const N: usize>(buf: &[u8; N], start: usize, width: usize) -> u32 {
    let mut v: u32 = 0;
    macro_rules! step {
        ($j:expr) => {
            if $j < width {
                let i = start + $j;
                let d = if i < N { hexval(buf[i]).unwrap_or(0) } else { 0 };
                v = (v << 4) | d;
            }
        };
    }
    step!(0);
    step!(1);
    step!(2);
    step!(3);
    step!(4);
    step!(5);
    step!(6);
    step!(7);
    v
}

/// The components a well-formed string denotes: `per` digits per component, in r, g, b(, a) order.
pub fn digits<const N: usize>(buf: &[u8; N], off: usize, n: usize, ncomp: usize) -> (usize, [u32; 4]) {
    let per = n / ncomp;
    let v = [
        field(buf, off, per),
        field(buf, off + per, per),
        field(buf, off + 2 * per, per),
        if ncomp > 3 { field(buf, off + 3 * per, per) } else { 0 },
    ];
    (per, v)
}

/// 8-bit value of a one digit ("#abc" = "#aabbcc") or two digit component.
#[inline]
fn to8(per: usize, v: u32) -> u8 {
    if per == 1 {
        (v * 17) as u8
    } else {
        v as u8
    }
}
#[inline]
fn to16(per: usize, v: u32) -> u16 {
    if per <= 2 {
        to8(per, v) as u16 * 257
    } else {
        v as u16
    }
}
#[inline]
fn to32(per: usize, v: u32) -> u32 {
    if per <= 2 {
        to8(per, v) as u32 * 0x0101_0101
    } else if per == 4 {
        v * 0x0001_0001
    } else {
        v
    }
}

/// The colour denoted by `per` digits per component with values `v`.
pub trait FromDigits: Sized + PartialEq {
    /// number of components written in the string
    const NCOMP: usize;
    fn from_digits(per: usize, v: [u32; 4]) -> Self;
}

impl FromDigits for Rgb<Std, u8> {
    const NCOMP: usize = 3;
    fn from_digits(per: usize, v: [u32; 4]) -> Self {
        Rgb::new(to8(per, v[0]), to8(per, v[1]), to8(per, v[2]))
    }
}
impl FromDigits for Rgba<Std, u8> {
    const NCOMP: usize = 4;
    fn from_digits(per: usize, v: [u32; 4]) -> Self {
        Rgba::new(to8(per, v[0]), to8(per, v[1]), to8(per, v[2]), to8(per, v[3]))
    }
}
impl FromDigits for Rgb<Std, u16> {
    const NCOMP: usize = 3;
    fn from_digits(per: usize, v: [u32; 4]) -> Self {
        Rgb::new(to16(per, v[0]), to16(per, v[1]), to16(per, v[2]))
    }
}
impl FromDigits for Rgba<Std, u16> {
    const NCOMP: usize = 4;
    fn from_digits(per: usize, v: [u32; 4]) -> Self {
        Rgba::new(to16(per, v[0]), to16(per, v[1]), to16(per, v[2]), to16(per, v[3]))
    }
}
impl FromDigits for Rgb<Std, u32> {
    const NCOMP: usize = 3;
    fn from_digits(per: usize, v: [u32; 4]) -> Self {
        Rgb::new(to32(per, v[0]), to32(per, v[1]), to32(per, v[2]))
    }
}
impl FromDigits for Rgba<Std, u32> {
    const NCOMP: usize = 4;
    fn from_digits(per: usize, v: [u32; 4]) -> Self {
        Rgba::new(to32(per, v[0]), to32(per, v[1]), to32(per, v[2]), to32(per, v[3]))
    }
}
// Float targets: the integer colour of the narrowest integer type that holds the digits, widened with `into_format`
// (the uint -> float stimulus conversions are property C06's subject).
impl FromDigits for Rgb<Std, f32> {
    const NCOMP: usize = 3;
    fn from_digits(per: usize, v: [u32; 4]) -> Self {
        if per <= 2 {
            <Rgb<Std, u8> as FromDigits>::from_digits(per, v).into_format()
        } else {
            <Rgb<Std, u16> as FromDigits>::from_digits(per, v).into_format()
        }
    }
}
impl FromDigits for Rgba<Std, f32> {
    const NCOMP: usize = 4;
    fn from_digits(per: usize, v: [u32; 4]) -> Self {
        if per <= 2 {
            <Rgba<Std, u8> as FromDigits>::from_digits(per, v).into_format()
        } else {
            <Rgba<Std, u16> as FromDigits>::from_digits(per, v).into_format()
        }
    }
}
impl FromDigits for Rgb<Std, f64> {
    const NCOMP: usize = 3;
    fn from_digits(per: usize, v: [u32; 4]) -> Self {
        if per <= 2 {
            <Rgb<Std, u8> as FromDigits>::from_digits(per, v).into_format()
        } else if per == 4 {
            <Rgb<Std, u16> as FromDigits>::from_digits(per, v).into_format()
        } else {
            <Rgb<Std, u32> as FromDigits>::from_digits(per, v).into_format()
        }
    }
}
impl FromDigits for Rgba<Std, f64> {
    const NCOMP: usize = 4;
    fn from_digits(per: usize, v: [u32; 4]) -> Self {
        if per <= 2 {
            <Rgba<Std, u8> as FromDigits>::from_digits(per, v).into_format()
        } else if per == 4 {
            <Rgba<Std, u16> as FromDigits>::from_digits(per, v).into_format()
        } else {
            <Rgba<Std, u32> as FromDigits>::from_digits(per, v).into_format()
        }
    }
}

/// The strict-and-total parse obligation on the string `buf[..len]` (which the caller made valid UTF-8):
/// no panic (any panic inside `parse` is a failed Kani check), `Ok(c)` only for well-formed strings and with the
/// denoted value, `Err` only for ill-formed strings. `value = false` skips the value comparison.
pub fn check_parse<T, const N: usize>(buf: &[u8; N], len: usize, want: Option<(usize, usize)>, value: bool)
where
    T: FromStr + FromDigits,
{
    // SAFETY: every caller builds `buf[..len]` as valid UTF-8 (ASCII bytes, or chars encoded by `char::encode_utf8`).
    let s = unsafe { core::str::from_utf8_unchecked(&buf[..len]) };
    let got = s.parse::<T>();
    match got {
        Ok(c) => {
            assert!(want.is_some(), "strict: accepted a string that is not '#'? + the documented number of hex digits");
            if value {
                if let Some((off, n)) = want {
                    let (per, v) = digits(buf, off, n, T::NCOMP);
                    assert!(c == T::from_digits(per, v), "value: parsed colour differs from the digits' value");
                }
            }
        }
        Err(_) => {
            assert!(want.is_none(), "complete: rejected a well-formed hex colour");
        }
    }
}

/// Appends the UTF-8 encoding of `c` (encoded by core's `char::encode_utf8`, so valid by construction). Loop-free.
/// The caller's buffer has 4 bytes per pushed char, so the writes are always in range.
pub fn push_char<const N: usize>(buf: &mut [u8; N], len: &mut usize, c: char) {
    let mut tmp = [0u8; 4];
    let l = c.encode_utf8(&mut tmp).len();
    buf[*len] = tmp[0];
    if l > 1 {
        buf[*len + 1] = tmp[1];
    }
    if l > 2 {
        buf[*len + 2] = tmp[2];
    }
    if l > 3 {
        buf[*len + 3] = tmp[3];
    }
    *len += l;
}

/// Fixed-capacity `fmt::Write` sink (no allocation); overflow is an error.
pub struct Sink<const N: usize> {
    pub b: [u8; N],
    pub len: usize,
}

impl<const N: usize> Sink<N> {
    pub fn new() -> Self {
        Sink { b: [0u8; N], len: 0 }
    }
}

impl<const N: usize> core::fmt::Write for Sink<N> {
    fn write_str(&mut self, s: &str) -> core::fmt::Result {
        let bytes = s.as_bytes();
        let mut i = 0;
        while i < bytes.len() {
            if self.len >= N {
                return Err(core::fmt::Error);
            }
            self.b[self.len] = bytes[i];
            self.len += 1;
            i += 1;
        }
        Ok(())
    }
}

/// Lower / upper case hex digit of a nibble.
#[inline]
pub fn hexdigit(nibble: u32, upper: bool) -> u8 {
    let n = (nibble & 15) as u8;
    if n < 10 {
        b'0' + n
    } else if upper {
        b'A' + (n - 10)
    } else {
        b'a' + (n - 10)
    }
}


/// A user-defined channel order over a raw byte-array "colour": array slot k is channel k (the way a 64-bit RGBA order over
/// `[u8; 8]` would be written by a user of `ComponentOrder`). Lets the integer forms of every width be compared with the
/// array form.
pub struct ByteOrderProbe;
impl<const N: usize> palette::cast::ComponentOrder<[u8; N], [u8; N]> for ByteOrderProbe {
    fn pack(color: [u8; N]) -> [u8; N] {
        color
    }
    fn unpack(packed: [u8; N]) -> [u8; N] {
        packed
    }
}
