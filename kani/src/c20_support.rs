//! C20 support: a minimal serde back end at the level of serde's *data model*.
//!
//! `Rec` is a `serde::Serializer` that records the data-model calls it receives into a fixed-size token array (no heap);
//! `Play` is the matching `serde::Deserializer` that replays such a token array through the `Visitor`s it is given.
//! Three framings of the same data model (`Fmt`):
//!
//! * `Named`  - self-describing, like a JSON object / RON struct: `Struct(name, len) Field(k) v ... End`.
//! * `Listed` - compact *delimited* sequence, like a JSON array (serde_json accepts `[..]` for a struct) or a MessagePack array
//!              (rmp-serde's default struct encoding): `Seq(len) v ... End` (no struct name, no field names; the sequence is
//!              delimited by the data, `len` is the one the serializer was given).
//! * `Packed` - compact *undelimited* value stream, like bincode / postcard: only the numbers; every length comes from the
//!              hint the `Deserialize` impl passes (`fields.len()` of `deserialize_struct`, `len` of `deserialize_tuple`).
//!
//! Newtype structs are transparent in all three (as in serde_json, ron, rmp-serde, bincode). A `Play` over a `Named` or
//! `Listed` stream decides between `visit_map` and `visit_seq` by the recorded token (as serde_json does for `{` / `[`).
//! Errors carry no message: `custom()` drops its `Display` argument without formatting it, so no `format!` is reachable.
//!
//! Not modelled: maps (`serialize_map` / `deserialize_map`) and `deserialize_any`, i.e. `#[serde(flatten)]`, whose
//! deserialization goes through serde's heap-allocated `Content` buffer (tried: no CBMC result within 600 s, symbolic
//! execution drowns in `Content::as_str` -> `from_utf8` validation loops and the recursive `Content` drop glue).

use core::fmt;
use serde::de::{self, DeserializeSeed, Visitor};
use serde::ser::{self, Serialize};

pub const CAP: usize = 16;

#[derive(Clone, Copy, PartialEq, Eq, Debug)]
pub enum Fmt {
    Named,
    Listed,
    Packed,
}

/// Kind of a recorded data-model event.
#[derive(Clone, Copy, PartialEq, Eq, Debug)]
pub enum Kind {
    Empty,
    /// `serialize_struct(name, len)` in the `Named` framing (`name`, `num` = len)
    Struct,
    /// `SerializeStruct::serialize_field(key, _)` in the `Named` framing (`name` = key)
    Field,
    /// `serialize_tuple(len)` / `serialize_tuple_struct(_, len)` / `serialize_seq(Some(len))`, and `serialize_struct(_, len)`
    /// in the `Listed` framing (`num` = len)
    Seq,
    /// closes `Struct` and `Seq`
    End,
    U8,
    U16,
    U32,
    U64,
    /// `num` = bit pattern
    F32,
    /// `num` = bit pattern
    F64,
}

/// One recorded data-model event: a flat (kind, name, number) record, so that a name pointer never overlays a number in a
/// tagged union and every field sits at a fixed offset. `==` compares kind, name (by content) and number.
#[derive(Clone, Copy, PartialEq, Eq, Debug)]
pub struct Tok {
    pub kind: Kind,
    pub name: &'static str,
    pub num: u64,
}

#[allow(non_snake_case, non_upper_case_globals)]
impl Tok {
    pub const Empty: Tok = Tok { kind: Kind::Empty, name: "", num: 0 };
    pub const End: Tok = Tok { kind: Kind::End, name: "", num: 0 };
    pub const fn Struct(name: &'static str, len: usize) -> Tok {
        Tok { kind: Kind::Struct, name, num: len as u64 }
    }
    pub const fn Field(name: &'static str) -> Tok {
        Tok { kind: Kind::Field, name, num: 0 }
    }
    pub const fn Seq(len: usize) -> Tok {
        Tok { kind: Kind::Seq, name: "", num: len as u64 }
    }
    pub const fn U8(v: u8) -> Tok {
        Tok { kind: Kind::U8, name: "", num: v as u64 }
    }
    pub const fn U16(v: u16) -> Tok {
        Tok { kind: Kind::U16, name: "", num: v as u64 }
    }
    pub const fn U32(v: u32) -> Tok {
        Tok { kind: Kind::U32, name: "", num: v as u64 }
    }
    pub const fn U64(v: u64) -> Tok {
        Tok { kind: Kind::U64, name: "", num: v }
    }
    /// by bit pattern
    pub const fn F32(bits: u32) -> Tok {
        Tok { kind: Kind::F32, name: "", num: bits as u64 }
    }
    /// by bit pattern
    pub const fn F64(bits: u64) -> Tok {
        Tok { kind: Kind::F64, name: "", num: bits }
    }
}

/// Error without message. The kind is kept so that a harness can tell *why* a round trip failed.
#[derive(Clone, Copy, PartialEq, Eq, Debug)]
pub enum E {
    /// raised by the back end itself: unsupported data-model call, token mismatch, buffer full, trailing data
    Backend,
    Custom,
    InvalidType,
    InvalidValue,
    InvalidLength,
    UnknownVariant,
    UnknownField,
    MissingField,
    DuplicateField,
}

impl fmt::Display for E {
    fn fmt(&self, _f: &mut fmt::Formatter<'_>) -> fmt::Result {
        Ok(())
    }
}
impl std::error::Error for E {}
impl ser::Error for E {
    fn custom<T: fmt::Display>(_msg: T) -> Self {
        E::Custom
    }
}
impl de::Error for E {
    fn custom<T: fmt::Display>(_msg: T) -> Self {
        E::Custom
    }
    fn invalid_type(_unexp: de::Unexpected, _exp: &dyn de::Expected) -> Self {
        E::InvalidType
    }
    fn invalid_value(_unexp: de::Unexpected, _exp: &dyn de::Expected) -> Self {
        E::InvalidValue
    }
    fn invalid_length(_len: usize, _exp: &dyn de::Expected) -> Self {
        E::InvalidLength
    }
    fn unknown_variant(_variant: &str, _expected: &'static [&'static str]) -> Self {
        E::UnknownVariant
    }
    fn unknown_field(_field: &str, _expected: &'static [&'static str]) -> Self {
        E::UnknownField
    }
    fn missing_field(_field: &'static str) -> Self {
        E::MissingField
    }
    fn duplicate_field(_field: &'static str) -> Self {
        E::DuplicateField
    }
}

// ------------------------------------------------------------------------------------------------------------- serializer

/// Token recorder (`&mut Rec` is the `Serializer`).
pub struct Rec {
    pub toks: [Tok; CAP],
    pub n: usize,
    pub fmt: Fmt,
}

impl Rec {
    pub fn new(fmt: Fmt) -> Rec {
        Rec { toks: [Tok::Empty; CAP], n: 0, fmt }
    }

    pub fn push(&mut self, t: Tok) -> Result<(), E> {
        if self.n >= CAP {
            return Err(E::Backend);
        }
        self.toks[self.n] = t;
        self.n += 1;
        Ok(())
    }

    fn open(&mut self, len: usize) -> Result<(), E> {
        match self.fmt {
            Fmt::Packed => Ok(()),
            _ => self.push(Tok::Seq(len)),
        }
    }

    fn close(&mut self) -> Result<(), E> {
        match self.fmt {
            Fmt::Packed => Ok(()),
            _ => self.push(Tok::End),
        }
    }
}

type No = ser::Impossible<(), E>;

impl<'a> ser::Serializer for &'a mut Rec {
    type Ok = ();
    type Error = E;
    type SerializeSeq = Self;
    type SerializeTuple = Self;
    type SerializeTupleStruct = Self;
    type SerializeTupleVariant = No;
    type SerializeMap = No;
    type SerializeStruct = Self;
    type SerializeStructVariant = No;

    fn serialize_u8(self, v: u8) -> Result<(), E> {
        self.push(Tok::U8(v))
    }
    fn serialize_u16(self, v: u16) -> Result<(), E> {
        self.push(Tok::U16(v))
    }
    fn serialize_u32(self, v: u32) -> Result<(), E> {
        self.push(Tok::U32(v))
    }
    fn serialize_u64(self, v: u64) -> Result<(), E> {
        self.push(Tok::U64(v))
    }
    fn serialize_f32(self, v: f32) -> Result<(), E> {
        self.push(Tok::F32(v.to_bits()))
    }
    fn serialize_f64(self, v: f64) -> Result<(), E> {
        self.push(Tok::F64(v.to_bits()))
    }

    fn serialize_newtype_struct<T: Serialize + ?Sized>(self, _name: &'static str, value: &T) -> Result<(), E> {
        value.serialize(self)
    }

    fn serialize_struct(self, name: &'static str, len: usize) -> Result<Self, E> {
        match self.fmt {
            Fmt::Named => self.push(Tok::Struct(name, len))?,
            Fmt::Listed => self.push(Tok::Seq(len))?,
            Fmt::Packed => {}
        }
        Ok(self)
    }
    fn serialize_tuple(self, len: usize) -> Result<Self, E> {
        self.open(len)?;
        Ok(self)
    }
    fn serialize_tuple_struct(self, _name: &'static str, len: usize) -> Result<Self, E> {
        self.open(len)?;
        Ok(self)
    }
    fn serialize_seq(self, len: Option<usize>) -> Result<Self, E> {
        match (self.fmt, len) {
            (Fmt::Packed, _) | (_, None) => Err(E::Backend),
            (_, Some(len)) => {
                self.open(len)?;
                Ok(self)
            }
        }
    }

    // Not part of any colour's data model: refused.
    fn serialize_bool(self, _v: bool) -> Result<(), E> {
        Err(E::Backend)
    }
    fn serialize_i8(self, _v: i8) -> Result<(), E> {
        Err(E::Backend)
    }
    fn serialize_i16(self, _v: i16) -> Result<(), E> {
        Err(E::Backend)
    }
    fn serialize_i32(self, _v: i32) -> Result<(), E> {
        Err(E::Backend)
    }
    fn serialize_i64(self, _v: i64) -> Result<(), E> {
        Err(E::Backend)
    }
    fn serialize_char(self, _v: char) -> Result<(), E> {
        Err(E::Backend)
    }
    fn serialize_str(self, _v: &str) -> Result<(), E> {
        Err(E::Backend)
    }
    fn serialize_bytes(self, _v: &[u8]) -> Result<(), E> {
        Err(E::Backend)
    }
    fn serialize_none(self) -> Result<(), E> {
        Err(E::Backend)
    }
    fn serialize_some<T: Serialize + ?Sized>(self, _value: &T) -> Result<(), E> {
        Err(E::Backend)
    }
    fn serialize_unit(self) -> Result<(), E> {
        Err(E::Backend)
    }
    fn serialize_unit_struct(self, _name: &'static str) -> Result<(), E> {
        Err(E::Backend)
    }
    fn serialize_unit_variant(self, _name: &'static str, _i: u32, _variant: &'static str) -> Result<(), E> {
        Err(E::Backend)
    }
    fn serialize_newtype_variant<T: Serialize + ?Sized>(self, _n: &'static str, _i: u32, _v: &'static str, _value: &T) -> Result<(), E> {
        Err(E::Backend)
    }
    fn serialize_tuple_variant(self, _n: &'static str, _i: u32, _v: &'static str, _len: usize) -> Result<No, E> {
        Err(E::Backend)
    }
    fn serialize_map(self, _len: Option<usize>) -> Result<No, E> {
        Err(E::Backend)
    }
    fn serialize_struct_variant(self, _n: &'static str, _i: u32, _v: &'static str, _len: usize) -> Result<No, E> {
        Err(E::Backend)
    }
    fn collect_str<T: fmt::Display + ?Sized>(self, _value: &T) -> Result<(), E> {
        Err(E::Backend)
    }
    fn is_human_readable(&self) -> bool {
        !matches!(self.fmt, Fmt::Packed)
    }
}

impl<'a> ser::SerializeStruct for &'a mut Rec {
    type Ok = ();
    type Error = E;
    fn serialize_field<T: Serialize + ?Sized>(&mut self, key: &'static str, value: &T) -> Result<(), E> {
        if let Fmt::Named = self.fmt {
            self.push(Tok::Field(key))?;
        }
        value.serialize(&mut **self)
    }
    fn end(self) -> Result<(), E> {
        self.close()
    }
}
impl<'a> ser::SerializeTuple for &'a mut Rec {
    type Ok = ();
    type Error = E;
    fn serialize_element<T: Serialize + ?Sized>(&mut self, value: &T) -> Result<(), E> {
        value.serialize(&mut **self)
    }
    fn end(self) -> Result<(), E> {
        self.close()
    }
}
impl<'a> ser::SerializeTupleStruct for &'a mut Rec {
    type Ok = ();
    type Error = E;
    fn serialize_field<T: Serialize + ?Sized>(&mut self, value: &T) -> Result<(), E> {
        value.serialize(&mut **self)
    }
    fn end(self) -> Result<(), E> {
        self.close()
    }
}
impl<'a> ser::SerializeSeq for &'a mut Rec {
    type Ok = ();
    type Error = E;
    fn serialize_element<T: Serialize + ?Sized>(&mut self, value: &T) -> Result<(), E> {
        value.serialize(&mut **self)
    }
    fn end(self) -> Result<(), E> {
        self.close()
    }
}

// ----------------------------------------------------------------------------------------------------------- deserializer

/// Token replayer (`&mut Play` is the `Deserializer`).
pub struct Play<'a> {
    pub toks: &'a [Tok; CAP],
    pub n: usize,
    pub pos: usize,
    pub fmt: Fmt,
}

impl<'a> Play<'a> {
    pub fn new(rec: &'a Rec) -> Play<'a> {
        Play { toks: &rec.toks, n: rec.n, pos: 0, fmt: rec.fmt }
    }

    /// The whole stream has been consumed.
    pub fn done(&self) -> bool {
        self.pos == self.n
    }

    fn peek(&self) -> Tok {
        if self.pos < self.n {
            self.toks[self.pos]
        } else {
            Tok::Empty
        }
    }

    fn next(&mut self) -> Tok {
        let t = self.peek();
        if self.pos < self.n {
            self.pos += 1;
        }
        t
    }

    fn expect_end(&mut self) -> Result<(), E> {
        match self.next().kind {
            Kind::End => Ok(()),
            _ => Err(E::Backend),
        }
    }

    /// `visit_seq` over exactly `len` elements; it is an error if the visitor leaves elements unread.
    fn run_seq<'de, V: Visitor<'de>>(&mut self, len: usize, visitor: V) -> Result<V::Value, E> {
        let mut left = len;
        let v = visitor.visit_seq(Counted { de: &mut *self, left: &mut left })?;
        if left != 0 {
            return Err(E::Backend);
        }
        Ok(v)
    }

    /// Tuple-like things: `Seq(len) .. End` in the delimited framings, `hint` values in the packed one.
    fn tuple<'de, V: Visitor<'de>>(&mut self, hint: Option<usize>, visitor: V) -> Result<V::Value, E> {
        match (self.fmt, hint) {
            (Fmt::Packed, Some(len)) => self.run_seq(len, visitor),
            (Fmt::Packed, None) => Err(E::Backend),
            _ => {
                let t = self.next();
                match t.kind {
                    Kind::Seq => {
                        let v = self.run_seq(t.num as usize, visitor)?;
                        self.expect_end()?;
                        Ok(v)
                    }
                    _ => Err(E::Backend),
                }
            }
        }
    }
}

struct Counted<'x, 'a> {
    de: &'x mut Play<'a>,
    left: &'x mut usize,
}

impl<'de, 'x, 'a> de::SeqAccess<'de> for Counted<'x, 'a> {
    type Error = E;
    fn next_element_seed<T: DeserializeSeed<'de>>(&mut self, seed: T) -> Result<Option<T::Value>, E> {
        if *self.left == 0 {
            return Ok(None);
        }
        *self.left -= 1;
        seed.deserialize(&mut *self.de).map(Some)
    }
    fn size_hint(&self) -> Option<usize> {
        Some(*self.left)
    }
}

struct Fields<'x, 'a> {
    de: &'x mut Play<'a>,
    left: &'x mut usize,
}

impl<'de, 'x, 'a> de::MapAccess<'de> for Fields<'x, 'a> {
    type Error = E;
    fn next_key_seed<K: DeserializeSeed<'de>>(&mut self, seed: K) -> Result<Option<K::Value>, E> {
        if *self.left == 0 {
            return Ok(None);
        }
        *self.left -= 1;
        let t = self.de.next();
        match t.kind {
            Kind::Field => seed.deserialize(Ident(t.name)).map(Some),
            _ => Err(E::Backend),
        }
    }
    fn next_value_seed<V: DeserializeSeed<'de>>(&mut self, seed: V) -> Result<V::Value, E> {
        seed.deserialize(&mut *self.de)
    }
    fn size_hint(&self) -> Option<usize> {
        Some(*self.left)
    }
}

/// A recorded field name handed to the field-identifier visitor.
struct Ident(&'static str);

impl<'de> de::Deserializer<'de> for Ident {
    type Error = E;
    fn deserialize_any<V: Visitor<'de>>(self, visitor: V) -> Result<V::Value, E> {
        visitor.visit_str(self.0)
    }
    serde::forward_to_deserialize_any! {
        bool i8 i16 i32 i64 i128 u8 u16 u32 u64 u128 f32 f64 char str string bytes byte_buf option unit unit_struct
        newtype_struct seq tuple tuple_struct map struct enum identifier ignored_any
    }
}

macro_rules! number {
    ($method:ident, $tok:ident, $ty:ty, $visit:ident, $conv:expr) => {
        fn $method<V: Visitor<'de>>(self, visitor: V) -> Result<V::Value, E> {
            let t = self.next();
            match t.kind {
                Kind::$tok => visitor.$visit($conv(t.num as $ty)),
                _ => Err(E::Backend),
            }
        }
    };
}

macro_rules! refused {
    ($($method:ident)*) => {
        $(fn $method<V: Visitor<'de>>(self, _visitor: V) -> Result<V::Value, E> {
            Err(E::Backend)
        })*
    };
}

impl<'de, 'b, 'a> de::Deserializer<'de> for &'b mut Play<'a> {
    type Error = E;

    number!(deserialize_u8, U8, u8, visit_u8, |v| v);
    number!(deserialize_u16, U16, u16, visit_u16, |v| v);
    number!(deserialize_u32, U32, u32, visit_u32, |v| v);
    number!(deserialize_u64, U64, u64, visit_u64, |v| v);
    number!(deserialize_f32, F32, u32, visit_f32, f32::from_bits);
    number!(deserialize_f64, F64, u64, visit_f64, f64::from_bits);

    fn deserialize_newtype_struct<V: Visitor<'de>>(self, _name: &'static str, visitor: V) -> Result<V::Value, E> {
        visitor.visit_newtype_struct(self)
    }

    fn deserialize_struct<V: Visitor<'de>>(self, name: &'static str, fields: &'static [&'static str], visitor: V) -> Result<V::Value, E> {
        if let Fmt::Packed = self.fmt {
            return self.run_seq(fields.len(), visitor);
        }
        let t = self.next();
        match t.kind {
            Kind::Struct => {
                if t.name != name {
                    return Err(E::Backend);
                }
                let mut left = t.num as usize;
                let v = visitor.visit_map(Fields { de: &mut *self, left: &mut left })?;
                if left != 0 {
                    return Err(E::Backend);
                }
                self.expect_end()?;
                Ok(v)
            }
            Kind::Seq => {
                let v = self.run_seq(t.num as usize, visitor)?;
                self.expect_end()?;
                Ok(v)
            }
            _ => Err(E::Backend),
        }
    }

    fn deserialize_tuple<V: Visitor<'de>>(self, len: usize, visitor: V) -> Result<V::Value, E> {
        self.tuple(Some(len), visitor)
    }
    fn deserialize_tuple_struct<V: Visitor<'de>>(self, _name: &'static str, len: usize, visitor: V) -> Result<V::Value, E> {
        self.tuple(Some(len), visitor)
    }
    fn deserialize_seq<V: Visitor<'de>>(self, visitor: V) -> Result<V::Value, E> {
        self.tuple(None, visitor)
    }

    refused! {
        deserialize_any deserialize_bool deserialize_i8 deserialize_i16 deserialize_i32 deserialize_i64 deserialize_char
        deserialize_str deserialize_string deserialize_bytes deserialize_byte_buf deserialize_option deserialize_unit
        deserialize_map deserialize_identifier deserialize_ignored_any
    }
    fn deserialize_unit_struct<V: Visitor<'de>>(self, _name: &'static str, _visitor: V) -> Result<V::Value, E> {
        Err(E::Backend)
    }
    fn deserialize_enum<V: Visitor<'de>>(self, _name: &'static str, _variants: &'static [&'static str], _visitor: V) -> Result<V::Value, E> {
        Err(E::Backend)
    }
    fn is_human_readable(&self) -> bool {
        !matches!(self.fmt, Fmt::Packed)
    }
}

// ---------------------------------------------------------------------------------------------------------------- helpers

/// `stream![fmt; tok, tok, ...]`: a recorder pre-filled with a hand-built stream (for streams palette's own `Serialize` does
/// not produce, e.g. `alpha` first). Expands without a loop, so that it does not raise the harness's unwinding bound.
macro_rules! stream {
    ($fmt:expr; $($tok:expr),* $(,)?) => {{
        let mut r = $crate::c20_support::Rec::new($fmt);
        $( let _ = r.push($tok); )*
        r
    }};
}

/// `shape!(rec; tok, tok, ...)`: the recorded stream is exactly these tokens (loop-free; `Tok` equality compares kind, name
/// and number).
macro_rules! shape {
    ($rec:expr; $($tok:expr),* $(,)?) => {{
        let r: &$crate::c20_support::Rec = &$rec;
        let mut i = 0usize;
        let mut ok = true;
        $( ok = ok && i < r.n && r.toks[i] == $tok; i += 1; )*
        ok && r.n == i
    }};
}
pub(crate) use {shape, stream};

/// Serializes `value` in framing `fmt`; the result says whether every data-model call was accepted.
pub fn record<T: Serialize>(fmt: Fmt, value: &T) -> (Rec, Result<(), E>) {
    let mut rec = Rec::new(fmt);
    let r = value.serialize(&mut rec);
    (rec, r)
}

/// Deserializes a `T` from the whole recorded stream (left-over tokens are an error).
pub fn replay<'de, T: de::Deserialize<'de>>(rec: &Rec) -> Result<T, E> {
    let mut p = Play::new(rec);
    let v = T::deserialize(&mut p)?;
    if !p.done() {
        return Err(E::Backend);
    }
    Ok(v)
}

/// Like `replay`, through a `deserialize_with`-style function.
pub fn replay_with<'a, T>(rec: &'a Rec, f: impl FnOnce(&mut Play<'a>) -> Result<T, E>) -> Result<T, E> {
    let mut p = Play::new(rec);
    let v = f(&mut p)?;
    if !p.done() {
        return Err(E::Backend);
    }
    Ok(v)
}

// ------------------------------------------------------------------------------------- harness structs for the field helpers

/// User structs with a colour field stored through `#[serde(with = "palette::serde::as_array")]` (the documented use), one per
/// concrete colour type: no generic bound on the helper's signature is baked into the harness, so a change of the helper's
/// bounds that keeps concrete uses compiling is checked for what it does rather than rejected by the harness build.
macro_rules! with_array {
    ($name:ident, $ty:ty) => {
        #[derive(serde::Serialize, serde::Deserialize)]
        #[serde(rename = "WithArray")]
        pub struct $name {
            #[serde(with = "palette::serde::as_array")]
            pub c: $ty,
        }
    };
}
with_array!(WithArrayRgbU8, palette::rgb::Rgb<palette::encoding::Srgb, u8>);
with_array!(WithArrayRgbaU8, palette::Alpha<palette::rgb::Rgb<palette::encoding::Srgb, u8>, u8>);
with_array!(WithArrayRgbF32, palette::rgb::Rgb<palette::encoding::Srgb, f32>);
with_array!(WithArrayHsvaF32, palette::Alpha<palette::Hsv<palette::encoding::Srgb, f32>, f32>);

/// A user struct with a colour field stored through `#[serde(with = "palette::serde::as_uint")]` (the documented use).
#[derive(serde::Serialize, serde::Deserialize)]
#[serde(bound(
    serialize = "C: palette::cast::UintCast, C::Uint: serde::Serialize",
    deserialize = "C: palette::cast::UintCast, C::Uint: serde::Deserialize<'de>"
))]
pub struct WithUint<C> {
    #[serde(with = "palette::serde::as_uint")]
    pub c: C,
}
