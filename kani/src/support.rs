//! Shared helpers for harnesses.

/// Successor in the total order of non-NaN f32 values (-inf .. -0.0, +0.0 .. +inf). Caller excludes NaN and +inf.
pub fn succ_f32(x: f32) -> f32 {
    let b = x.to_bits();
    if b == 0x8000_0000 {
        0.0
    } else if b >> 31 == 1 {
        f32::from_bits(b - 1)
    } else {
        f32::from_bits(b + 1)
    }
}

/// Successor in the total order of non-NaN f64 values. Caller excludes NaN and +inf.
pub fn succ_f64(x: f64) -> f64 {
    let b = x.to_bits();
    if b == 0x8000_0000_0000_0000 {
        0.0
    } else if b >> 63 == 1 {
        f64::from_bits(b - 1)
    } else {
        f64::from_bits(b + 1)
    }
}

/// Plumbing component type: every angle operation is a distinct bijection on u32 (rotate + xor: cheap for SAT), so that the
/// composition order of generic accessor code is decided by plain bit-vector reasoning (no float circuits).
#[derive(Clone, Copy, PartialEq, Eq, Debug)]
pub struct Tag(pub u32);

impl Tag {
    pub fn r2d(self) -> Tag { Tag(self.0.rotate_left(3) ^ 0x1111_1111) }
    pub fn d2r(self) -> Tag { Tag(self.0.rotate_left(5) ^ 0x2222_2222) }
    pub fn ns(self) -> Tag { Tag(self.0.rotate_left(7) ^ 0x4444_4444) }
    pub fn nu(self) -> Tag { Tag(self.0.rotate_left(11) ^ 0x8888_8888) }
}

impl palette::num::Real for Tag {
    fn from_f64(n: f64) -> Self { Tag(n as u32) }
}
impl palette::angle::RealAngle for Tag {
    fn radians_to_degrees(self) -> Self { self.r2d() }
    fn degrees_to_radians(self) -> Self { self.d2r() }
}
impl palette::angle::SignedAngle for Tag {
    fn normalize_signed_angle(self) -> Self { self.ns() }
}
impl palette::angle::UnsignedAngle for Tag {
    fn normalize_unsigned_angle(self) -> Self { self.nu() }
}
impl core::ops::Add for Tag {
    type Output = Tag;
    fn add(self, o: Tag) -> Tag { Tag(self.0.rotate_left(13) ^ o.0) }
}
impl core::ops::Sub for Tag {
    type Output = Tag;
    fn sub(self, o: Tag) -> Tag { Tag(self.0.rotate_left(17) ^ !o.0) }
}
impl core::ops::AddAssign for Tag {
    fn add_assign(&mut self, o: Tag) { *self = *self + o; }
}
impl core::ops::SubAssign for Tag {
    fn sub_assign(&mut self, o: Tag) { *self = *self - o; }
}

/// Plumbing colour types for the blanket conversion impls: conversion, clamp and bounds test are arbitrary,
/// mutually distinguishable functions on u32.
#[derive(Clone, Copy, PartialEq, Eq, Debug)]
#[repr(transparent)]
pub struct PSrc(pub u32);
#[derive(Clone, Copy, PartialEq, Eq, Debug)]
#[repr(transparent)]
pub struct PDst(pub u32);
// both are transparent wrappers of one u32: the array form the in-place collection conversions need
unsafe impl palette::cast::ArrayCast for PSrc {
    type Array = [u32; 1];
}
unsafe impl palette::cast::ArrayCast for PDst {
    type Array = [u32; 1];
}

impl palette::convert::FromColorUnclamped<PSrc> for PDst {
    fn from_color_unclamped(s: PSrc) -> PDst { PDst(s.0.rotate_left(7) ^ 0x9E37_79B1) }
}
impl palette::Clamp for PDst {
    fn clamp(self) -> PDst { PDst(self.0 & 0xFFFF_FF00) }
}
impl palette::bool_mask::HasBoolMask for PDst {
    type Mask = bool;
}
impl palette::IsWithinBounds for PDst {
    fn is_within_bounds(&self) -> bool { self.0 & 0xFF == 0 }
}
