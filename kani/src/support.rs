//! Shared helpers for harnesses.

/// Successor in the total order of non-NaN f32 values (-inf .. -0.0, +0.0 .. +inf). Caller excludes NaN and +inf.
pub fn succ_f32(x: f32) -> f32 {
    let b = x.to_bits();
    if b == 0x8000_0000 {
        0.0
    } else if b >> 31 == 1 {
        f32::from_bits(b - 1)
    } else {
        f32::from_bits(b + 1)
    }
}

/// Successor in the total order of non-NaN f64 values. Caller excludes NaN and +inf.
pub fn succ_f64(x: f64) -> f64 {
    let b = x.to_bits();
    if b == 0x8000_0000_0000_0000 {
        0.0
    } else if b >> 63 == 1 {
        f64::from_bits(b - 1)
    } else {
        f64::from_bits(b + 1)
    }
}

/// Plumbing component type: every angle operation is a distinct injective-looking affine map on u32, so that the
/// composition order of generic accessor code is decided by plain bit-vector reasoning (no float circuits).
#[derive(Clone, Copy, PartialEq, Eq, Debug)]
pub struct Tag(pub u32);

impl Tag {
    pub fn r2d(self) -> Tag { Tag(self.0.wrapping_mul(7).wrapping_add(3)) }
    pub fn d2r(self) -> Tag { Tag(self.0.wrapping_mul(11).wrapping_add(5)) }
    pub fn ns(self) -> Tag { Tag(self.0.wrapping_mul(13).wrapping_add(1)) }
    pub fn nu(self) -> Tag { Tag(self.0.wrapping_mul(17).wrapping_add(2)) }
}

impl palette::num::Real for Tag {
    fn from_f64(n: f64) -> Self { Tag(n as u32) }
}
impl palette::angle::RealAngle for Tag {
    fn radians_to_degrees(self) -> Self { self.r2d() }
    fn degrees_to_radians(self) -> Self { self.d2r() }
}
impl palette::angle::SignedAngle for Tag {
    fn normalize_signed_angle(self) -> Self { self.ns() }
}
impl palette::angle::UnsignedAngle for Tag {
    fn normalize_unsigned_angle(self) -> Self { self.nu() }
}
impl core::ops::Add for Tag {
    type Output = Tag;
    fn add(self, o: Tag) -> Tag { Tag(self.0.wrapping_mul(3).wrapping_add(o.0)) }
}
impl core::ops::Sub for Tag {
    type Output = Tag;
    fn sub(self, o: Tag) -> Tag { Tag(self.0.wrapping_mul(5).wrapping_sub(o.0)) }
}
impl core::ops::AddAssign for Tag {
    fn add_assign(&mut self, o: Tag) { *self = *self + o; }
}
impl core::ops::SubAssign for Tag {
    fn sub_assign(&mut self, o: Tag) { *self = *self - o; }
}
