//! Shared helpers for harnesses.

/// Successor in the total order of non-NaN f32 values (-inf .. -0.0, +0.0 .. +inf). Caller excludes NaN and +inf.
pub fn succ_f32(x: f32) -> f32 {
    let b = x.to_bits();
    if b == 0x8000_0000 {
        0.0
    } else if b >> 31 == 1 {
        f32::from_bits(b - 1)
    } else {
        f32::from_bits(b + 1)
    }
}

/// Successor in the total order of non-NaN f64 values. Caller excludes NaN and +inf.
pub fn succ_f64(x: f64) -> f64 {
    let b = x.to_bits();
    if b == 0x8000_0000_0000_0000 {
        0.0
    } else if b >> 63 == 1 {
        f64::from_bits(b - 1)
    } else {
        f64::from_bits(b + 1)
    }
}
