// TEMPORARY probe file (cost experiments) - to be deleted
use crate::c12_support::*;
use palette::rgb::{Rgb, Rgba};

fn fixed_rgb_u8(hex: &str) -> Result<Rgb<Std, u8>, ()> {
    let hex_code = hex.strip_prefix('#').map_or(hex, |s| s);
    let b = hex_code.as_bytes();
    let mut i = 0;
    while i < b.len() {
        if !b[i].is_ascii_hexdigit() {
            return Err(());
        }
        i += 1;
    }
    match hex_code.len() {
        3 => {
            let r = u8::from_str_radix(&hex_code[..1], 16).map_err(|_| ())?;
            let g = u8::from_str_radix(&hex_code[1..2], 16).map_err(|_| ())?;
            let b = u8::from_str_radix(&hex_code[2..3], 16).map_err(|_| ())?;
            Ok(Rgb::new(r * 17, g * 17, b * 17))
        }
        6 => {
            let r = u8::from_str_radix(&hex_code[..2], 16).map_err(|_| ())?;
            let g = u8::from_str_radix(&hex_code[2..4], 16).map_err(|_| ())?;
            let b = u8::from_str_radix(&hex_code[4..6], 16).map_err(|_| ())?;
            Ok(Rgb::new(r, g, b))
        }
        _ => Err(()),
    }
}

fn check_fixed<const N: usize>(buf: &[u8; N], len: usize) {
    let s = unsafe { core::str::from_utf8_unchecked(&buf[..len]) };
    let got = fixed_rgb_u8(s);
    let want = spec(buf, len, &[3, 6]);
    match got {
        Ok(c) => {
            assert!(want.is_some());
            if let Some((off, n)) = want {
                let (per, v) = digits(buf, off, n, 3);
                assert!(c == <Rgb<Std, u8> as FromDigits>::from_digits(per, v));
            }
        }
        Err(_) => assert!(want.is_none()),
    }
}

/// probe
#[kani::proof]
#[kani::unwind(38)]
pub fn c12_probe_full_fixed() {
    let cs: [char; 9] = kani::any();
    let k: usize = kani::any();
    kani::assume(k <= 9);
    kani::cover!(true);
    let mut buf = [0u8; 36];
    let mut len = 0usize;
    let mut i = 0;
    while i < 9 {
        if i < k {
            push_char(&mut buf, &mut len, cs[i]);
        }
        i += 1;
    }
    check_fixed(&buf, len);
}

/// probe
#[kani::proof]
#[kani::unwind(14)]
pub fn c12_probe_full12_fixed() {
    let cs: [char; 9] = kani::any();
    let k: usize = kani::any();
    kani::assume(k <= 9);
    let mut buf = [0u8; 12];
    let mut len = 0usize;
    let mut tot = 0usize;
    let mut i = 0;
    while i < 9 {
        if i < k {
            tot += cs[i].len_utf8();
            push_char(&mut buf, &mut len, cs[i]);
        }
        i += 1;
    }
    kani::assume(tot <= 12);
    kani::cover!(true);
    check_fixed(&buf, len);
}

fn overlay<const N: usize, const M: usize>() -> ([u8; N], usize) {
    let mut buf: [u8; N] = kani::any();
    let len: usize = kani::any();
    kani::assume(len <= N);
    let mut i = 0;
    while i < N {
        kani::assume(buf[i] < 0x80);
        i += 1;
    }
    let cs: [char; M] = kani::any();
    let ps: [usize; M] = kani::any();
    let mut lo = 0usize;
    let mut m = 0;
    while m < M {
        let mut tmp = [0u8; 4];
        let w = cs[m].encode_utf8(&mut tmp).len();
        kani::assume(ps[m] >= lo && ps[m] <= N && w <= N - ps[m]);
        // a char that would cross the end of the string is not allowed
        kani::assume(ps[m] + w <= len);
        let mut i = 0;
        while i < N {
            if i >= ps[m] && i < ps[m] + w {
                buf[i] = tmp[i - ps[m]];
            }
            i += 1;
        }
        lo = ps[m] + w;
        m += 1;
    }
    (buf, len)
}

/// probe
#[kani::proof]
#[kani::unwind(11)]
pub fn c12_probe_overlay2_fixed() {
    let (buf, len) = overlay::<9, 2>();
    kani::cover!(true);
    check_fixed(&buf, len);
}

/// probe
#[kani::proof]
#[kani::unwind(11)]
pub fn c12_probe_overlay4_fixed() {
    let (buf, len) = overlay::<9, 4>();
    kani::cover!(true);
    check_fixed(&buf, len);
}

/// probe
#[kani::proof]
#[kani::unwind(11)]
pub fn c12_probe_overlay4_real() {
    let (buf, len) = overlay::<9, 4>();
    kani::cover!(true);
    check_parse::<Rgb<Std, u8>, 9>(&buf, len, &[3, 6], true);
}

/// probe
#[kani::proof]
#[kani::unwind(11)]
pub fn c12_probe_ascii9_fixed() {
    let buf: [u8; 9] = kani::any();
    let len: usize = kani::any();
    kani::assume(len <= 9);
    let mut i = 0;
    while i < 9 {
        kani::assume(buf[i] < 0x80);
        i += 1;
    }
    kani::cover!(true);
    check_fixed(&buf, len);
}
