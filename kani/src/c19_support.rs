//! C19 support: the environment RNG and the harness component type `K32`.
//!
//! `AnyRng` is the random number generator of every C19 harness: each word it hands out is a fresh `kani::any()`, so one
//! symbolic execution covers every RNG stream (every seed of every generator) at once.
//!
//! `K32(f32)` is an `f32` component seen through `palette::num`: `+ - * /`, comparisons, constants and angle
//! normalisation are the plain IEEE `f32` operations (the same expressions as palette's own `f32` impls), so palette's
//! generic sampler code runs on real floats. Three things differ from plain `f32`, all of them environment contracts:
//!
//! * `Distribution<K32> for Standard` draws through rand's real `f32` code (`K32(rng.gen::<f32>())`).
//! * `SampleUniform for K32` is rand's *documented contract* instead of rand's `UniformFloat` (whose constructor shrinks its
//!   scale one ulp per loop iteration - up to 2^23 iterations for narrow ranges, out of reach of bounded unwinding -
//!   and whose `sample` is a symbolic x symbolic multiply): `Uniform::new(lo, hi)` panics unless `lo < hi`
//!   (`new_inclusive`: `lo <= hi`), `sample` returns a nondeterministic value `v` with `lo <= v < hi` (`lo <= v <= hi`).
//!   Every conforming implementation and every RNG stream is covered at once.
//! * `cbrt` (no usable CBMC model) is nondeterministic within its range contract `0 <= x <= 1 => 0 <= cbrt(x) <= 1`,
//!   `x >= 0 => cbrt(x) >= 0`. With `abstract_powers(..)` the pairs `powi(2)`/`x * x`/`sqrt` and `powi(3)`/`cbrt`
//!   become an *arbitrary strictly increasing function on [0, inf) that maps [0, 1] into [0, 1], and its inverse* (every such
//!   pair at once: the real-number square/cube and root are one of them). That is exactly what range containment of the
//!   cylinder and cone samplers rests on (they sample between the squared / cubed ends and take the root); the
//!   floating-point rounding of `x * x * x` and of libm's `cbrt` is outside this contract (Engine S covers the real-valued
//!   statement, the rounding is not part of C19's claim).
use core::ops::{Add, AddAssign, Div, Mul, Neg, Sub, SubAssign};
use rand::distributions::uniform::{SampleBorrow, SampleUniform, UniformSampler};
use rand::distributions::{Distribution, Standard};
use rand::{Rng, RngCore};

/// Environment stub for the random number generator: every word is nondeterministic.
pub struct AnyRng;

impl RngCore for AnyRng {
    fn next_u32(&mut self) -> u32 {
        kani::any()
    }
    fn next_u64(&mut self) -> u64 {
        kani::any()
    }
    fn fill_bytes(&mut self, dest: &mut [u8]) {
        for b in dest.iter_mut() {
            *b = self.next_u64() as u8;
        }
    }
    fn try_fill_bytes(&mut self, dest: &mut [u8]) -> Result<(), rand::Error> {
        self.fill_bytes(dest);
        Ok(())
    }
}

#[derive(Clone, Copy, PartialEq, PartialOrd, Debug)]
pub struct K32(pub f32);

// ---- abstract power / root pairs -------------------------------------------------------------------------------------

const NPOW: usize = 4;
static mut ABSTRACT: bool = false;
static mut ABSTRACT_SQ: bool = false;
static mut POW_N: usize = 0;
static mut POW_X: [f32; NPOW] = [0.0; NPOW];
static mut POW_E: [i32; NPOW] = [0; NPOW];
static mut POW_R: [f32; NPOW] = [0.0; NPOW];

/// Switches `powi(2|3)`, `sqrt` and `cbrt` of `K32` to the abstract strictly increasing function / inverse pairs;
/// `squares` additionally treats a product of two bit-identical operands (`x * x`, how the cylinder samplers square
/// their radius ends) as `powi(2)`.
pub fn abstract_powers(squares: bool) {
    unsafe {
        ABSTRACT = true;
        ABSTRACT_SQ = squares;
    }
}

fn is_abstract() -> bool {
    unsafe { ABSTRACT }
}

/// `x -> x^e` as an arbitrary strictly increasing function on [0, inf) with f(0) = 0, f(1) = 1 (so [0,1] -> [0,1]); a
/// function: the same argument gives the same result. Arguments below 0 are outside the contract (arbitrary result).
fn abs_pow(x: f32, e: i32) -> f32 {
    unsafe {
        let n = POW_N;
        let r: f32 = kani::any();
        kani::assume(r.is_finite());
        if x >= 0.0 {
            kani::assume(r >= 0.0);
            kani::assume((x == 0.0) == (r == 0.0));
            kani::assume((x < 1.0) == (r < 1.0));
            kani::assume((x == 1.0) == (r == 1.0));
        }
        let mut i = 0;
        while i < NPOW {
            if i < n && POW_E[i] == e && POW_X[i] >= 0.0 && x >= 0.0 {
                kani::assume((x < POW_X[i]) == (r < POW_R[i]));
                kani::assume((x == POW_X[i]) == (r == POW_R[i]));
            }
            i += 1;
        }
        assert!(n < NPOW, "K32 power table full");
        POW_X[n] = x;
        POW_E[n] = e;
        POW_R[n] = r;
        POW_N = n + 1;
        r
    }
}

/// The inverse of `abs_pow(_, e)`: increasing, and exact at every recorded point.
fn abs_root(x: f32, e: i32) -> f32 {
    unsafe {
        let n = POW_N;
        let r: f32 = kani::any();
        kani::assume(r.is_finite());
        if x >= 0.0 {
            kani::assume(r >= 0.0);
            kani::assume((x == 0.0) == (r == 0.0));
            kani::assume((x < 1.0) == (r < 1.0));
            kani::assume((x == 1.0) == (r == 1.0));
        }
        let mut i = 0;
        while i < NPOW {
            if i < n && POW_E[i] == e && POW_X[i] >= 0.0 && x >= 0.0 {
                kani::assume((x < POW_R[i]) == (r < POW_X[i]));
                kani::assume((x == POW_R[i]) == (r == POW_X[i]));
            }
            i += 1;
        }
        r
    }
}

// ---- palette::num ------------------------------------------------------------------------------------------------------

impl palette::num::Real for K32 {
    fn from_f64(n: f64) -> Self {
        K32(n as f32)
    }
}
impl palette::num::Zero for K32 {
    fn zero() -> Self {
        K32(0.0)
    }
}
impl palette::num::One for K32 {
    fn one() -> Self {
        K32(1.0)
    }
}
impl Add for K32 {
    type Output = K32;
    fn add(self, o: K32) -> K32 {
        K32(self.0 + o.0)
    }
}
impl Sub for K32 {
    type Output = K32;
    fn sub(self, o: K32) -> K32 {
        K32(self.0 - o.0)
    }
}
impl Mul for K32 {
    type Output = K32;
    fn mul(self, o: K32) -> K32 {
        if unsafe { ABSTRACT_SQ } && self.0.to_bits() == o.0.to_bits() {
            K32(abs_pow(self.0, 2))
        } else {
            K32(self.0 * o.0)
        }
    }
}
impl Div for K32 {
    type Output = K32;
    fn div(self, o: K32) -> K32 {
        K32(self.0 / o.0)
    }
}
impl Neg for K32 {
    type Output = K32;
    fn neg(self) -> K32 {
        K32(-self.0)
    }
}
impl<'a> Add<&'a K32> for K32 {
    type Output = K32;
    fn add(self, o: &'a K32) -> K32 {
        self + *o
    }
}
impl<'a> Sub<&'a K32> for K32 {
    type Output = K32;
    fn sub(self, o: &'a K32) -> K32 {
        self - *o
    }
}
impl<'a> Mul<&'a K32> for K32 {
    type Output = K32;
    fn mul(self, o: &'a K32) -> K32 {
        self * *o
    }
}
impl<'a> Div<&'a K32> for K32 {
    type Output = K32;
    fn div(self, o: &'a K32) -> K32 {
        self / *o
    }
}
impl AddAssign for K32 {
    fn add_assign(&mut self, o: K32) {
        *self = *self + o;
    }
}
impl SubAssign for K32 {
    fn sub_assign(&mut self, o: K32) {
        *self = *self - o;
    }
}
impl palette::bool_mask::HasBoolMask for K32 {
    type Mask = bool;
}
impl palette::num::PartialCmp for K32 {
    fn lt(&self, o: &K32) -> bool {
        self.0 < o.0
    }
    fn lt_eq(&self, o: &K32) -> bool {
        self.0 <= o.0
    }
    fn eq(&self, o: &K32) -> bool {
        self.0 == o.0
    }
    fn neq(&self, o: &K32) -> bool {
        self.0 != o.0
    }
    fn gt_eq(&self, o: &K32) -> bool {
        self.0 >= o.0
    }
    fn gt(&self, o: &K32) -> bool {
        self.0 > o.0
    }
}
impl palette::num::MinMax for K32 {
    fn min(self, o: K32) -> K32 {
        K32(f32::min(self.0, o.0))
    }
    fn max(self, o: K32) -> K32 {
        K32(f32::max(self.0, o.0))
    }
    fn min_max(self, o: K32) -> (K32, K32) {
        if self.0 > o.0 {
            (o, self)
        } else {
            (self, o)
        }
    }
}
impl palette::num::IsValidDivisor for K32 {
    fn is_valid_divisor(&self) -> bool {
        self.0.is_normal()
    }
}
impl palette::num::Sqrt for K32 {
    fn sqrt(self) -> K32 {
        if is_abstract() {
            K32(abs_root(self.0, 2))
        } else {
            K32(self.0.sqrt())
        }
    }
}
impl palette::num::Cbrt for K32 {
    fn cbrt(self) -> K32 {
        if is_abstract() {
            K32(abs_root(self.0, 3))
        } else {
            let r: f32 = kani::any();
            kani::assume(r.is_finite());
            if self.0 >= 0.0 {
                kani::assume(r >= 0.0);
                if self.0 <= 1.0 {
                    kani::assume(r <= 1.0);
                }
            }
            K32(r)
        }
    }
}
impl palette::num::Powi for K32 {
    fn powi(self, e: i32) -> K32 {
        if is_abstract() {
            K32(abs_pow(self.0, e))
        } else {
            let mut acc = 1.0f32;
            let mut i = 0;
            while i < e {
                acc *= self.0;
                i += 1;
            }
            K32(acc)
        }
    }
}
impl palette::angle::FullRotation for K32 {
    fn full_rotation() -> K32 {
        K32(360.0)
    }
}
impl palette::angle::HalfRotation for K32 {
    fn half_rotation() -> K32 {
        K32(180.0)
    }
}
impl palette::angle::RealAngle for K32 {
    fn radians_to_degrees(self) -> K32 {
        K32(self.0.to_degrees())
    }
    fn degrees_to_radians(self) -> K32 {
        K32(self.0.to_radians())
    }
}
impl palette::angle::UnsignedAngle for K32 {
    fn normalize_unsigned_angle(self) -> K32 {
        K32(palette::angle::UnsignedAngle::normalize_unsigned_angle(self.0))
    }
}
impl palette::angle::SignedAngle for K32 {
    fn normalize_signed_angle(self) -> K32 {
        K32(palette::angle::SignedAngle::normalize_signed_angle(self.0))
    }
}

// ---- rand ----------------------------------------------------------------------------------------------------------------

impl Distribution<K32> for Standard {
    fn sample<R: Rng + ?Sized>(&self, rng: &mut R) -> K32 {
        K32(rng.gen::<f32>())
    }
}

/// rand's documented `Uniform` contract for a float type (see the module doc).
#[derive(Clone, Copy, Debug)]
pub struct UniformK32 {
    low: f32,
    high: f32,
    inclusive: bool,
}

impl SampleUniform for K32 {
    type Sampler = UniformK32;
}

impl UniformSampler for UniformK32 {
    type X = K32;

    fn new<B1, B2>(low_b: B1, high_b: B2) -> Self
    where
        B1: SampleBorrow<K32> + Sized,
        B2: SampleBorrow<K32> + Sized,
    {
        let (low, high) = (low_b.borrow().0, high_b.borrow().0);
        assert!(low < high, "Uniform::new called with `low >= high`");
        UniformK32 { low, high, inclusive: false }
    }

    fn new_inclusive<B1, B2>(low_b: B1, high_b: B2) -> Self
    where
        B1: SampleBorrow<K32> + Sized,
        B2: SampleBorrow<K32> + Sized,
    {
        let (low, high) = (low_b.borrow().0, high_b.borrow().0);
        assert!(low <= high, "Uniform::new_inclusive called with `low > high`");
        UniformK32 { low, high, inclusive: true }
    }

    fn sample<R: Rng + ?Sized>(&self, _rng: &mut R) -> K32 {
        let v: f32 = kani::any();
        kani::assume(self.low <= v);
        kani::assume(if self.inclusive { v <= self.high } else { v < self.high });
        K32(v)
    }
}

// ---- hue arcs --------------------------------------------------------------------------------------------------------

/// Hue positions are compared modulo 360 up to the rounding of palette's own normalisation of the ends and of the sample
/// (C11: `into_positive_degrees` is exact to within 2 ulp of max(|x|, 360); |x| <= 720 here): 2 * 2^-14 degrees.
pub const ARC_TOL: f64 = 1.25e-4;

/// `x mod 360` for `-720 <= x < 1080`, in f64 (exact up to 2^-44 for f32 inputs of this size).
pub fn wrap360(x: f64) -> f64 {
    let mut x = x;
    if x < 0.0 {
        x += 360.0;
    }
    if x < 0.0 {
        x += 360.0;
    }
    if x >= 360.0 {
        x -= 360.0;
    }
    if x >= 360.0 {
        x -= 360.0;
    }
    x
}

/// The hue with raw angle `sample` (degrees) lies on the arc that runs in the direction of increasing angle from the hue
/// `low` to the hue `high` (raw degrees in [-360, 720], `low <= high`). Ends that are the same hue: the whole circle when
/// `low < high` (one or more full turns), the single point when `low == high`. A sample in [0, 1080) is reduced modulo 360
/// exactly (f64); any other sample through palette's own `into_positive_degrees`.
pub fn on_arc(low: f32, high: f32, sample: f32) -> bool {
    let a = wrap360(low as f64);
    let b = wrap360(high as f64);
    let span = wrap360(b - a);
    if span == 0.0 && low < high {
        return true;
    }
    let s = if sample >= 0.0 && sample < 1080.0 {
        sample as f64
    } else {
        palette::angle::UnsignedAngle::normalize_unsigned_angle(sample) as f64
    };
    let t = wrap360(s - a);
    t <= span + ARC_TOL || t >= 360.0 - ARC_TOL
}

/// The f32 normal form palette computes for the end `x` in [-360, 720] (`into_positive_degrees`: `x - floor(x / 360) * 360`)
/// is the exact `x mod 360`: every end in [0, 720] (the subtraction of 0 or 360 is exact) and the negative ends for which
/// `x + 360` is representable in f32 (-90, -0.5, -359.75, ...). Not: negative ends that are rounded when 360 is added
/// (e.g. -1e-9, whose f32 normal form is 360.0).
pub fn normalises_exactly(x: f32) -> bool {
    let n = palette::angle::UnsignedAngle::normalize_unsigned_angle(x);
    n as f64 == wrap360(x as f64)
}

/// Non-wrapping arcs, exact: for ends `0 <= low <= high < 360` (their own normal forms, no arithmetic involved) the hue with
/// raw angle `sample` lies in `[low, high]`. A sample in [0, 360) is its own normal form; any other sample is reduced through
/// palette's `into_positive_degrees`.
pub fn in_plain_arc(low: f32, high: f32, sample: f32) -> bool {
    let r = if sample >= 0.0 && sample < 360.0 {
        sample
    } else {
        palette::angle::UnsignedAngle::normalize_unsigned_angle(sample)
    };
    low <= r && r <= high
}
