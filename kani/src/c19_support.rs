//! C19 support: the environment RNG and the contract-level component type.
//!
//! `AnyRng` is the random number generator of every C19 harness: each word it hands out is a fresh `kani::any()`, so one
//! symbolic execution covers every RNG stream (every seed of every generator) at once.
use rand::RngCore;

/// Environment stub for the random number generator: every word is nondeterministic.
pub struct AnyRng;

impl RngCore for AnyRng {
    fn next_u32(&mut self) -> u32 {
        kani::any()
    }
    fn next_u64(&mut self) -> u64 {
        kani::any()
    }
    fn fill_bytes(&mut self, dest: &mut [u8]) {
        for b in dest.iter_mut() {
            *b = self.next_u64() as u8;
        }
    }
    fn try_fill_bytes(&mut self, dest: &mut [u8]) -> Result<(), rand::Error> {
        self.fill_bytes(dest);
        Ok(())
    }
}
