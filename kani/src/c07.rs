//! C07, bit-precise kernels (Engine K): conversions whose guards could be defeated by *rounding* although they hold in
//! real arithmetic (Engine S decides the real-arithmetic definedness). Domain as the property states it: every component
//! exactly on a bound or at least 1e-9 of the range away from it.
use palette::convert::FromColorUnclamped;
use palette::encoding::Srgb;
use palette::num::IsValidDivisor;
use palette::{Hsl, Hsv, Hwb, Srgb as SrgbColor, Xyz, Yxy};

fn unit(x: f32) -> bool {
    x == 0.0 || x == 1.0 || (x >= 1e-9 && x <= 1.0 - 1e-9)
}

/// RGB -> HSL (f32, scalar path): every component of the result is finite for every in-range RGB colour
/// @fn <Hsl<Srgb,f32> as FromColorUnclamped<Rgb<Srgb,f32>>>::from_color_unclamped
/// @bound all f32 components in {0, 1} or [1e-9, 1 - 1e-9]
#[kani::proof]
pub fn c07_rgb_to_hsl_f32_finite() {
    let (r, g, b): (f32, f32, f32) = (kani::any(), kani::any(), kani::any());
    kani::assume(unit(r) && unit(g) && unit(b));
    kani::cover!(true);
    let c = Hsl::<Srgb, f32>::from_color_unclamped(SrgbColor::new(r, g, b));
    assert!(c.hue.into_inner().is_finite() && c.saturation.is_finite() && c.lightness.is_finite());
}

/// RGB -> HSV (f32, scalar path): every component of the result is finite for every in-range RGB colour
/// @fn <Hsv<Srgb,f32> as FromColorUnclamped<Rgb<Srgb,f32>>>::from_color_unclamped
/// @bound all f32 components in {0, 1} or [1e-9, 1 - 1e-9]
#[kani::proof]
pub fn c07_rgb_to_hsv_f32_finite() {
    let (r, g, b): (f32, f32, f32) = (kani::any(), kani::any(), kani::any());
    kani::assume(unit(r) && unit(g) && unit(b));
    kani::cover!(true);
    let c = Hsv::<Srgb, f32>::from_color_unclamped(SrgbColor::new(r, g, b));
    assert!(c.hue.into_inner().is_finite() && c.saturation.is_finite() && c.value.is_finite());
}

/// HSV -> HSL and HSL -> HSV (f32): finite results for every in-range saturation / value / lightness
/// @fn <Hsl<Srgb,f32> as FromColorUnclamped<Hsv<Srgb,f32>>>::from_color_unclamped
/// @fn <Hsv<Srgb,f32> as FromColorUnclamped<Hsl<Srgb,f32>>>::from_color_unclamped
/// @bound all f32 components in {0, 1} or [1e-9, 1 - 1e-9]; hue fixed (passes through)
#[kani::proof]
pub fn c07_hsv_hsl_f32_finite() {
    let (a, b): (f32, f32) = (kani::any(), kani::any());
    kani::assume(unit(a) && unit(b));
    kani::cover!(true);
    let x = Hsl::<Srgb, f32>::from_color_unclamped(Hsv::<Srgb, f32>::new(30.0, a, b));
    assert!(x.saturation.is_finite() && x.lightness.is_finite());
    let y = Hsv::<Srgb, f32>::from_color_unclamped(Hsl::<Srgb, f32>::new(30.0, a, b));
    assert!(y.saturation.is_finite() && y.value.is_finite());
}

/// HWB -> HSV (f32): finite results for whiteness, blackness in range with whiteness + blackness <= 1
/// @fn <Hsv<Srgb,f32> as FromColorUnclamped<Hwb<Srgb,f32>>>::from_color_unclamped
/// @bound all f32 components in {0, 1} or [1e-9, 1 - 1e-9], w + b <= 1
#[kani::proof]
pub fn c07_hwb_to_hsv_f32_finite() {
    let (w, b): (f32, f32) = (kani::any(), kani::any());
    kani::assume(unit(w) && unit(b) && w + b <= 1.0);
    kani::cover!(true);
    let x = Hsv::<Srgb, f32>::from_color_unclamped(Hwb::<Srgb, f32>::new(30.0, w, b));
    assert!(x.saturation.is_finite() && x.value.is_finite());
}

/// XYZ -> xyY and xyY -> XYZ (f32): finite results (black and y = 0 included)
/// @fn <Yxy<D65,f32> as FromColorUnclamped<Xyz<D65,f32>>>::from_color_unclamped
/// @fn <Xyz<D65,f32> as FromColorUnclamped<Yxy<D65,f32>>>::from_color_unclamped
/// @bound all f32 components in {0, 1} or [1e-9, 1 - 1e-9]
#[kani::proof]
pub fn c07_xyz_yxy_f32_finite() {
    let (a, b, c): (f32, f32, f32) = (kani::any(), kani::any(), kani::any());
    kani::assume(unit(a) && unit(b) && unit(c));
    kani::cover!(true);
    let x = Yxy::<palette::white_point::D65, f32>::from_color_unclamped(Xyz::<palette::white_point::D65, f32>::new(a, b, c));
    assert!(x.x.is_finite() && x.y.is_finite() && x.luma.is_finite());
}

/// the validity test that guards divisions: a normal non-zero number is a valid divisor, zero / NaN / infinities are not
/// (palette's guarded divisions - unpremultiply, xyY, HSL ... - rely on exactly this split), f32 and f64
/// @fn <f32 as IsValidDivisor>::is_valid_divisor
/// @fn <f64 as IsValidDivisor>::is_valid_divisor
/// @bound all 2^32 f32 and all 2^64 f64 bit patterns
#[kani::proof]
pub fn c07_is_valid_divisor_is_normal() {
    let x: f32 = kani::any();
    let y: f64 = kani::any();
    kani::cover!(true);
    if x.is_normal() { assert!(x.is_valid_divisor()); }
    if x == 0.0 || x.is_nan() || x.is_infinite() { assert!(!x.is_valid_divisor()); }
    if y.is_normal() { assert!(y.is_valid_divisor()); }
    if y == 0.0 || y.is_nan() || y.is_infinite() { assert!(!y.is_valid_divisor()); }
}

/// xyY -> XYZ (f32): finite results (y = 0 included)
/// @fn <Xyz<D65,f32> as FromColorUnclamped<Yxy<D65,f32>>>::from_color_unclamped
/// @bound all f32 components in {0, 1} or [1e-9, 1 - 1e-9]
#[kani::proof]
pub fn c07_yxy_to_xyz_f32_finite() {
    let (a, b, c): (f32, f32, f32) = (kani::any(), kani::any(), kani::any());
    kani::assume(unit(a) && unit(b) && unit(c));
    kani::cover!(true);
    let x = Xyz::<palette::white_point::D65, f32>::from_color_unclamped(Yxy::<palette::white_point::D65, f32>::new(a, b, c));
    assert!(x.x.is_finite() && x.y.is_finite() && x.z.is_finite());
}

/// HSV -> HWB and HWB -> HSV -> HWB (f32): finite results
/// @fn <Hwb<Srgb,f32> as FromColorUnclamped<Hsv<Srgb,f32>>>::from_color_unclamped
/// @bound all f32 components in {0, 1} or [1e-9, 1 - 1e-9]
#[kani::proof]
pub fn c07_hsv_to_hwb_f32_finite() {
    let (s, v): (f32, f32) = (kani::any(), kani::any());
    kani::assume(unit(s) && unit(v));
    kani::cover!(true);
    let x = Hwb::<Srgb, f32>::from_color_unclamped(Hsv::<Srgb, f32>::new(30.0, s, v));
    assert!(x.whiteness.is_finite() && x.blackness.is_finite());
}

/// colour dodge (guarded division by 1 - source) and the unpremultiplied result are finite for every in-range source / destination colour and alpha, f32 (zero alpha and colour = 1 included)
/// @fn <Alpha<LinSrgb<f32>,f32> as Blend>::dodge
/// @fn Premultiply::premultiply, Premultiply::unpremultiply, blend::blend::dodge_blend
/// @bound all f32 components in {0, 1} or [1e-9, 1 - 1e-9]; the three colour channels carry the same value
#[kani::proof]
pub fn c07_blend_dodge_f32_finite() {
    use palette::blend::Blend;
    use palette::{Alpha, LinSrgb};
    let (s, sa, d, da): (f32, f32, f32, f32) = (kani::any(), kani::any(), kani::any(), kani::any());
    kani::assume(unit(s) && unit(sa) && unit(d) && unit(da));
    kani::cover!(true);
    let a = Alpha { color: LinSrgb::new(s, s, s), alpha: sa };
    let b = Alpha { color: LinSrgb::new(d, d, d), alpha: da };
    let r = a.dodge(b);
    assert!(r.color.red.is_finite() && r.alpha.is_finite());
}

/// colour burn (guarded division by the source) and the unpremultiplied result are finite for every in-range source / destination colour and alpha, f32 (zero alpha and colour = 0 included)
/// @fn <Alpha<LinSrgb<f32>,f32> as Blend>::burn
/// @fn Premultiply::premultiply, Premultiply::unpremultiply, blend::blend::burn_blend
/// @bound all f32 components in {0, 1} or [1e-9, 1 - 1e-9]; the three colour channels carry the same value
#[kani::proof]
pub fn c07_blend_burn_f32_finite() {
    use palette::blend::Blend;
    use palette::{Alpha, LinSrgb};
    let (s, sa, d, da): (f32, f32, f32, f32) = (kani::any(), kani::any(), kani::any(), kani::any());
    kani::assume(unit(s) && unit(sa) && unit(d) && unit(da));
    kani::cover!(true);
    let a = Alpha { color: LinSrgb::new(s, s, s), alpha: sa };
    let b = Alpha { color: LinSrgb::new(d, d, d), alpha: da };
    let r = a.burn(b);
    assert!(r.color.red.is_finite() && r.alpha.is_finite());
}

/// overlay (multiply or screen by the destination) and the unpremultiplied result are finite for every in-range source / destination colour and alpha, f32 (zero alpha included)
/// @fn <Alpha<LinSrgb<f32>,f32> as Blend>::overlay
/// @fn Premultiply::premultiply, Premultiply::unpremultiply
/// @bound all f32 components in {0, 1} or [1e-9, 1 - 1e-9]; the three colour channels carry the same value
#[kani::proof]
pub fn c07_blend_overlay_f32_finite() {
    use palette::blend::Blend;
    use palette::{Alpha, LinSrgb};
    let (s, sa, d, da): (f32, f32, f32, f32) = (kani::any(), kani::any(), kani::any(), kani::any());
    kani::assume(unit(s) && unit(sa) && unit(d) && unit(da));
    kani::cover!(true);
    let a = Alpha { color: LinSrgb::new(s, s, s), alpha: sa };
    let b = Alpha { color: LinSrgb::new(d, d, d), alpha: da };
    let r = a.overlay(b);
    assert!(r.color.red.is_finite() && r.alpha.is_finite());
}

/// hard light and the unpremultiplied result are finite for every in-range source / destination colour and alpha, f32 (zero alpha included)
/// @fn <Alpha<LinSrgb<f32>,f32> as Blend>::hard_light
/// @fn Premultiply::premultiply, Premultiply::unpremultiply
/// @bound all f32 components in {0, 1} or [1e-9, 1 - 1e-9]; the three colour channels carry the same value
#[kani::proof]
pub fn c07_blend_hard_light_f32_finite() {
    use palette::blend::Blend;
    use palette::{Alpha, LinSrgb};
    let (s, sa, d, da): (f32, f32, f32, f32) = (kani::any(), kani::any(), kani::any(), kani::any());
    kani::assume(unit(s) && unit(sa) && unit(d) && unit(da));
    kani::cover!(true);
    let a = Alpha { color: LinSrgb::new(s, s, s), alpha: sa };
    let b = Alpha { color: LinSrgb::new(d, d, d), alpha: da };
    let r = a.hard_light(b);
    assert!(r.color.red.is_finite() && r.alpha.is_finite());
}

/// soft light (square root branch included) and the unpremultiplied result are finite for every in-range source / destination colour and alpha, f32 (zero alpha included)
/// @fn <Alpha<LinSrgb<f32>,f32> as Blend>::soft_light
/// @fn Premultiply::premultiply, Premultiply::unpremultiply
/// @bound all f32 components in {0, 1} or [1e-9, 1 - 1e-9]; the three colour channels carry the same value
/// @thorough
#[kani::proof]
pub fn c07_blend_soft_light_f32_finite() {
    use palette::blend::Blend;
    use palette::{Alpha, LinSrgb};
    let (s, sa, d, da): (f32, f32, f32, f32) = (kani::any(), kani::any(), kani::any(), kani::any());
    kani::assume(unit(s) && unit(sa) && unit(d) && unit(da));
    kani::cover!(true);
    let a = Alpha { color: LinSrgb::new(s, s, s), alpha: sa };
    let b = Alpha { color: LinSrgb::new(d, d, d), alpha: da };
    let r = a.soft_light(b);
    assert!(r.color.red.is_finite() && r.alpha.is_finite());
}

/// exclusion and the unpremultiplied result are finite for every in-range source / destination colour and alpha, f32 (zero alpha included)
/// @fn <Alpha<LinSrgb<f32>,f32> as Blend>::exclusion
/// @fn Premultiply::premultiply, Premultiply::unpremultiply
/// @bound all f32 components in {0, 1} or [1e-9, 1 - 1e-9]; the three colour channels carry the same value
#[kani::proof]
pub fn c07_blend_exclusion_f32_finite() {
    use palette::blend::Blend;
    use palette::{Alpha, LinSrgb};
    let (s, sa, d, da): (f32, f32, f32, f32) = (kani::any(), kani::any(), kani::any(), kani::any());
    kani::assume(unit(s) && unit(sa) && unit(d) && unit(da));
    kani::cover!(true);
    let a = Alpha { color: LinSrgb::new(s, s, s), alpha: sa };
    let b = Alpha { color: LinSrgb::new(d, d, d), alpha: da };
    let r = a.exclusion(b);
    assert!(r.color.red.is_finite() && r.alpha.is_finite());
}


use crate::c07_support::N32;
use palette::color_difference::{DeltaE, ImprovedDeltaE};
use palette::white_point::D65;
use palette::{Lab, Lch};

fn within(x: f32, lo: f32, hi: f32) -> bool {
    let eps = (hi - lo) * 1e-9;
    x == lo || x == hi || x == 0.0 || (x >= lo + eps && x <= hi - eps)
}

/// Delta E and improved Delta E of two Lch colours (f32 arithmetic bit-precise; sin / cos of the hue are arbitrary values
/// in [-1, 1], see c07_support): never NaN or infinite for in-range lightness / chroma and any hue in [-360, 360] - in
/// particular the radicand cannot be driven negative by cancellation between nearly equal colours
/// @fn <Lch<Wp,T> as DeltaE>::delta_e
/// @fn <Lch<Wp,T> as ImprovedDeltaE>::improved_delta_e
/// @fn <Lab<Wp,T> as FromColorUnclamped<Lch<Wp,T>>>::from_color_unclamped
/// @fn <Lab<Wp,T> as EuclideanDistance>::distance_squared
/// @bound all f32 lightness in [0,100], chroma in [0,200], hue in [-360,360], each on a bound, zero or 1e-9 of the range inside; transcendental functions nondeterministic within their contracts
#[kani::proof]
pub fn c07_lch_delta_e_f32_finite() {
    let (l1, c1, h1, l2, c2, h2): (f32, f32, f32, f32, f32, f32) = (kani::any(), kani::any(), kani::any(), kani::any(), kani::any(), kani::any());
    kani::assume(within(l1, 0.0, 100.0) && within(l2, 0.0, 100.0) && within(c1, 0.0, 200.0) && within(c2, 0.0, 200.0));
    kani::assume(within(h1, -360.0, 360.0) && within(h2, -360.0, 360.0));
    kani::cover!(true);
    let a = Lch::<D65, N32>::new(N32(l1), N32(c1), N32(h1));
    let b = Lch::<D65, N32>::new(N32(l2), N32(c2), N32(h2));
    let d = a.delta_e(b);
    assert!(d.0.is_finite(), "Lch delta E is NaN or infinite");
    let e = a.improved_delta_e(b);
    assert!(e.0.is_finite(), "Lch improved delta E is NaN or infinite");
}

/// Delta E of two Lch colours with the SAME hue and lightness (sin / cos of a zero hue difference are exact: 0 and 1):
/// never NaN - the case in which a polar closed form cancels catastrophically
/// @fn <Lch<Wp,T> as DeltaE>::delta_e
/// @fn <Lch<Wp,T> as ImprovedDeltaE>::improved_delta_e
/// @bound all f32 chroma pairs in [0,200], one lightness and one hue (symbolic, shared by both colours)
#[kani::proof]
pub fn c07_lch_delta_e_same_hue_f32_finite() {
    let (l, c1, c2, h): (f32, f32, f32, f32) = (kani::any(), kani::any(), kani::any(), kani::any());
    kani::assume(within(l, 0.0, 100.0) && within(c1, 0.0, 200.0) && within(c2, 0.0, 200.0) && within(h, -360.0, 360.0));
    kani::cover!(true);
    let a = Lch::<D65, N32>::new(N32(l), N32(c1), N32(h));
    let b = Lch::<D65, N32>::new(N32(l), N32(c2), N32(h));
    let d = a.delta_e(b);
    assert!(d.0.is_finite(), "Lch delta E is NaN or infinite");
    let e = a.improved_delta_e(b);
    assert!(e.0.is_finite(), "Lch improved delta E is NaN or infinite");
}

/// Delta E / improved Delta E of two Lab colours (f32): never NaN or infinite in range
/// @fn <Lab<Wp,T> as DeltaE>::delta_e
/// @fn <Lab<Wp,T> as ImprovedDeltaE>::improved_delta_e
/// @bound all f32 L in [0,100], a, b in [-128,127]
#[kani::proof]
pub fn c07_lab_delta_e_f32_finite() {
    let (l1, a1, b1, l2, a2, b2): (f32, f32, f32, f32, f32, f32) = (kani::any(), kani::any(), kani::any(), kani::any(), kani::any(), kani::any());
    kani::assume(within(l1, 0.0, 100.0) && within(l2, 0.0, 100.0) && within(a1, -128.0, 127.0) && within(a2, -128.0, 127.0) && within(b1, -128.0, 127.0) && within(b2, -128.0, 127.0));
    kani::cover!(true);
    let x = Lab::<D65, N32>::new(N32(l1), N32(a1), N32(b1));
    let y = Lab::<D65, N32>::new(N32(l2), N32(a2), N32(b2));
    assert!(x.delta_e(y).0.is_finite(), "Lab delta E is NaN or infinite");
    assert!(x.improved_delta_e(y).0.is_finite(), "Lab improved delta E is NaN or infinite");
}

use palette::{Lchuv, Luv, Oklab, Oklch};

fn fin3(a: N32, b: N32, c: N32) -> bool {
    a.0.is_finite() && b.0.is_finite() && c.0.is_finite()
}

/// XYZ -> Lab and Lab -> XYZ (f32 arithmetic bit-precise, cube root an arbitrary value of the right sign and magnitude
/// class): finite for every in-range colour, on both sides of the CIE epsilon knee
/// @fn <Lab<Wp,T> as FromColorUnclamped<Xyz<Wp,T>>>::from_color_unclamped
/// @fn <Xyz<Wp,T> as FromColorUnclamped<Lab<Wp,T>>>::from_color_unclamped
/// @bound all f32 X in [0,0.95047], Y in [0,1], Z in [0,1.08883]; L in [0,100], a, b in [-128,127]; each on a bound, zero or 1e-9 of the range inside
#[kani::proof]
pub fn c07_xyz_lab_f32_finite() {
    let (x, y, z): (f32, f32, f32) = (kani::any(), kani::any(), kani::any());
    kani::assume(within(x, 0.0, 0.95047) && within(y, 0.0, 1.0) && within(z, 0.0, 1.08883));
    kani::cover!(true);
    let lab = Lab::<D65, N32>::from_color_unclamped(Xyz::<D65, N32>::new(N32(x), N32(y), N32(z)));
    assert!(fin3(lab.l, lab.a, lab.b), "XYZ -> Lab is NaN or infinite");
    let (l, a, b): (f32, f32, f32) = (kani::any(), kani::any(), kani::any());
    kani::assume(within(l, 0.0, 100.0) && within(a, -128.0, 127.0) && within(b, -128.0, 127.0));
    let xyz = Xyz::<D65, N32>::from_color_unclamped(Lab::<D65, N32>::new(N32(l), N32(a), N32(b)));
    assert!(fin3(xyz.x, xyz.y, xyz.z), "Lab -> XYZ is NaN or infinite");
}

/// Lab <-> Lch and Luv <-> Lchuv and Oklab <-> Oklch (polar forms; hypot exact, atan2 / sin / cos arbitrary values in
/// range): finite for every in-range colour incl. zero chroma
/// @fn <Lch<Wp,T> as FromColorUnclamped<Lab<Wp,T>>>::from_color_unclamped
/// @fn <Lab<Wp,T> as FromColorUnclamped<Lch<Wp,T>>>::from_color_unclamped
/// @fn <Lchuv<Wp,T> as FromColorUnclamped<Luv<Wp,T>>>::from_color_unclamped
/// @fn <Oklch<T> as FromColorUnclamped<Oklab<T>>>::from_color_unclamped
/// @fn <Oklab<T> as FromColorUnclamped<Oklch<T>>>::from_color_unclamped
/// @bound all f32 components in the documented ranges (L 0..100, a/b -128..127, u -84..176, v -135..108, Oklab a/b -2..2, chroma 0..200, hue -360..360)
#[kani::proof]
pub fn c07_polar_forms_f32_finite() {
    let (l, a, b): (f32, f32, f32) = (kani::any(), kani::any(), kani::any());
    kani::assume(within(l, 0.0, 100.0) && within(a, -128.0, 127.0) && within(b, -128.0, 127.0));
    kani::cover!(true);
    let c = Lch::<D65, N32>::from_color_unclamped(Lab::<D65, N32>::new(N32(l), N32(a), N32(b)));
    assert!(fin3(c.l, c.chroma, c.hue.into_inner()), "Lab -> Lch is NaN or infinite");
    let (u, v): (f32, f32) = (kani::any(), kani::any());
    kani::assume(within(u, -84.0, 176.0) && within(v, -135.0, 108.0));
    let c = Lchuv::<D65, N32>::from_color_unclamped(Luv::<D65, N32>::new(N32(l), N32(u), N32(v)));
    assert!(fin3(c.l, c.chroma, c.hue.into_inner()), "Luv -> Lchuv is NaN or infinite");
    let (ol, oa, ob): (f32, f32, f32) = (kani::any(), kani::any(), kani::any());
    kani::assume(within(ol, 0.0, 1.0) && within(oa, -2.0, 2.0) && within(ob, -2.0, 2.0));
    let c = Oklch::<N32>::from_color_unclamped(Oklab::<N32>::new(N32(ol), N32(oa), N32(ob)));
    assert!(fin3(c.l, c.chroma, c.hue.into_inner()), "Oklab -> Oklch is NaN or infinite");
    let (ch, h): (f32, f32) = (kani::any(), kani::any());
    kani::assume(within(ch, 0.0, 200.0) && within(h, -360.0, 360.0));
    let c = Lab::<D65, N32>::from_color_unclamped(Lch::<D65, N32>::new(N32(l), N32(ch), N32(h)));
    assert!(fin3(c.l, c.a, c.b), "Lch -> Lab is NaN or infinite");
    let c = Oklab::<N32>::from_color_unclamped(Oklch::<N32>::new(N32(ol), N32(ch), N32(h)));
    assert!(fin3(c.l, c.a, c.b), "Oklch -> Oklab is NaN or infinite");
}

/// XYZ -> Luv (f32): finite for every in-range XYZ colour incl. black (the u', v' denominators are guarded)
/// @fn <Luv<Wp,T> as FromColorUnclamped<Xyz<Wp,T>>>::from_color_unclamped
/// @bound all f32 X in [0,0.95047], Y in [0,1], Z in [0,1.08883], each on a bound, zero or 1e-9 of the range inside
#[kani::proof]
pub fn c07_xyz_to_luv_f32_finite() {
    let (x, y, z): (f32, f32, f32) = (kani::any(), kani::any(), kani::any());
    kani::assume(within(x, 0.0, 0.95047) && within(y, 0.0, 1.0) && within(z, 0.0, 1.08883));
    kani::cover!(true);
    let c = Luv::<D65, N32>::from_color_unclamped(Xyz::<D65, N32>::new(N32(x), N32(y), N32(z)));
    assert!(fin3(c.l, c.u, c.v), "XYZ -> Luv is NaN or infinite");
}

/// linear sRGB -> Oklab and back (f32 matrices bit-precise, cube root an arbitrary value of the right sign): finite
/// @fn <Oklab<T> as FromColorUnclamped<Rgb<Linear<Srgb>,T>>>::from_color_unclamped
/// @fn <Rgb<Linear<Srgb>,T> as FromColorUnclamped<Oklab<T>>>::from_color_unclamped
/// @bound all f32 RGB in [0,1]^3; Oklab L in [0,1], a, b in [-2,2]
#[kani::proof]
pub fn c07_linear_srgb_oklab_f32_finite() {
    let (r, g, b): (f32, f32, f32) = (kani::any(), kani::any(), kani::any());
    kani::assume(unit(r) && unit(g) && unit(b));
    kani::cover!(true);
    let c = Oklab::<N32>::from_color_unclamped(palette::LinSrgb::<N32>::new(N32(r), N32(g), N32(b)));
    assert!(fin3(c.l, c.a, c.b), "linear sRGB -> Oklab is NaN or infinite");
    let (ol, oa, ob): (f32, f32, f32) = (kani::any(), kani::any(), kani::any());
    kani::assume(within(ol, 0.0, 1.0) && within(oa, -2.0, 2.0) && within(ob, -2.0, 2.0));
    let c = palette::LinSrgb::<N32>::from_color_unclamped(Oklab::<N32>::new(N32(ol), N32(oa), N32(ob)));
    assert!(fin3(c.red, c.green, c.blue), "Oklab -> linear sRGB is NaN or infinite");
}

// Attempted and not decided: CIEDE2000 over N32 with all six Lab components symbolic (dozens of symbolic f32 multiplications and
// divisions) did not finish in 900 s; the harness is not registered. Its real-arithmetic definedness is an Open Engine-S obligation.
