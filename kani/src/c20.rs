use crate::c20_support::*;
use palette::{Hsva, Srgb, Srgba};
use serde::{Deserialize, Serialize};

/// probe
/// @bound probe
#[kani::proof]
#[kani::unwind(13)]
pub fn c20_probe_hsva_named() {
    let h: u32 = kani::any();
    let s: u32 = kani::any();
    let v: u32 = kani::any();
    let a: u32 = kani::any();
    kani::cover!(true);
    let c: Hsva<palette::encoding::Srgb, f32> = Hsva::new(f32::from_bits(h), f32::from_bits(s), f32::from_bits(v), f32::from_bits(a));
    let (rec, ok) = record(Fmt::Named, &c);
    assert!(ok.is_ok());
    assert!(rec.is(&[
        Tok::Struct("Hsv", 4),
        Tok::Field("hue"),
        Tok::F32(h),
        Tok::Field("saturation"),
        Tok::F32(s),
        Tok::Field("value"),
        Tok::F32(v),
        Tok::Field("alpha"),
        Tok::F32(a),
        Tok::End
    ]));
    let d: Result<Hsva<palette::encoding::Srgb, f32>, E> = replay(&rec);
    match d {
        Ok(d) => {
            assert!(d.color.hue.into_inner().to_bits() == h);
            assert!(d.color.saturation.to_bits() == s);
            assert!(d.color.value.to_bits() == v);
            assert!(d.alpha.to_bits() == a);
        }
        Err(_) => { assert!(false); }
    }
}

/// probe A
/// @bound probe
#[kani::proof]
#[kani::unwind(13)]
pub fn c20_probe_a_ser_only() {
    let h: u32 = kani::any();
    let s: u32 = kani::any();
    let v: u32 = kani::any();
    let a: u32 = kani::any();
    kani::cover!(true);
    let c: Hsva<palette::encoding::Srgb, f32> = Hsva::new(f32::from_bits(h), f32::from_bits(s), f32::from_bits(v), f32::from_bits(a));
    let (rec, ok) = record(Fmt::Named, &c);
    assert!(ok.is_ok());
    assert!(rec.is(&[
        Tok::Struct("Hsv", 4), Tok::Field("hue"), Tok::F32(h), Tok::Field("saturation"), Tok::F32(s), Tok::Field("value"), Tok::F32(v),
        Tok::Field("alpha"), Tok::F32(a), Tok::End
    ]));
}

/// probe B
/// @bound probe
#[kani::proof]
#[kani::unwind(13)]
pub fn c20_probe_b_de_only() {
    let h: u32 = kani::any();
    let s: u32 = kani::any();
    let v: u32 = kani::any();
    let a: u32 = kani::any();
    kani::cover!(true);
    let rec = Rec::of(Fmt::Named, &[
        Tok::Struct("Hsv", 4), Tok::Field("hue"), Tok::F32(h), Tok::Field("saturation"), Tok::F32(s), Tok::Field("value"), Tok::F32(v),
        Tok::Field("alpha"), Tok::F32(a), Tok::End
    ]);
    let d: Result<Hsva<palette::encoding::Srgb, f32>, E> = replay(&rec);
    match d {
        Ok(d) => {
            assert!(d.color.hue.into_inner().to_bits() == h);
            assert!(d.color.saturation.to_bits() == s);
            assert!(d.color.value.to_bits() == v);
            assert!(d.alpha.to_bits() == a);
        }
        Err(_) => { assert!(false); }
    }
}

/// probe D
/// @bound probe
#[kani::proof]
#[kani::unwind(13)]
pub fn c20_probe_d_rgba_u8() {
    let r: u8 = kani::any();
    let g: u8 = kani::any();
    let b: u8 = kani::any();
    let a: u8 = kani::any();
    kani::cover!(true);
    let c: Srgba<u8> = Srgba::new(r, g, b, a);
    let (rec, ok) = record(Fmt::Named, &c);
    assert!(ok.is_ok());
    let d: Result<Srgba<u8>, E> = replay(&rec);
    match d {
        Ok(d) => {
            assert!(d.color.red == r && d.color.green == g && d.color.blue == b && d.alpha == a);
        }
        Err(_) => { assert!(false); }
    }
}

/// probe E
/// @bound probe
#[kani::proof]
#[kani::unwind(13)]
pub fn c20_probe_e_listed() {
    let h: u32 = kani::any();
    let s: u32 = kani::any();
    let v: u32 = kani::any();
    let a: u32 = kani::any();
    kani::cover!(true);
    let c: Hsva<palette::encoding::Srgb, f32> = Hsva::new(f32::from_bits(h), f32::from_bits(s), f32::from_bits(v), f32::from_bits(a));
    let (rec, ok) = record(Fmt::Listed, &c);
    assert!(ok.is_ok());
    let d: Result<Hsva<palette::encoding::Srgb, f32>, E> = replay(&rec);
    match d {
        Ok(d) => {
            assert!(d.color.hue.into_inner().to_bits() == h);
            assert!(d.color.saturation.to_bits() == s);
            assert!(d.color.value.to_bits() == v);
            assert!(d.alpha.to_bits() == a);
        }
        Err(_) => { assert!(false); }
    }
}

/// probe F
/// @bound probe
#[kani::proof]
#[kani::unwind(13)]
pub fn c20_probe_f_packed() {
    let h: u32 = kani::any();
    let s: u32 = kani::any();
    let v: u32 = kani::any();
    let a: u32 = kani::any();
    kani::cover!(true);
    let c: Hsva<palette::encoding::Srgb, f32> = Hsva::new(f32::from_bits(h), f32::from_bits(s), f32::from_bits(v), f32::from_bits(a));
    let (rec, ok) = record(Fmt::Packed, &c);
    assert!(ok.is_ok());
    let d: Result<Hsva<palette::encoding::Srgb, f32>, E> = replay(&rec);
    match d {
        Ok(d) => {
            assert!(d.color.hue.into_inner().to_bits() == h);
            assert!(d.color.saturation.to_bits() == s);
            assert!(d.color.value.to_bits() == v);
            assert!(d.alpha.to_bits() == a);
        }
        Err(_) => { assert!(false); }
    }
}
