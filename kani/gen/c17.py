"""C17, Engine K half: palette's glue for the `wide` SIMD types (num/wide.rs, bool_mask/wide.rs, angle/wide.rs, macros/simd.rs)
acts lane by lane like the scalar operations. Every lane input is symbolic, the SIMD result is compared lane by lane with the
scalar function applied to that lane's input (bit for bit unless a tolerance is stated)."""
from common import Out

TYPES = {  # simd type -> (scalar, lanes, uint for mask bits)
    "f32x4": ("f32", 4, "u32"),
    "f64x2": ("f64", 2, "u64"),
    "f32x8": ("f32", 8, "u32"),
    "f64x4": ("f64", 4, "u64"),
}
HDR = """use palette::angle::{AngleEq, SignedAngle, UnsignedAngle};
use palette::bool_mask::{BoolMask, LazySelect, Select};
use palette::num::{Abs, Clamp, ClampAssign, IsValidDivisor, MinMax, PartialCmp, Round, Signum};
use palette::convert::FromColorUnclamped;
use palette::{Clamp as ColorClamp, IsWithinBounds};
use wide::{f32x4, f32x8, f64x2, f64x4};

fn on32(b: bool) -> u32 { if b { u32::MAX } else { 0 } }
fn on64(b: bool) -> u64 { if b { u64::MAX } else { 0 } }
"""


def sym(V, S, N, name, cond=None):
    c = cond or "!{x}.is_nan()"
    s = f"let {name}_a: [{S}; {N}] = kani::any();\n"
    s += f"let mut k = 0;\nwhile k < {N} {{ kani::assume({c.format(x=f'{name}_a[k]')}); k += 1; }}\n"
    s += f"let {name} = {V}::from({name}_a);\n"
    return s


STUBS = [f"#[kani::stub(core::arch::x86_64::_mm_{n}, crate::c17_support::{n})]" for n in
         ("cmpeq_ps cmpneq_ps cmplt_ps cmple_ps cmpgt_ps cmpge_ps cmpunord_ps cmpord_ps max_ps min_ps "
          "cmpeq_pd cmpneq_pd cmplt_pd cmple_pd cmpgt_pd cmpge_pd cmpunord_pd cmpord_pd max_pd min_pd "
          "add_ps sub_ps mul_ps div_ps add_pd sub_pd mul_pd div_pd").split()]


class Out17(Out):
    def harness(self, name, doc, body, *a, **k):
        k["attrs"] = STUBS
        # reachability witness at the END of the harness: the whole body is executable (nothing on the way assumed every input away)
        body = body.rstrip() + "\nkani::cover!(true);\n"
        super().harness(name, doc, body, *a, **k)


def gen():
    o = Out17("c17_gen.rs", HDR)
    for V, (S, N, U) in TYPES.items():
        th = V in ("f32x8", "f64x4")
        on = "on32" if S == "f32" else "on64"
        un = N + 2
        # comparisons
        o.harness(f"c17_{V}_partial_cmp_lanes",
                  f"{V}: lt / lt_eq / eq / neq / gt_eq / gt give, in every lane, the all-ones mask exactly when the scalar comparison of that lane's "
                  f"two inputs is true and the zero mask otherwise, for every pair of non-NaN {S} vectors",
                  sym(V, S, N, "x") + sym(V, S, N, "y") + f"""
                  kani::cover!(true);
                  let (lt, le, eq, ne, ge, gt) = (PartialCmp::lt(&x, &y).to_array(), x.lt_eq(&y).to_array(), PartialCmp::eq(&x, &y).to_array(), x.neq(&y).to_array(), x.gt_eq(&y).to_array(), PartialCmp::gt(&x, &y).to_array());
                  let mut k = 0;
                  while k < {N} {{
                      let (a, b) = (x_a[k], y_a[k]);
                      assert!(lt[k].to_bits() == {on}(a < b) && le[k].to_bits() == {on}(a <= b) && eq[k].to_bits() == {on}(a == b));
                      assert!(ne[k].to_bits() == {on}(a != b) && ge[k].to_bits() == {on}(a >= b) && gt[k].to_bits() == {on}(a > b));
                      k += 1;
                  }}
                  """, [f"<{V} as PartialCmp>::{{lt,lt_eq,eq,neq,gt_eq,gt}} (num/wide.rs)"], f"all non-NaN {S} in all {N} lanes", thorough=th, unwind=un)
        # masks
        o.harness(f"c17_{V}_mask_select_lanes",
                  f"{V} masks: select / lazy_select pick, in every lane, a where the lane's mask is set and b otherwise (bit for bit), for the mask of an "
                  f"arbitrary comparison; from_bool(true/false) is the all-set / all-clear mask; is_true holds exactly when every lane is set and "
                  f"is_false exactly when no lane is set",
                  sym(V, S, N, "x") + sym(V, S, N, "y") + sym(V, S, N, "a") + sym(V, S, N, "b") + f"""
                  kani::cover!(true);
                  let m = PartialCmp::lt(&x, &y);
                  let (s, l) = (m.select(a, b).to_array(), m.lazy_select(|| a, || b).to_array());
                  let (mut all, mut none) = (true, true);
                  let mut k = 0;
                  while k < {N} {{
                      let set = x_a[k] < y_a[k];
                      let want = if set {{ a_a[k] }} else {{ b_a[k] }};
                      assert!(s[k].to_bits() == want.to_bits() && l[k].to_bits() == want.to_bits());
                      all &= set;
                      none &= !set;
                      k += 1;
                  }}
                  assert!(m.is_true() == all && m.is_false() == none);
                  let (t, f) = (<{V} as BoolMask>::from_bool(true), <{V} as BoolMask>::from_bool(false));
                  assert!(t.is_true() && !t.is_false() && f.is_false() && !f.is_true());
                  let (ts, fs) = (t.select(a, b).to_array(), f.select(a, b).to_array());
                  let mut k = 0;
                  while k < {N} {{ assert!(ts[k].to_bits() == a_a[k].to_bits() && fs[k].to_bits() == b_a[k].to_bits()); k += 1; }}
                  """, [f"<{V} as BoolMask>::{{from_bool,is_true,is_false}}", f"<{V} as Select<{V}>>::select", f"<{V} as LazySelect<{V}>>::lazy_select (bool_mask/wide.rs)"],
                  f"all non-NaN {S} in all {N} lanes of four vectors (lanes may take different branches)", thorough=th, unwind=un)
        # min / max / clamp / abs
        o.harness(f"c17_{V}_minmax_clamp_abs_lanes",
                  f"{V}: max, min, min_max, clamp (for min <= max), clamp_min, clamp_max, their assigning forms and abs equal the scalar functions "
                  f"of palette's num traits lane by lane (numerically; -0.0 and 0.0 are the same number)",
                  sym(V, S, N, "x") + sym(V, S, N, "lo") + sym(V, S, N, "hi") + f"""
                  kani::cover!(true);
                  let (mx, mn) = (MinMax::max(x, lo).to_array(), MinMax::min(x, lo).to_array());
                  let (p, q) = x.min_max(lo);
                  let (p, q) = (p.to_array(), q.to_array());
                  let ab = Abs::abs(x).to_array();
                  let (cmin, cmax) = (x.clamp_min(lo).to_array(), x.clamp_max(hi).to_array());
                  let mut y = x; y.clamp_min_assign(lo); let y1 = y.to_array();
                  let mut y = x; y.clamp_max_assign(hi); let y2 = y.to_array();
                  let mut k = 0;
                  while k < {N} {{
                      let (a, b, c) = (x_a[k], lo_a[k], hi_a[k]);
                      assert!(mx[k] == MinMax::max(a, b) && mn[k] == MinMax::min(a, b) && p[k] == mn[k] && q[k] == mx[k]);
                      assert!(ab[k] == Abs::abs(a));
                      assert!(cmin[k] == a.clamp_min(b) && cmax[k] == a.clamp_max(c) && y1[k] == cmin[k] && y2[k] == cmax[k]);
                      k += 1;
                  }}
                  let mut k = 0;
                  while k < {N} {{ kani::assume(lo_a[k] <= hi_a[k]); k += 1; }}
                  let cl = Clamp::clamp(x, lo, hi).to_array();
                  let mut y = x; y.clamp_assign(lo, hi); let y3 = y.to_array();
                  let mut k = 0;
                  while k < {N} {{ assert!(cl[k] == Clamp::clamp(x_a[k], lo_a[k], hi_a[k]) && y3[k] == cl[k]); k += 1; }}
                  """, [f"<{V} as MinMax>", f"<{V} as Clamp>", f"<{V} as ClampAssign>", f"<{V} as Abs> (num/wide.rs)"],
                  f"all non-NaN {S} in all {N} lanes", thorough=th, unwind=un)
        # rounding
        o.harness(f"c17_{V}_floor_ceil_lanes",
                  f"{V}: floor and ceil equal the scalar floor / ceil lane by lane for every finite {S}",
                  sym(V, S, N, "x", "{x}.is_finite()") + f"""
                  kani::cover!(true);
                  let (f, c) = (Round::floor(x).to_array(), Round::ceil(x).to_array());
                  let mut k = 0;
                  while k < {N} {{ assert!(f[k] == x_a[k].floor() && c[k] == x_a[k].ceil()); k += 1; }}
                  """, [f"<{V} as Round>::{{floor,ceil}} (num/wide.rs)"], f"all finite {S} in all {N} lanes", thorough=th, unwind=un)
        o.harness(f"c17_{V}_is_valid_divisor_lanes",
                  f"{V}: is_valid_divisor marks, in every lane, exactly the inputs the scalar is_valid_divisor accepts, for every lane input that is zero "
                  f"or a normal number",
                  sym(V, S, N, "x", "({x} == 0.0 || {x}.is_normal())") + f"""
                  kani::cover!(true);
                  let m = x.is_valid_divisor().to_array();
                  let mut k = 0;
                  while k < {N} {{ assert!(m[k].to_bits() == {on}(x_a[k].is_valid_divisor())); k += 1; }}
                  """, [f"<{V} as IsValidDivisor>::is_valid_divisor (num/wide.rs)"], f"zero and all normal {S} in all {N} lanes", thorough=th, unwind=un)
        o.harness(f"c17_{V}_is_valid_divisor_subnormal_lanes",
                  f"{V}: is_valid_divisor agrees with the scalar is_valid_divisor also for subnormal, infinite and NaN lane inputs",
                  sym(V, S, N, "x", "true") + f"""
                  kani::cover!(true);
                  let m = x.is_valid_divisor().to_array();
                  let mut k = 0;
                  while k < {N} {{ assert!(m[k].to_bits() == {on}(x_a[k].is_valid_divisor())); k += 1; }}
                  """, [f"<{V} as IsValidDivisor>::is_valid_divisor (num/wide.rs)"], f"all {S} bit patterns in all {N} lanes", thorough=th, unwind=un)
        o.harness(f"c17_{V}_signum_lanes",
                  f"{V}: signum equals the scalar signum lane by lane (NaN stays NaN)",
                  f"let x_a: [{S}; {N}] = kani::any();\nlet x = {V}::from(x_a);\n" + f"""
                  kani::cover!(true);
                  let s = Signum::signum(x).to_array();
                  let mut k = 0;
                  while k < {N} {{
                      let want = Signum::signum(x_a[k]);
                      assert!((want.is_nan() && s[k].is_nan()) || s[k] == want);
                      k += 1;
                  }}
                  """, [f"<{V} as Signum>::signum (num/wide.rs)"], f"all {S} bit patterns in all {N} lanes", thorough=th, unwind=un)
        # angles
        lim = "1048576.0"
        for kind, call, sc in (("signed", "normalize_signed_angle()", "normalize_signed_angle()"), ("unsigned", "normalize_unsigned_angle()", "normalize_unsigned_angle()")):
            o.harness(f"c17_{V}_angle_normalize_{kind}",
                      f"{V}: normalize_{kind}_angle equals the scalar normal form, bit for bit, in the last lane for ANY angle held there (half turns "
                      f"180 + 360k, whole turns and negative angles included); the other lanes hold fixed angles on other branches and are checked too",
                      f"""
                      let x: {S} = kani::any();
                      kani::assume(x.abs() <= {lim});
                      kani::cover!(true);
                      let mut xa = [-190.0 as {S}; {N}];
                      xa[0] = 725.5;
                      xa[{N} - 1] = x;
                      let s = {V}::from(xa).{call}.to_array();
                      let mut k = 0;
                      while k < {N} {{ assert!(s[k] == xa[k].{sc}); k += 1; }}
                      """, [f"<{V} as SignedAngle>::normalize_signed_angle" if kind == "signed" else f"<{V} as UnsignedAngle>::normalize_unsigned_angle (angle/wide.rs)"],
                      f"last lane: any {S} with |x| <= 2^20; other lanes fixed", thorough=th or V == "f64x2", unwind=un)
        if V != "f64x4":   # the f64x4 instance did not finish within 1500 s (four 53-bit dividers)
          o.harness(f"c17_{V}_angle_eq_lanes",
                    f"{V}: angle_eq marks the last lane exactly when the scalar angles held there are equal (any two angles), other lanes fixed",
                    f"""
                    let x: {S} = kani::any();
                    let y: {S} = kani::any();
                    kani::assume(x.abs() <= {lim} && y.abs() <= {lim});
                    kani::cover!(true);
                    let mut xa = [-190.0 as {S}; {N}];
                    let mut ya = [530.0 as {S}; {N}];
                    xa[{N} - 1] = x;
                    ya[{N} - 1] = y;
                    let e = {V}::from(xa).angle_eq(&{V}::from(ya)).to_array();
                    let mut k = 0;
                    while k < {N} {{ assert!(e[k].to_bits() == {on}(xa[k].angle_eq(&ya[k]))); k += 1; }}
                    """, [f"<{V} as AngleEq>::angle_eq (angle/wide.rs)"],
                    f"last lane: any two {S} with |x| <= 2^20; other lanes fixed", thorough=True, unwind=un)
        o.harness(f"c17_{V}_angle_half_turns",
                  f"{V}: the signed normal form of the half turns 180 + 360k (k = -3..3) is the scalar one (+180, never -180) in every lane, whatever "
                  f"the other lanes hold",
                  sym(V, S, N, "x", "{x}.abs() <= " + lim) + f"""
                  let k0: i8 = kani::any();
                  kani::assume(k0 >= -3 && k0 <= 3);
                  let lane: usize = kani::any();
                  kani::assume(lane < {N});
                  kani::cover!(true);
                  let mut a = x_a;
                  a[lane] = 180.0 + 360.0 * k0 as {S};
                  let s = {V}::from(a).normalize_signed_angle().to_array();
                  assert!(s[lane] == a[lane].normalize_signed_angle());
                  assert!(palette::RgbHue::new({V}::from(a)).into_degrees().to_array()[lane] == palette::RgbHue::new(a[lane]).into_degrees());
                  """, [f"<{V} as SignedAngle>::normalize_signed_angle (angle/wide.rs)", "palette::RgbHue::into_degrees"],
                  f"half turns 180 + 360k, k in -3..=3, in any lane; other lanes all {S} with |x| <= 2^20", thorough=th, unwind=un)
        # packing
        o.harness(f"c17_{V}_pack_unpack_colors",
                  f"array of scalar colours <-> one SIMD colour ({V}): lane k of every component is component of colour k, and unpacking returns the "
                  f"colours bit for bit (Rgb, Hsv with its hue, Lab, and Alpha-wrapped Rgb)",
                  f"""
                  let r: [{S}; {N}] = kani::any();
                  let g: [{S}; {N}] = kani::any();
                  let b: [{S}; {N}] = kani::any();
                  let al: [{S}; {N}] = kani::any();
                  kani::cover!(true);
                  let mut cs = [palette::Srgb::<{S}>::new(0.0, 0.0, 0.0); {N}];
                  let mut hs = [palette::Hsv::<palette::encoding::Srgb, {S}>::new(0.0, 0.0, 0.0); {N}];
                  let mut ls = [palette::Lab::<palette::white_point::D65, {S}>::new(0.0, 0.0, 0.0); {N}];
                  let mut as_ = [palette::Srgba::<{S}>::new(0.0, 0.0, 0.0, 0.0); {N}];
                  let mut k = 0;
                  while k < {N} {{
                      cs[k] = palette::Srgb::new(r[k], g[k], b[k]);
                      hs[k] = palette::Hsv::new(r[k], g[k], b[k]);
                      ls[k] = palette::Lab::new(r[k], g[k], b[k]);
                      as_[k] = palette::Srgba::new(r[k], g[k], b[k], al[k]);
                      k += 1;
                  }}
                  let c = palette::Srgb::<{V}>::from(cs);
                  let h = palette::Hsv::<palette::encoding::Srgb, {V}>::from(hs);
                  let l = palette::Lab::<palette::white_point::D65, {V}>::from(ls);
                  let a = palette::Srgba::<{V}>::from(as_);
                  let (cr, cg, cb) = (c.red.to_array(), c.green.to_array(), c.blue.to_array());
                  let (hh, hsat, hv) = (h.hue.into_inner().to_array(), h.saturation.to_array(), h.value.to_array());
                  let (ll, la, lb) = (l.l.to_array(), l.a.to_array(), l.b.to_array());
                  let (ar, aa) = (a.color.red.to_array(), a.alpha.to_array());
                  let mut k = 0;
                  while k < {N} {{
                      assert!(cr[k].to_bits() == r[k].to_bits() && cg[k].to_bits() == g[k].to_bits() && cb[k].to_bits() == b[k].to_bits());
                      assert!(hh[k].to_bits() == r[k].to_bits() && hsat[k].to_bits() == g[k].to_bits() && hv[k].to_bits() == b[k].to_bits());
                      assert!(ll[k].to_bits() == r[k].to_bits() && la[k].to_bits() == g[k].to_bits() && lb[k].to_bits() == b[k].to_bits());
                      assert!(ar[k].to_bits() == r[k].to_bits() && aa[k].to_bits() == al[k].to_bits());
                      k += 1;
                  }}
                  let back: [palette::Srgb<{S}>; {N}] = c.into();
                  let hback: [palette::Hsv<palette::encoding::Srgb, {S}>; {N}] = h.into();
                  let aback: [palette::Srgba<{S}>; {N}] = a.into();
                  let mut k = 0;
                  while k < {N} {{
                      assert!(back[k].red.to_bits() == r[k].to_bits() && back[k].green.to_bits() == g[k].to_bits() && back[k].blue.to_bits() == b[k].to_bits());
                      assert!(hback[k].hue.into_inner().to_bits() == r[k].to_bits() && hback[k].saturation.to_bits() == g[k].to_bits() && hback[k].value.to_bits() == b[k].to_bits());
                      assert!(aback[k].color.blue.to_bits() == b[k].to_bits() && aback[k].alpha.to_bits() == al[k].to_bits());
                      k += 1;
                  }}
                  """, ["impl_simd_array_conversion! / impl_simd_array_conversion_hue! (macros/simd.rs)", "From<[Alpha<C, T>; N]> for Alpha<C, V>"],
                  f"all {S} bit patterns, {N} colours", thorough=th, unwind=un)
        o.harness(f"c17_{V}_pack_unpack_prealpha",
                  f"array of scalar premultiplied colours <-> one SIMD premultiplied colour ({V}): packing PreAlpha<LinSrgb> copies colour and alpha "
                  f"lanes bit for bit (no unpremultiply / premultiply detour: zero alpha keeps its colour, no lane is re-rounded), and unpacking "
                  f"returns the colours bit for bit",
                  f"""
                  let r: [{S}; {N}] = kani::any();
                  let g: [{S}; {N}] = kani::any();
                  let b: [{S}; {N}] = kani::any();
                  let al: [{S}; {N}] = kani::any();
                  kani::cover!(true);
                  let mut ps = [palette::blend::PreAlpha::<palette::LinSrgb<{S}>> {{ color: palette::LinSrgb::new(0.0, 0.0, 0.0), alpha: 0.0 }}; {N}];
                  let mut k = 0;
                  while k < {N} {{
                      ps[k] = palette::blend::PreAlpha {{ color: palette::LinSrgb::new(r[k], g[k], b[k]), alpha: al[k] }};
                      k += 1;
                  }}
                  let p = palette::blend::PreAlpha::<palette::LinSrgb<{V}>>::from(ps);
                  let (pr, pg, pb, pa) = (p.color.red.to_array(), p.color.green.to_array(), p.color.blue.to_array(), p.alpha.to_array());
                  let mut k = 0;
                  while k < {N} {{
                      assert!(pr[k].to_bits() == r[k].to_bits() && pg[k].to_bits() == g[k].to_bits() && pb[k].to_bits() == b[k].to_bits() && pa[k].to_bits() == al[k].to_bits());
                      k += 1;
                  }}
                  let back: [palette::blend::PreAlpha<palette::LinSrgb<{S}>>; {N}] = p.into();
                  let mut k = 0;
                  while k < {N} {{
                      assert!(back[k].color.red.to_bits() == r[k].to_bits() && back[k].color.green.to_bits() == g[k].to_bits()
                          && back[k].color.blue.to_bits() == b[k].to_bits() && back[k].alpha.to_bits() == al[k].to_bits());
                      k += 1;
                  }}
                  """, ["From<[PreAlpha<C<T>>; N]> for PreAlpha<C<V>> / From<PreAlpha<C<V>>> for [PreAlpha<C<T>>; N] (impl_simd_array_conversion!, macros/simd.rs)"],
                  f"all {S} bit patterns, {N} colours", thorough=th, unwind=un)
        # bounds and clamp of SIMD colours
        o.harness(f"c17_{V}_color_bounds_and_clamp_lanes",
                  f"SIMD colours ({V}): is_within_bounds marks exactly the lanes whose scalar colour is within bounds, clamp equals the scalar clamp lane "
                  f"by lane (Rgb and Hsv), and is_within_bounds of a slice of two SIMD colours marks exactly the lanes that are within bounds in both "
                  f"elements (lanes going out of bounds in different elements included)",
                  sym(V, S, N, "p", "{x}.is_finite()") + sym(V, S, N, "q", "{x}.is_finite()") + sym(V, S, N, "t", "{x}.is_finite()") + sym(V, S, N, "w", "{x}.is_finite()") + f"""
                  kani::cover!(true);
                  let c = palette::Srgb::<{V}>::new(p, q, t);
                  let d = palette::Srgb::<{V}>::new(w, p, q);
                  let h = palette::Hsv::<palette::encoding::Srgb, {V}>::new(p, q, t);
                  let (m, mh) = (c.is_within_bounds().to_array(), h.is_within_bounds().to_array());
                  let (cc, hc) = (c.clamp(), h.clamp());
                  let (ccr, ccb, hcs, hcv) = (cc.red.to_array(), cc.blue.to_array(), hc.saturation.to_array(), hc.value.to_array());
                  let both = [c, d];
                  let ms = both[..].is_within_bounds().to_array();
                  let mut k = 0;
                  while k < {N} {{
                      let sc = palette::Srgb::<{S}>::new(p_a[k], q_a[k], t_a[k]);
                      let sd = palette::Srgb::<{S}>::new(w_a[k], p_a[k], q_a[k]);
                      let sh = palette::Hsv::<palette::encoding::Srgb, {S}>::new(p_a[k], q_a[k], t_a[k]);
                      assert!(m[k].to_bits() == {on}(sc.is_within_bounds()) && mh[k].to_bits() == {on}(sh.is_within_bounds()));
                      assert!(ccr[k] == sc.clamp().red && ccb[k] == sc.clamp().blue && hcs[k] == sh.clamp().saturation && hcv[k] == sh.clamp().value);
                      assert!(ms[k].to_bits() == {on}(sc.is_within_bounds() && sd.is_within_bounds()));
                      k += 1;
                  }}
                  """, ["impl_is_within_bounds! / impl_clamp! on wide component types", "impl IsWithinBounds for [T] (lib.rs)", f"<{V} as BoolMask>::is_false"],
                  f"all finite {S} in all {N} lanes, slices of 2 SIMD colours", thorough=th, unwind=un)
    # conversions: one SIMD type, lanes on different branches
    for V, S, N, on in (("f32x4", "f32", 4, "on32"),):
        o.harness(f"c17_{V}_hsv_to_rgb_lanes",
                  f"HSV -> RGB on {V}: the last lane holding ANY in-range colour (the others hold fixed colours of other hue sectors) equals the "
                  f"scalar f32 conversion of that colour within 1e-5",
                  f"""
                  let (hi, si, vi): (i16, u8, u8) = (kani::any(), kani::any(), kani::any());
                  kani::assume(hi >= -720 && hi <= 1440 && si <= 16 && vi <= 16);
                  let (h, s, v) = (hi as {S} * 0.5, si as {S} / 16.0, vi as {S} / 16.0);
                  let lane: usize = 3;
                  kani::cover!(true);
                  let (mut ha, mut sa, mut va) = ([10.0 as {S}, 130.0, 250.0, 310.0], [0.5 as {S}; {N}], [0.75 as {S}; {N}]);
                  ha[lane] = h; sa[lane] = s; va[lane] = v;
                  let c = palette::Srgb::<{V}>::from_color_unclamped(palette::Hsv::<palette::encoding::Srgb, {V}>::new({V}::from(ha), {V}::from(sa), {V}::from(va)));
                  let (r, g, b) = (c.red.to_array(), c.green.to_array(), c.blue.to_array());
                  let mut k = 0;
                  while k < {N} {{
                      let sc = palette::Srgb::<{S}>::from_color_unclamped(palette::Hsv::<palette::encoding::Srgb, {S}>::new(ha[k], sa[k], va[k]));
                      assert!((r[k] - sc.red).abs() <= 1e-5 && (g[k] - sc.green).abs() <= 1e-5 && (b[k] - sc.blue).abs() <= 1e-5);
                      k += 1;
                  }}
                  """, ["<Rgb<S, f32x4> as FromColorUnclamped<Hsv<S, f32x4>>>::from_color_unclamped", "lazy_select! on wide masks"],
                  "last lane: hues k/2 in [-360, 720], saturation and value k/16 in [0, 1] (624 k colours incl. every sector edge); other lanes fixed", thorough=True, unwind=N + 2)
        o.harness(f"c17_{V}_rgb_to_hsv_lanes",
                  f"RGB -> HSV on {V} (the branch-free SIMD implementation) against the scalar implementation: value bit for bit and saturation "
                  f"within 1e-5 in the last lane for ANY in-range colour held there (other lanes fixed colours with other maximal components)",
                  f"""
                  let (ri, gi, bi): (u8, u8, u8) = (kani::any(), kani::any(), kani::any());
                  kani::assume(ri <= 64 && gi <= 64 && bi <= 64);
                  let (r, g, b) = (ri as {S} / 64.0, gi as {S} / 64.0, bi as {S} / 64.0);
                  kani::cover!(true);
                  let (ra, ga, ba) = ([0.9 as {S}, 0.1, 0.2, r], [0.2 as {S}, 0.8, 0.3, g], [0.1 as {S}, 0.3, 0.7, b]);
                  let c = palette::Hsv::<palette::encoding::Srgb, {V}>::from_color_unclamped(palette::Srgb::<{V}>::new({V}::from(ra), {V}::from(ga), {V}::from(ba)));
                  let (ss, vv) = (c.saturation.to_array(), c.value.to_array());
                  let mut k = 0;
                  while k < {N} {{
                      let sc = palette::Hsv::<palette::encoding::Srgb, {S}>::from_color_unclamped(palette::Srgb::<{S}>::new(ra[k], ga[k], ba[k]));
                      assert!(vv[k] == sc.value && (ss[k] - sc.saturation).abs() <= 1e-5);
                      k += 1;
                  }}
                  """, ["<Hsv<S, f32x4> as FromColorUnclamped<Rgb<S, f32x4>>>::from_color_unclamped (SIMD branch)", "scalar branch of the same function"],
                  "last lane: RGB components k/64 in [0, 1] (275 k colours incl. greys, ties of the maximum, black and white); other lanes fixed (hue is compared by Engine S)", thorough=True, unwind=N + 2)
    o.write()


if __name__ == "__main__":
    gen()
