"""C19 (range part): Standard / Uniform sampling of colours and hues stays in range (macros/random.rs, hues.rs,
random_sampling/cone.rs, alpha/alpha.rs, ok*/random.rs). The RNG is the environment stub `AnyRng` (every word nondeterministic)."""
from common import Out

SRGB = "palette::encoding::Srgb"
D65 = "palette::white_point::D65"


def t(key, ty, ctor, args, bounds, hue=None, extra=()):
    """args: constructor arguments in order ('hue' = the hue). bounds: comp -> (min accessor | 'ZERO', max accessor | None).
    extra: additional (comp, op, accessor) sample-range facts the type documents (sampling box of an unbounded component)."""
    return dict(key=key, ty=ty, ctor=ctor, args=args, bounds=bounds, hue=hue, extra=extra)


CART = [
    t("rgb", f"palette::rgb::Rgb<{SRGB}, {{F}}>", "new", ["red", "green", "blue"],
      {"red": ("min_red", "max_red"), "green": ("min_green", "max_green"), "blue": ("min_blue", "max_blue")}),
    t("luma", f"palette::luma::Luma<{SRGB}, {{F}}>", "new", ["luma"], {"luma": ("min_luma", "max_luma")}),
    t("xyz", f"palette::Xyz<{D65}, {{F}}>", "new", ["x", "y", "z"], {"x": ("min_x", "max_x"), "y": ("min_y", "max_y"), "z": ("min_z", "max_z")}),
    t("yxy", f"palette::Yxy<{D65}, {{F}}>", "new", ["x", "y", "luma"], {"x": ("min_x", "max_x"), "y": ("min_y", "max_y"), "luma": ("min_luma", "max_luma")}),
    t("lab", f"palette::Lab<{D65}, {{F}}>", "new", ["l", "a", "b"], {"l": ("min_l", "max_l"), "a": ("min_a", "max_a"), "b": ("min_b", "max_b")}),
    t("luv", f"palette::Luv<{D65}, {{F}}>", "new", ["l", "u", "v"], {"l": ("min_l", "max_l"), "u": ("min_u", "max_u"), "v": ("min_v", "max_v")}),
    t("oklab", "palette::Oklab<{F}>", "new", ["l", "a", "b"], {"l": ("min_l", "max_l")}),
    t("lms", f"palette::lms::VonKriesLms<{D65}, {{F}}>", "new", ["long", "medium", "short"],
      {"long": ("min_long", None), "medium": ("min_medium", None), "short": ("min_short", None)}),
    t("cam16ucsjab", "palette::cam16::Cam16UcsJab<{F}>", "new", ["lightness", "a", "b"], {"lightness": ("min_lightness", "max_lightness")},
      extra=[("a", ">=", "min_srgb_a"), ("a", "<=", "max_srgb_a"), ("b", ">=", "min_srgb_b"), ("b", "<=", "max_srgb_b")]),
]
CYL = [
    t("lch", f"palette::Lch<{D65}, {{F}}>", "new_const", ["l", "chroma", "hue"], {"l": ("min_l", "max_l"), "chroma": ("min_chroma", None)},
      hue="palette::LabHue", extra=[("chroma", "<=", "max_chroma")]),
    t("lchuv", f"palette::Lchuv<{D65}, {{F}}>", "new_const", ["l", "chroma", "hue"], {"l": ("min_l", "max_l"), "chroma": ("min_chroma", "max_chroma")},
      hue="palette::LuvHue"),
    t("oklch", "palette::Oklch<{F}>", "new_const", ["l", "chroma", "hue"], {"l": ("min_l", "max_l"), "chroma": ("min_chroma", None)},
      hue="palette::OklabHue"),
    t("cam16ucsjmh", "palette::cam16::Cam16UcsJmh<{F}>", "new_const", ["lightness", "colorfulness", "hue"],
      {"lightness": ("min_lightness", "max_lightness"), "colorfulness": ("min_colorfulness", None)}, hue="palette::hues::Cam16Hue",
      extra=[("colorfulness", "<=", "max_srgb_colorfulness")]),
]
CONE = [
    t("hsv", f"palette::Hsv<{SRGB}, {{F}}>", "new_const", ["hue", "saturation", "value"],
      {"saturation": ("min_saturation", "max_saturation"), "value": ("min_value", "max_value")}, hue="palette::RgbHue"),
    t("okhsv", "palette::Okhsv<{F}>", "new_const", ["hue", "saturation", "value"],
      {"saturation": ("min_saturation", "max_saturation"), "value": ("min_value", "max_value")}, hue="palette::OklabHue"),
]
BICONE = [
    t("hsl", f"palette::Hsl<{SRGB}, {{F}}>", "new_const", ["hue", "saturation", "lightness"],
      {"saturation": ("min_saturation", "max_saturation"), "lightness": ("min_lightness", "max_lightness")}, hue="palette::RgbHue"),
    t("okhsl", "palette::Okhsl<{F}>", "new_const", ["hue", "saturation", "lightness"],
      {"saturation": ("min_saturation", "max_saturation"), "lightness": ("min_lightness", "max_lightness")}, hue="palette::OklabHue"),
    t("hsluv", f"palette::Hsluv<{D65}, {{F}}>", "new_const", ["hue", "saturation", "l"],
      {"saturation": ("min_saturation", "max_saturation"), "l": ("min_l", "max_l")}, hue="palette::LuvHue"),
]
HWB = [
    t("hwb", f"palette::Hwb<{SRGB}, {{F}}>", "new_const", ["hue", "whiteness", "blackness"],
      {"whiteness": ("min_whiteness", "max_whiteness"), "blackness": ("min_blackness", "max_blackness")}, hue="palette::RgbHue"),
    t("okhwb", "palette::Okhwb<{F}>", "new_const", ["hue", "whiteness", "blackness"],
      {"whiteness": ("min_whiteness", "max_whiteness"), "blackness": ("min_blackness", "max_blackness")}, hue="palette::OklabHue"),
]
HUES = [("rgbhue", "palette::RgbHue"), ("labhue", "palette::LabHue"), ("luvhue", "palette::LuvHue"), ("oklabhue", "palette::OklabHue"),
        ("cam16hue", "palette::hues::Cam16Hue")]

RNG_BOUND = "every RNG stream (each word drawn from the generator is nondeterministic)"


def raw(F, e):
    """f32 view of a component expression of type F."""
    return e + ".0" if F == "K32" else e


def in_bounds(T, v, F):
    """Accessor-wise bounds of the sample `v` (components of type F; the accessors are taken from the f32 instantiation)."""
    ty32 = T["ty"].format(F="f32" if F == "K32" else F)
    parts = []
    for c, (mn, mx) in T["bounds"].items():
        x = raw(F, f"{v}.{c}")
        parts.append(f"{x} >= " + ("0.0" if mn == "ZERO" else f"<{ty32}>::{mn}()"))
        if mx:
            parts.append(f"{x} <= <{ty32}>::{mx}()")
    for c, op, acc in T["extra"]:
        parts.append(f"{raw(F, f'{v}.{c}')} {op} <{ty32}>::{acc}()")
    if T in HWB:
        parts.append(f"{raw(F, f'{v}.whiteness')} + {raw(F, f'{v}.blackness')} <= 1.0")
    if T["hue"]:
        h = raw(F, f"{v}.hue.into_raw_degrees()")
        parts.append(f"{h} >= 0.0 && {h} < 360.0")
    return parts


def bounds_text(T):
    s = ", ".join(f"{c} >= {mn}()" if not mx else f"{c} in [{mn}(), {mx}()]" for c, (mn, mx) in T["bounds"].items())
    if T["extra"]:
        s += ", " + ", ".join(f"{c} {op} {acc}()" for c, op, acc in T["extra"])
    if T in HWB:
        s += ", whiteness + blackness <= 1"
    if T["hue"]:
        s += ", hue in [0, 360) degrees"
    return s


def gen():
    o = Out("c19_gen.rs", "use palette::IsWithinBounds;\nuse rand::distributions::{Distribution, Uniform};\nuse rand::Rng;\n"
            "use crate::c19_support::*;\n")

    # ---- (a) Standard distribution -------------------------------------------------------------------------------------
    for F in ("f32", "f64"):
      for T in CART + CYL:
        ty = T["ty"].format(F=F)
        macro = "impl_rand_traits_cartesian!" if T in CART else "impl_rand_traits_cylinder!"
        asserts = "\n".join(f"assert!({p});" for p in in_bounds(T, "c", F))
        o.harness(f"c19_{T['key']}_{F}_standard_in_bounds",
                  f"{ty}: a colour drawn from rand's Standard distribution (`rng.gen()`, {macro} expansion over rand's real {F} sampling code"
                  f"{' and the real ' + F + ' sqrt' if T in CYL else ''}) reports is_within_bounds() and satisfies {bounds_text(T)}",
                  f"""
                  let mut rng = AnyRng;
                  let c: {ty} = rng.gen();
                  kani::cover!(true);
                  assert!(c.is_within_bounds());
                  {asserts}
                  """, [f"<rand::distributions::Standard as Distribution<{ty}>>::sample", f"<Standard as Distribution<{F}>>::sample (rand 0.8)"],
                  RNG_BOUND + "; " + F, thorough=False)
      for key, H in HUES:
        o.harness(f"c19_{key}_{F}_standard_in_bounds",
                  f"{H}<{F}>: a hue drawn from the Standard distribution is a raw angle in [0, 360) degrees",
                  f"""
                  let mut rng = AnyRng;
                  let h: {H}<{F}> = rng.gen();
                  kani::cover!(true);
                  let d = h.into_raw_degrees();
                  assert!(d >= 0.0 && d < 360.0);
                  """, [f"<rand::distributions::Standard as Distribution<{H}<{F}>>>::sample"], RNG_BOUND + "; " + F)
    for T in CONE + BICONE + HWB:
        ty = T["ty"].format(F="K32")
        macro = ("impl_rand_traits_hsv_cone!" if T in CONE else "impl_rand_traits_hsl_bicone!" if T in BICONE else "impl_rand_traits_hwb_cone!")
        asserts = "\n".join(f"assert!({p});" for p in in_bounds(T, "c", "K32"))
        o.harness(f"c19_{T['key']}_standard_in_bounds",
                  f"{ty}: a colour drawn from the Standard distribution ({macro} expansion, random_sampling::sample_"
                  f"{'hsl' if T in BICONE else 'hsv'}{', then Hsv -> Hwb' if T in HWB else ''}) satisfies {bounds_text(T)} (accessors of the f32 "
                  f"instantiation). K32 is f32 with rand's real Standard f32 sampling and real IEEE arithmetic and sqrt; only cbrt is any "
                  f"value within its range contract (0 <= x <= 1 => 0 <= cbrt(x) <= 1), so the result holds for every cbrt implementation",
                  f"""
                  let mut rng = AnyRng;
                  let c: {ty} = rng.gen();
                  kani::cover!(true);
                  {asserts}
                  """, [f"<rand::distributions::Standard as Distribution<{T['ty'].format(F='T')}>>::sample",
                        f"palette::random_sampling::sample_{'hsl' if T in BICONE else 'hsv'}"],
                  RNG_BOUND + "; f32 arithmetic, cbrt by range contract", thorough=(T in HWB))
    for T in (CART[0], CART[4]):
        ty = T["ty"].format(F="f32")
        asserts = "\n".join(f"assert!({p});" for p in in_bounds(T, "c.color", "f32"))
        o.harness(f"c19_{T['key']}_alpha_f32_standard_in_bounds",
                  f"palette::Alpha<{ty}, f32>: Standard sample has its colour within bounds ({bounds_text(T)}) and alpha in [min_alpha(), max_alpha()] "
                  f"= [0, 1]; is_within_bounds() holds",
                  f"""
                  let mut rng = AnyRng;
                  let c: palette::Alpha<{ty}, f32> = rng.gen();
                  kani::cover!(true);
                  assert!(c.is_within_bounds());
                  {asserts}
                  assert!(c.alpha >= <palette::Alpha<{ty}, f32>>::min_alpha() && c.alpha <= <palette::Alpha<{ty}, f32>>::max_alpha());
                  """, [f"<rand::distributions::Standard as Distribution<palette::Alpha<{ty}, f32>>>::sample"], RNG_BOUND + "; f32")
    T = CONE[0]
    ty = T["ty"].format(F="K32")
    asserts = "\n".join(f"assert!({p});" for p in in_bounds(T, "c.color", "K32"))
    o.harness("c19_hsv_alpha_standard_in_bounds",
              f"palette::Alpha<{ty}, K32>: Standard sample has its colour within bounds ({bounds_text(T)}) and alpha in [0, 1) (cbrt by range contract)",
              f"""
              let mut rng = AnyRng;
              let c: palette::Alpha<{ty}, K32> = rng.gen();
              kani::cover!(true);
              {asserts}
              assert!(c.alpha.0 >= 0.0 && c.alpha.0 <= 1.0);
              """, ["<rand::distributions::Standard as Distribution<palette::Alpha<C, T>>>::sample"], RNG_BOUND + "; f32 arithmetic, cbrt by range contract")

    # ---- (b) Uniform samplers, contract level ------------------------------------------------------------------------------
    CONTRACT = ("The component sampler is rand's documented Uniform contract (K32: new panics unless lo < hi, new_inclusive unless lo <= hi; "
                "sample is any v with lo <= v < hi resp. lo <= v <= hi), so every RNG stream and every conforming float sampler is covered")

    def ends(T, incl, hue_benign=True, unit=(), concrete=False):
        """Declarations + assumptions for two symbolic end colours `lo`, `hi` over K32."""
        ty = T["ty"].format(F="K32")
        cmp = "<=" if incl else "<"
        L, la, ha = [], [], []
        for a in T["args"]:
            L.append(f"let lo_{a}: f32 = kani::any(); let hi_{a}: f32 = kani::any();")
            if a == "hue":
                if hue_benign:
                    L.append(f"kani::assume(lo_hue >= 0.0 && hi_hue <= 359.0 && lo_hue {cmp} hi_hue);")
                else:
                    L.append(f"kani::assume(lo_hue >= -360.0 && hi_hue <= 720.0 && lo_hue {cmp} hi_hue);")
                la.append(f"{T['hue']}::new(K32(lo_hue))")
                ha.append(f"{T['hue']}::new(K32(hi_hue))")
            else:
                if concrete:
                    L[-1] = f"let lo_{a}: f32 = 0.0; let hi_{a}: f32 = 1.0;"
                elif a in unit:
                    L.append(f"kani::assume(lo_{a} >= 0.0 && hi_{a} <= {unit[a]} && lo_{a} {cmp} hi_{a});")
                else:
                    L.append(f"kani::assume(lo_{a}.is_finite() && hi_{a}.is_finite() && lo_{a} {cmp} hi_{a});")
                la.append(f"K32(lo_{a})")
                ha.append(f"K32(hi_{a})")
        L.append(f"let lo = <{ty}>::{T['ctor']}({', '.join(la)});")
        L.append(f"let hi = <{ty}>::{T['ctor']}({', '.join(ha)});")
        return ty, "\n".join(L)

    def between(T, v, incl):
        out = []
        for a in T["args"]:
            if a == "hue":
                continue
            out.append(f"assert!(lo_{a} <= {v}.{a}.0 && {v}.{a}.0 <= hi_{a});")
        return "\n".join(out)

    for T in CART:
        for incl in (False, True):
            ty, decl = ends(T, incl)
            kind = "new_inclusive" if incl else "new"
            o.harness(f"c19_{T['key']}_uniform_{kind}_between",
                      f"{ty}: Uniform::{kind}(lo, hi).sample(rng) has every component between the corresponding components of lo and hi "
                      f"(impl_rand_traits_cartesian! Uniform sampler). {CONTRACT}",
                      f"""
                      {decl}
                      let mut rng = AnyRng;
                      let u = Uniform::{kind}(lo, hi);
                      let s = u.sample(&mut rng);
                      kani::cover!(true);
                      {between(T, 's', incl)}
                      """, [f"<Uniform{T['ty'].split('<')[0].split('::')[-1]}<T> as UniformSampler>::{{{kind}, sample}}"],
                      f"all finite f32 ends with lo.c {'<=' if incl else '<'} hi.c in every component; every sample the contract allows")
    # Alpha
    for incl in (False, True):
        T = CART[0]
        ty, decl = ends(T, incl)
        kind = "new_inclusive" if incl else "new"
        cmp = "<=" if incl else "<"
        o.harness(f"c19_rgb_alpha_uniform_{kind}_between",
                  f"palette::Alpha<{ty}, K32>: Uniform::{kind}(lo, hi).sample(rng) has every colour component and alpha between those of lo and hi "
                  f"(UniformAlpha forwards to the colour's sampler and a scalar alpha sampler). {CONTRACT}",
                  f"""
                  {decl}
                  let lo_alpha: f32 = kani::any(); let hi_alpha: f32 = kani::any();
                  kani::assume(lo_alpha.is_finite() && hi_alpha.is_finite() && lo_alpha {cmp} hi_alpha);
                  let lo = palette::Alpha {{ color: lo, alpha: K32(lo_alpha) }};
                  let hi = palette::Alpha {{ color: hi, alpha: K32(hi_alpha) }};
                  let mut rng = AnyRng;
                  let u = Uniform::{kind}(lo, hi);
                  let s = u.sample(&mut rng);
                  kani::cover!(true);
                  {between(T, 's.color', incl)}
                  assert!(lo_alpha <= s.alpha.0 && s.alpha.0 <= hi_alpha);
                  """, [f"<palette::alpha::UniformAlpha<C, T> as UniformSampler>::{{{kind}, sample}}"],
                  f"all finite f32 ends with lo.c {cmp} hi.c in every component and alpha; every sample the contract allows")

    # hue samplers
    EXACT = ("Ends: every f32 in [-360, 720] degrees whose normal form (palette's into_positive_degrees) is exact - all of [0, 720] and the "
             "negative ends that stay representable when 360 is added; the remaining negative ends are the separate *_rounded_ends obligation")
    for key, H in HUES:
        for incl in (False, True):
            kind = "new_inclusive" if incl else "new"
            cmp = "<=" if incl else "<"
            if key == "rgbhue":
                o.harness(f"c19_{key}_uniform_{kind}_on_arc_rounded_ends",
                          f"{H}<K32>: as c19_{key}_uniform_{kind}_on_arc, for the ends in [-360, 0) whose f32 normal form is rounded (x + 360 not "
                          f"representable, e.g. -1e-9 -> 360.0): the sampler is constructed without panic and the sample lies on the arc (tolerance "
                          f"1.25e-4 degrees). {CONTRACT}",
                          f"""
                          let lo: f32 = kani::any();
                          let hi: f32 = kani::any();
                          kani::assume(lo >= -360.0 && hi <= 720.0 && lo {cmp} hi);
                          kani::assume(!normalises_exactly(lo) || !normalises_exactly(hi));
                          let mut rng = AnyRng;
                          let u = Uniform::{kind}({H}::new(K32(lo)), {H}::new(K32(hi)));
                          let s = u.sample(&mut rng).into_raw_degrees().0;
                          kani::cover!(true);
                          assert!(on_arc(lo, hi, s));
                          """, [f"<palette::hues::Uniform{H.split('::')[-1]}<T> as UniformSampler>::{{{kind}, sample}}", f"{H}::into_positive_degrees"],
                          f"all f32 ends with -360 <= lo {cmp} hi <= 720 degrees, at least one with a rounded normal form; every sample the contract allows",
                          witness="c19_uniform_hue_rounded_negative_ends")
            o.harness(f"c19_{key}_uniform_{kind}_in_plain_arc",
                      f"{H}<K32>: for ends 0 <= lo {cmp} hi < 360 degrees (arcs that do not wrap; the ends are their own normal forms) "
                      f"Uniform::{kind}(lo, hi).sample(rng) is a hue in [lo, hi], exactly (no tolerance). {CONTRACT}",
                      f"""
                      let lo: f32 = kani::any();
                      let hi: f32 = kani::any();
                      kani::assume(lo >= 0.0 && hi < 360.0 && lo {cmp} hi);
                      let mut rng = AnyRng;
                      let u = Uniform::{kind}({H}::new(K32(lo)), {H}::new(K32(hi)));
                      let s = u.sample(&mut rng).into_raw_degrees().0;
                      kani::cover!(true);
                      assert!(in_plain_arc(lo, hi, s));
                      """, [f"<palette::hues::Uniform{H.split('::')[-1]}<T> as UniformSampler>::{{{kind}, sample}}", f"{H}::into_positive_degrees"],
                      f"all f32 ends with 0 <= lo {cmp} hi < 360 degrees; every sample the contract allows")
            o.harness(f"c19_{key}_uniform_{kind}_on_arc",
                      f"{H}<K32>: Uniform::{kind}(lo, hi).sample(rng) lies on the arc that runs from the hue lo in the direction of increasing angle to "
                      f"the hue hi - including arcs that wrap through 0/360 degrees, ends more than a turn apart (same hue: the whole circle)"
                      f"{' and equal ends (the single hue)' if incl else ''}. Positions are compared modulo 360 with an absolute tolerance of "
                      f"1.25e-4 degrees (2 ulp of 720: the rounding of palette's own arithmetic on the normal forms). {EXACT}. {CONTRACT}",
                      f"""
                      let lo: f32 = kani::any();
                      let hi: f32 = kani::any();
                      kani::assume(lo >= -360.0 && hi <= 720.0 && lo {cmp} hi);
                      kani::assume(normalises_exactly(lo) && normalises_exactly(hi));
                      let mut rng = AnyRng;
                      let u = Uniform::{kind}({H}::new(K32(lo)), {H}::new(K32(hi)));
                      let s = u.sample(&mut rng).into_raw_degrees().0;
                      kani::cover!(true);
                      assert!(on_arc(lo, hi, s));
                      """, [f"<palette::hues::Uniform{H.split('::')[-1]}<T> as UniformSampler>::{{{kind}, sample}}", f"{H}::into_positive_degrees"],
                      f"all f32 ends with -360 <= lo {cmp} hi <= 720 degrees and exact normal form; every sample the contract allows",
                      thorough=True)

    # cylinder and cone samplers (abstract power/root pairs)
    POWERS = ("x * x / powi(2) / sqrt and powi(3) / cbrt are an arbitrary strictly increasing function on [0, inf) with f(0) = 0, f(1) = 1 and "
              "its inverse (every such pair at once; floating-point rounding of the real square/cube/root pair is outside this contract)")
    for T in CYL + CONE:
        rad = T["args"][1] if T in CYL else None
        for incl in (False, True):
            kind = "new_inclusive" if incl else "new"
            cmp = "<=" if incl else "<"
            if T in CYL:
                unit = {rad: "f32::MAX"}
                macro = "impl_rand_traits_cylinder!: radius sampled between the squared ends, then sqrt"
            else:
                unit = {"saturation": "1.0", "value": "1.0"}
                macro = "impl_rand_traits_hsv_cone!: invert_hsv_sample of the ends (value^3, saturation^2), sample_hsv (cbrt, sqrt)"
            ty, decl = ends(T, incl, unit=unit)
            dom = (f"{rad} ends with 0 <= lo {cmp} hi, other components all finite f32 with lo {cmp} hi" if T in CYL
                   else f"saturation and value ends with 0 <= lo {cmp} hi <= 1")
            o.harness(f"c19_{T['key']}_uniform_{kind}_between",
                      f"{ty}: Uniform::{kind}(lo, hi).sample(rng) has every non-hue component between the corresponding components of lo and hi "
                      f"({macro}). {CONTRACT}; {POWERS}",
                      f"""
                      abstract_powers({'true' if T in CYL else 'false'});
                      {decl}
                      let mut rng = AnyRng;
                      let u = Uniform::{kind}(lo, hi);
                      let s = u.sample(&mut rng);
                      kani::cover!(true);
                      {between(T, 's', incl)}
                      """, [f"<Uniform{T['ty'].split('<')[0].split('::')[-1]}<T> as UniformSampler>::{{{kind}, sample}}"]
                      + (["palette::random_sampling::{invert_hsv_sample, sample_hsv}"] if T in CONE else []),
                      f"{dom}; hue ends 0 <= lo {cmp} hi <= 359 degrees; every sample the contracts allow", unwind=6)
        # hue through the colour sampler
        ty, decl = ends(T, False, hue_benign=True, concrete=True)
        decl = decl.replace("hi_hue <= 359.0", "hi_hue < 360.0")
        uname = f"<Uniform{T['ty'].split('<')[0].split('::')[-1]}<T> as UniformSampler>::{{new, sample}}"
        o.harness(f"c19_{T['key']}_uniform_new_hue_in_plain_arc",
                  f"{ty}: for hue ends 0 <= lo < hi < 360 degrees the hue of Uniform::new(lo, hi).sample(rng) lies in [lo, hi], exactly (the colour "
                  f"sampler forwards the hue ends to the hue sampler; the other components of the ends are 0 and 1). {CONTRACT}",
                  f"""
                  {decl}
                  let mut rng = AnyRng;
                  let u = Uniform::new(lo, hi);
                  let s = u.sample(&mut rng).hue.into_raw_degrees().0;
                  kani::cover!(true);
                  assert!(in_plain_arc(lo_hue, hi_hue, s));
                  """, [uname], "all f32 hue ends with 0 <= lo < hi < 360 degrees; other components of the ends 0 and 1; every sample the contract allows",
                  unwind=6)
        if T["key"] in ("lch", "hsv"):
            ty, decl = ends(T, False, hue_benign=False, concrete=True)
            o.harness(f"c19_{T['key']}_uniform_new_hue_on_arc",
                      f"{ty}: the hue of Uniform::new(lo, hi).sample(rng) lies on the arc from the hue of lo to the hue of hi, including wrapping arcs "
                      f"(arc, tolerance and ends as in the hue sampler *_on_arc obligations; the other components of the ends are 0 and 1). {CONTRACT}",
                      f"""
                      {decl}
                      kani::assume(normalises_exactly(lo_hue) && normalises_exactly(hi_hue));
                      let mut rng = AnyRng;
                      let u = Uniform::new(lo, hi);
                      let s = u.sample(&mut rng).hue.into_raw_degrees().0;
                      kani::cover!(true);
                      assert!(on_arc(lo_hue, hi_hue, s));
                      """, [uname], "all f32 hue ends with -360 <= lo < hi <= 720 degrees and exact normal form; other components of the ends 0 and 1; "
                      "every sample the contract allows", unwind=6, thorough=True)

    # ---- (b') rand's real f32 Uniform code, concrete ends ------------------------------------------------------------------
    REAL = [
        ("rgb_unit", CART[0], ["0.0", "0.0", "0.0"], ["1.0", "1.0", "1.0"]),
        ("rgb_inner", CART[0], ["0.25", "0.1", "0.5"], ["0.75", "0.9", "1.0"]),
        ("luma_unit", CART[1], ["0.0"], ["1.0"]),
        ("lab_box", CART[4], ["0.0", "-128.0", "-128.0"], ["100.0", "127.0", "127.0"]),
        ("xyz_d65", CART[2], ["0.0", "0.0", "0.0"], ["0.95047", "1.0", "1.08883"]),
    ]
    for key, T, lo, hi in REAL:
        ty = T["ty"].format(F="f32")
        for incl in (False, True):
            kind = "new_inclusive" if incl else "new"
            checks = "\n".join(f"assert!({l} <= s.{a} && s.{a} {'<=' if incl else '<'} {h});" for a, l, h in zip(T["args"], lo, hi))
            o.harness(f"c19_{key}_f32_uniform_{kind}_between",
                      f"{ty}: Uniform::{kind}(({', '.join(lo)}), ({', '.join(hi)})).sample(rng) through rand's real UniformFloat<f32> code has every "
                      f"component in [lo, hi{']' if incl else ')'} for every RNG word (concrete ends: rand's constructor loop and the scale are "
                      f"constants; symbolic ends are covered at contract level by the K32 obligations)",
                      f"""
                      let mut rng = AnyRng;
                      let u = Uniform::{kind}(<{ty}>::new({', '.join(lo)}), <{ty}>::new({', '.join(hi)}));
                      let s = u.sample(&mut rng);
                      kani::cover!(true);
                      {checks}
                      """, [f"<Uniform{T['ty'].split('<')[0].split('::')[-1]}<f32> as UniformSampler>::{{{kind}, sample}}",
                            "rand::distributions::uniform::UniformFloat<f32>"], RNG_BOUND + "; the stated ends; f32", unwind=8)
    for incl in (False, True):
        kind = "new_inclusive" if incl else "new"
        o.harness(f"c19_rgbhue_f32_uniform_{kind}_on_arc_10_20",
                  f"palette::RgbHue<f32>: Uniform::{kind}(10 deg, 20 deg).sample(rng) through rand's real f32 code lies on the arc from 10 to 20 degrees "
                  f"for every RNG word (tolerance 1.25e-4 degrees)",
                  f"""
                  let mut rng = AnyRng;
                  let u = Uniform::{kind}(palette::RgbHue::new(10.0f32), palette::RgbHue::new(20.0f32));
                  let s = u.sample(&mut rng).into_raw_degrees();
                  kani::cover!(true);
                  assert!(on_arc(10.0, 20.0, s));
                  """, [f"<palette::hues::UniformRgbHue<f32> as UniformSampler>::{{{kind}, sample}}", "rand::distributions::uniform::UniformFloat<f32>"],
                  RNG_BOUND + "; ends 10 and 20 degrees; f32", unwind=8)
    o.write()
