"""C03: clamp / is_within_bounds / min-max accessors / FromColor / TryFromColor (macros/clamp.rs, lib.rs, alpha.rs, convert/*)."""
from common import Out

SRGB = "palette::encoding::Srgb"
D65 = "palette::white_point::D65"

# key, type (with {F}), constructor args in order ('h' = hue, other = component name), bounded components:
#   name -> (min expr, max expr or None); {T} is replaced by the concrete type
def t(key, ty, args, bounds, hwb=False, slack=None, ints=False):
    return dict(key=key, ty=ty, args=args, bounds=bounds, hwb=hwb, slack=slack, ints=ints)


TYPES = [
    t("rgb", f"palette::rgb::Rgb<{SRGB}, {{F}}>", ["red", "green", "blue"],
      {"red": ("min_red", "max_red"), "green": ("min_green", "max_green"), "blue": ("min_blue", "max_blue")}, ints=True),
    t("luma", f"palette::luma::Luma<{SRGB}, {{F}}>", ["luma"], {"luma": ("min_luma", "max_luma")}, ints=True),
    t("xyz", f"palette::Xyz<{D65}, {{F}}>", ["x", "y", "z"], {"x": ("min_x", "max_x"), "y": ("min_y", "max_y"), "z": ("min_z", "max_z")}),
    t("yxy", f"palette::Yxy<{D65}, {{F}}>", ["x", "y", "luma"], {"x": ("min_x", "max_x"), "y": ("min_y", "max_y"), "luma": ("min_luma", "max_luma")}),
    t("lab", f"palette::Lab<{D65}, {{F}}>", ["l", "a", "b"], {"l": ("min_l", "max_l"), "a": ("min_a", "max_a"), "b": ("min_b", "max_b")}),
    t("lch", f"palette::Lch<{D65}, {{F}}>", ["l", "chroma", "h"], {"l": ("min_l", "max_l"), "chroma": ("min_chroma", None)}),
    t("luv", f"palette::Luv<{D65}, {{F}}>", ["l", "u", "v"], {"l": ("min_l", "max_l"), "u": ("min_u", "max_u"), "v": ("min_v", "max_v")}),
    t("lchuv", f"palette::Lchuv<{D65}, {{F}}>", ["l", "chroma", "h"], {"l": ("min_l", "max_l"), "chroma": ("min_chroma", "max_chroma")}),
    t("hsluv", f"palette::Hsluv<{D65}, {{F}}>", ["h", "saturation", "l"], {"saturation": ("min_saturation", "max_saturation"), "l": ("min_l", "max_l")}),
    t("hsl", f"palette::Hsl<{SRGB}, {{F}}>", ["h", "saturation", "lightness"], {"saturation": ("min_saturation", "max_saturation"), "lightness": ("min_lightness", "max_lightness")}),
    t("hsv", f"palette::Hsv<{SRGB}, {{F}}>", ["h", "saturation", "value"], {"saturation": ("min_saturation", "max_saturation"), "value": ("min_value", "max_value")}),
    t("hwb", f"palette::Hwb<{SRGB}, {{F}}>", ["h", "whiteness", "blackness"], {"whiteness": ("min_whiteness", "max_whiteness"), "blackness": ("min_blackness", "max_blackness")}, hwb=True),
    t("oklab", "palette::Oklab<{F}>", ["l", "a", "b"], {"l": ("min_l", "max_l")}),
    t("oklch", "palette::Oklch<{F}>", ["l", "chroma", "h"], {"l": ("min_l", "max_l"), "chroma": ("min_chroma", None)}),
    t("okhsl", "palette::Okhsl<{F}>", ["h", "saturation", "lightness"], {"saturation": ("min_saturation", "max_saturation"), "lightness": ("min_lightness", "max_lightness")}),
    t("okhsv", "palette::Okhsv<{F}>", ["h", "saturation", "value"], {"saturation": ("min_saturation", "max_saturation"), "value": ("min_value", "max_value")}, slack="1.0e-6"),
    t("okhwb", "palette::Okhwb<{F}>", ["h", "whiteness", "blackness"], {"whiteness": ("min_whiteness", "max_whiteness"), "blackness": ("min_blackness", "max_blackness")}, hwb=True),
    t("lms", f"palette::lms::VonKriesLms<{D65}, {{F}}>", ["long", "medium", "short"], {"long": ("min_long", None), "medium": ("min_medium", None), "short": ("min_short", None)}),
    t("cam16ucsjab", "palette::cam16::Cam16UcsJab<{F}>", ["lightness", "a", "b"], {"lightness": ("min_lightness", "max_lightness")}),
    t("cam16ucsjmh", "palette::cam16::Cam16UcsJmh<{F}>", ["lightness", "colorfulness", "h"], {"lightness": ("min_lightness", "max_lightness"), "colorfulness": ("min_colorfulness", None)}),
]
for nm, (lu, ch) in {"Jch": ("lightness", "chroma"), "Jmh": ("lightness", "colorfulness"), "Jsh": ("lightness", "saturation"),
                     "Qch": ("brightness", "chroma"), "Qmh": ("brightness", "colorfulness"), "Qsh": ("brightness", "saturation")}.items():
    TYPES.append(t(f"cam16{nm.lower()}", f"palette::cam16::Cam16{nm}<{{F}}>", [lu, ch, "h"], {lu: ("ZERO", None), ch: ("ZERO", None)}))


def ctor(T, F, alpha=False):
    ty = T["ty"].format(F=F)
    lines, args = [], []
    for a in T["args"]:
        v = "hue" if a == "h" else a
        lines.append(f"let {v}: {F} = kani::any();")
        if F in ("f32", "f64"):
            lines.append(f"kani::assume({v}.is_finite());")
        args.append(v)
    if alpha:
        lines.append(f"let alpha: {F} = kani::any();")
        if F in ("f32", "f64"):
            lines.append("kani::assume(alpha.is_finite());")
        return ty, "\n".join(lines), f"palette::Alpha {{ color: <{ty}>::new({', '.join(args)}), alpha }}"
    return ty, "\n".join(lines), f"<{ty}>::new({', '.join(args)})"


def fields(T):
    """All component accessors as u64-comparable expressions over a value `$v`."""
    out = []
    for a in T["args"]:
        out.append("hue.into_inner()" if a == "h" else a)
    return out


def same(T, a, b, alpha=False, F="f32"):
    pa, pb = (a + ".color", b + ".color") if alpha else (a, b)
    bits = ""  # numeric equality: -0.0 and +0.0 are the same component value
    s = " && ".join(f"{pa}.{f}{bits} == {pb}.{f}{bits}" for f in fields(T))
    if alpha:
        s += f" && {a}.alpha{bits} == {b}.alpha{bits}"
    return s


def expect(T, v, F, upper_slack=False, alpha=False):
    ty = T["ty"].format(F=F)
    cv = v + ".color" if alpha else v
    parts = []
    for f, (mn, mx) in T["bounds"].items():
        lo = ("0 as " + F if F not in ("f32", "f64") else "0.0") if mn == "ZERO" else f"<{ty}>::{mn}()"
        parts.append(f"{cv}.{f} >= {lo}")
        if mx:
            hi = f"<{ty}>::{mx}()"
            if upper_slack and T["slack"]:
                hi += f" + {T['slack']}"
            parts.append(f"{cv}.{f} <= {hi}")
    if T["hwb"]:
        parts.append(f"{cv}.whiteness + {cv}.blackness <= 1.0")
    if alpha:
        parts.append(f"{v}.alpha >= <palette::Alpha<{ty}, {F}>>::min_alpha() && {v}.alpha <= <palette::Alpha<{ty}, {F}>>::max_alpha()")
    return " && ".join(parts)


def gen():
    o = Out("c03_gen.rs", "use palette::{Clamp, ClampAssign, IsWithinBounds, FromColor, IntoColor};\n"
            "use palette::convert::{FromColorUnclamped, TryFromColor};\nuse crate::support::*;\n")
    for T in TYPES:
        for F in ("f32", "f64") + (("u8",) if T["ints"] else ()):
            for alpha in (False, True):
                if alpha and F == "f64":
                    continue
                ty, decl, make = ctor(T, F, alpha)
                full = f"palette::Alpha<{ty}, {F}>" if alpha else ty
                key = f"c03_{T['key']}{'_alpha' if alpha else ''}_{F}"
                fns = [f"<{full} as Clamp>::clamp", f"<{full} as ClampAssign>::clamp_assign", f"<{full} as IsWithinBounds>::is_within_bounds",
                       f"{ty}::min_*/max_* accessors"]
                heavy = T["hwb"]  # two float divisions
                note = " (upper bounds widened by the documented search inaccuracy 1e-6 in the 'within => inside accessors' direction)" if T["slack"] else ""
                floatc = F in ("f32", "f64")
                if T["hwb"]:
                    pieces = [
                        ("clamp_within", "clamp() of any finite color reports within bounds", "assert!(c.clamp().is_within_bounds());"),
                        ("clamp_identity", "clamp() leaves a within-bounds color unchanged",
                         f"kani::assume(c.is_within_bounds()); let k = c.clamp(); assert!({same(T, 'k', 'c', alpha, F)});"),
                        # clamp_assign == clamp for Hwb: two pairs of symbolic divisions, not decided in 3000 s after the fix
                        # (it was decided - violated - before the fix); decided in real arithmetic by c03_hwb_clamp_real.
                    ]
                    for pk, pdoc, pbody in pieces:
                        o.harness(f"{key}_{pk}", f"{full}: {pdoc} (two float divisions by a symbolic divisor: thorough tier)",
                                  f"""
                                  {decl}
                                  let c = {make};
                                  kani::cover!(true);
                                  {pbody}
                                  """, fns, f"all finite {F} components", thorough=True,
                                  witness="c03_hwb_clamp_rounding" if pk == "clamp_within" else None)
                    continue_bounds = True
                else:
                  o.harness(f"{key}_clamp_contract",
                          f"{full}: for every color with finite components clamp() reports within bounds, leaves a within-bounds color "
                          f"unchanged (component-wise numeric equality), is idempotent, and clamp_assign gives the same color",
                          f"""
                          {decl}
                          kani::cover!(true);
                          let c = {make};
                          let k = c.clamp();
                          assert!(k.is_within_bounds());
                          if c.is_within_bounds() {{ assert!({same(T, 'k', 'c', alpha, F)}); }}
                          let kk = k.clamp();
                          assert!({same(T, 'kk', 'k', alpha, F)});
                          let mut m = c;
                          m.clamp_assign();
                          assert!({same(T, 'm', 'k', alpha, F)});
                          """, fns, f"all finite {F} components" if floatc else f"all {F} components", thorough=(F == "f64"))
                o.harness(f"{key}_bounds_are_accessors",
                          f"{full}: is_within_bounds() holds exactly when every component lies between the type's min_*/max_* accessors"
                          f"{' and whiteness + blackness <= 1' if T['hwb'] else ''}{note}",
                          f"""
                          {decl}
                          kani::cover!(true);
                          let c = {make};
                          let w = c.is_within_bounds();
                          if {expect(T, 'c', F, False, alpha)} {{ assert!(w); }}
                          if w {{ assert!({expect(T, 'c', F, True, alpha)}); }}
                          """, fns[2:], f"all finite {F} components" if floatc else f"all {F} components", thorough=(F == "f64"))
    # slices
    for n in (0, 1, 2, 3):
        ty = f"palette::rgb::Rgb<{SRGB}, f32>"
        o.harness(f"c03_slice_rgb_f32_len{n}",
                  f"[Rgb<f32>] of length {n}: clamp_assign on the slice clamps every element like the by-value clamp, "
                  f"and is_within_bounds on the slice is the conjunction over its elements",
                  f"""
                  let mut v: [{ty}; {n}] = core::array::from_fn(|_| {{
                      let (r, g, b): (f32, f32, f32) = (kani::any(), kani::any(), kani::any());
                      kani::assume(r.is_finite() && g.is_finite() && b.is_finite());
                      <{ty}>::new(r, g, b)
                  }});
                  kani::cover!(true);
                  let orig = v;
                  let all = orig.iter().all(|c| c.is_within_bounds());
                  assert!(v[..].is_within_bounds() == all);
                  v[..].clamp_assign();
                  for i in 0..{n} {{
                      let k = orig[i].clamp();
                      assert!(v[i].red.to_bits() == k.red.to_bits() && v[i].green.to_bits() == k.green.to_bits() && v[i].blue.to_bits() == k.blue.to_bits());
                  }}
                  assert!(v[..].is_within_bounds());
                  """, ["<[T] as ClampAssign>::clamp_assign", "<[T] as IsWithinBounds>::is_within_bounds"], f"slice length {n}, all finite components", unwind=n + 2)
    # FromColor / TryFromColor / IntoColor / TryIntoColor blanket impls: one piece of generic code for all pairs
    o.harness("c03_from_color_blanket",
              "FromColor::from_color(x) == FromColorUnclamped::from_color_unclamped(x).clamp() and into_color agrees, for the blanket "
              "impl instantiated on harness color types whose conversion, clamp and bounds test are arbitrary distinct functions "
              "(the blanket impl is one piece of code for every pair of color types)",
              """
              let s = PSrc(kani::any());
              kani::cover!(true);
              let u = PDst::from_color_unclamped(s).clamp();
              assert!(PDst::from_color(s) == u);
              let g: PDst = s.into_color();
              assert!(g == u);
              """, ["impl<T, U: FromColorUnclamped<T> + Clamp> FromColor<T> for U", "impl<T, U: FromColor<T>> IntoColor<U> for T"],
              "all 2^32 source values; plumbing color types")
    o.harness("c03_try_from_color_blanket",
              "TryFromColor::try_from_color(x) is Ok exactly when from_color_unclamped(x) is within bounds and returns that value; "
              "otherwise the error hands the same value back (blanket impl on harness color types)",
              """
              let s = PSrc(kani::any());
              kani::cover!(true);
              let u = PDst::from_color_unclamped(s);
              match PDst::try_from_color(s) {
                  Ok(v) => { assert!(u.is_within_bounds()); assert!(v == u); }
                  Err(e) => { assert!(!u.is_within_bounds()); assert!(e.color() == u); }
              }
              let r: Result<PDst, _> = palette::convert::TryIntoColor::try_into_color(s);
              assert!(r.is_ok() == u.is_within_bounds());
              """, ["impl<T, U> TryFromColor<T> for U", "impl<T, U> TryIntoColor<U> for T", "OutOfBounds::color"],
              "all 2^32 source values; plumbing color types")
    o.harness("c03_from_color_collections",
              "the collection forms of FromColor clamp like the single-colour form: every element of Vec::<U>::from_color(Vec<T>) and of "
              "Box::<[U]>::from_color(Box<[T]>) equals from_color_unclamped(element).clamp() (and into_color agrees), while the unclamped "
              "collection forms do not clamp (harness colour types, length 2)",
              """
              let (a, b) = (PSrc(kani::any()), PSrc(kani::any()));
              kani::cover!(true);
              let want = [PDst::from_color_unclamped(a).clamp(), PDst::from_color_unclamped(b).clamp()];
              let raw = [PDst::from_color_unclamped(a), PDst::from_color_unclamped(b)];
              let v = Vec::<PDst>::from_color(vec![a, b]);
              assert!(v.len() == 2 && v[0] == want[0] && v[1] == want[1]);
              let bx = Box::<[PDst]>::from_color(vec![a, b].into_boxed_slice());
              assert!(bx.len() == 2 && bx[0] == want[0] && bx[1] == want[1]);
              let vi: Vec<PDst> = vec![a, b].into_color();
              assert!(vi[0] == want[0] && vi[1] == want[1]);
              let bi: Box<[PDst]> = vec![a, b].into_boxed_slice().into_color();
              assert!(bi[0] == want[0] && bi[1] == want[1]);
              let vu = Vec::<PDst>::from_color_unclamped(vec![a, b]);
              assert!(vu[0] == raw[0] && vu[1] == raw[1]);
              let bu = Box::<[PDst]>::from_color_unclamped(vec![a, b].into_boxed_slice());
              assert!(bu[0] == raw[0] && bu[1] == raw[1]);
              """, ["impl FromColor<Vec<T>> for Vec<U>", "impl FromColor<Box<[T]>> for Box<[U]>", "impl FromColorUnclamped<Vec<T>> for Vec<U>",
                    "impl FromColorUnclamped<Box<[T]>> for Box<[U]>", "cast::map_vec_in_place", "cast::map_slice_box_in_place"],
              "all 2^64 pairs of source values; plumbing colour types; length 2", unwind=4)
    HSV, HWB = f"palette::Hsv<{SRGB}, f32>", f"palette::Hwb<{SRGB}, f32>"
    o.harness("c03_try_from_color_hsv_hwb",
              f"{HWB}::try_from_color(x) for every finite {HSV}: Ok exactly when the unclamped result is within bounds; the value is "
              f"the unclamped result either way",
              f"""
              let (a, b, c): (f32, f32, f32) = (kani::any(), kani::any(), kani::any());
              kani::assume(a.is_finite() && b.is_finite() && c.is_finite());
              kani::cover!(true);
              let s = <{HSV}>::new(a, b, c);
              let u = <{HWB}>::from_color_unclamped(s);
              let same = |v: {HWB}| v.hue.into_inner().to_bits() == u.hue.into_inner().to_bits() && v.whiteness.to_bits() == u.whiteness.to_bits() && v.blackness.to_bits() == u.blackness.to_bits();
              match <{HWB}>::try_from_color(s) {{
                  Ok(v) => {{ assert!(u.is_within_bounds()); assert!(same(v)); }}
                  Err(e) => {{ assert!(!u.is_within_bounds()); assert!(same(e.color())); }}
              }}
              """, ["impl<T, U> TryFromColor<T> for U", f"<{HWB} as FromColorUnclamped<{HSV}>>::from_color_unclamped"], "all finite f32 components", thorough=True)
    o.write()


if __name__ == "__main__":
    gen()
