"""C18: struct-of-arrays colour collections refine Vec<Colour<u8>> (macros/struct_of_arrays.rs, hues.rs, alpha/alpha.rs).

One harness = one (colour kind, component container, concrete length n, operation). The state is arbitrary among the valid
ones of that length (all component contents symbolic), the operation's arguments are symbolic, the model is a Vec of owned
colours built from the same items. Helpers: src/c18_support.rs."""
from common import Out

KINDS = {
    # key: owned colour alias, struct-of-arrays alias, printable type with {C}, hue?, alpha?
    "rgb": dict(own="Rgb8", soa="RgbC", ty="Rgb<Srgb, {C}>", hue=False, alpha=False),
    "rgba": dict(own="Rgba8", soa="RgbaC", ty="Alpha<Rgb<Srgb, {C}>, {C}>", hue=False, alpha=True),
    "hsv": dict(own="Hsv8", soa="HsvC", ty="Hsv<Srgb, {C}>", hue=True, alpha=False),
    "hsva": dict(own="Hsva8", soa="HsvaC", ty="Alpha<Hsv<Srgb, {C}>, {C}>", hue=True, alpha=True),
}
CONT = {"vec": "Vec<u8>", "arr": "[u8; {N}]", "slice": "&[u8]", "mslice": "&mut [u8]", "boxed": "Box<[u8]>"}

# Tier plan (measured with PV_JOBS=4): Vec forms with n <= 2 and array/slice forms with n = 2 are quick; n = 3, the array/slice
# forms with n = 0, 1, the Box<[u8]> forms (n = 2 only: borrowed iteration and get/get_mut), the general-RangeBounds drain and the
# multi-step scripts (except pop-then-extend at n = 2) are thorough.
QUICK_N = (0, 1, 2)
QUICK_N_OTHER = (2,)   # arrays / slices: the same generic get / Iter code as the Vec forms, only n = 2 in the quick tier
ALL_N = (0, 1, 2, 3)


def cty(cont, n):
    return CONT[cont].format(N=n)


def state(K, cont, n, mut=True):
    """Rust statements creating `x` (struct of arrays), `m` (model Vec) from the same n symbolic items."""
    k = KINDS[K]
    own, soa = k["own"], k["soa"]
    mm = "mut " if mut else ""
    s = [f"let items: [{own}; {n}] = sym_items();"]
    if cont == "vec":
        s.append(f"let {mm}x: {soa}<Vec<u8>> = vec_state(&items);")
    elif cont == "arr":
        s.append(f"let {mm}x: {soa}<[u8; {n}]> = array_state(&items);")
    elif cont == "boxed":
        s.append(f"let {mm}x: {soa}<Box<[u8]>> = boxed_state(&items);")
    elif cont == "slice":
        s.append(f"let (b0, b1, b2, b3) = (column(&items, 0), column(&items, 1), column(&items, 2), column(&items, 3));")
        s.append(f"let {mm}x: {soa}<&[u8]> = Soa::from_comps((&b0[..], &b1[..], &b2[..]), Some(&b3[..]));")
    else:
        s.append(f"let (mut b0, mut b1, mut b2, mut b3) = (column(&items, 0), column(&items, 1), column(&items, 2), column(&items, 3));")
        s.append(f"let {mm}x: {soa}<&mut [u8]> = Soa::from_comps((&mut b0[..], &mut b1[..], &mut b2[..]), Some(&mut b3[..]));")
    s.append(f"let {mm}m: Vec<{own}> = items.to_vec();")
    return "\n".join(s)


POST = "assert!(x.iter().len() == m.len());\ncheck_state(x, &m);\nkani::cover!(true);"
POST_DOC = ("afterwards the reported length (iter().len()) equals the model's and every component collection (hue and alpha "
            "included) has the model's length and holds the model's colours element by element")

DRAIN_ARGS = lambda n: f"""let lo: usize = kani::any();
let hi: usize = kani::any();
kani::assume(lo <= hi && hi <= {n});
let k: u8 = kani::any();
let j: u8 = kani::any();
kani::assume(k <= 2 && j <= 2);"""

DRAIN_USE = """{
    let mut dx = x.drain(lo..hi);
    let mut dm = m.drain(lo..hi);
    assert!(dx.len() == dm.len());
    if k >= 1 { step(&mut dx, &mut dm); }
    if k >= 2 { step(&mut dx, &mut dm); }
    if j >= 1 { step_back(&mut dx, &mut dm); }
    if j >= 2 { step_back(&mut dx, &mut dm); }
    assert!(dx.len() == dm.len());
}"""


def fns(K, cont, n, names):
    """@fn lines: the palette functions an operation goes through for this kind/container."""
    k = KINDS[K]
    C = {"vec": "Vec<T>", "arr": "[T; N]", "slice": "&[T]", "mslice": "&mut [T]", "boxed": "Box<[T]>"}[cont]
    base = ("Hsv" if k["hue"] else "Rgb") + f"<S, {C}>"
    out = []
    for nm in names:
        if nm in ("next", "next_back", "len", "size_hint", "count"):
            out.append(f"palette::{'hsv' if k['hue'] else 'rgb'}::Iter<I>::{nm}")
            if k["hue"]:
                out.append(f"palette::hues::RgbHueIter<I>::{nm}")
            if k["alpha"]:
                out.append(f"palette::alpha::Iter<C, A>::{nm}")
            continue
        if nm in ("extend", "from_iter"):
            tr = "Extend" if nm == "extend" else "FromIterator"
            out.append(f"<{base} as {tr}<{base.replace(C, 'T')}>>::{nm}")
            if k["hue"] and nm == "extend":
                out.append(f"<RgbHue<{C}> as Extend<T>>::extend")
            if k["alpha"]:
                out.append(f"<Alpha<{base}, {C}> as {tr}<Alpha<_, T>>>::{nm}")
            continue
        if nm in ("iter", "iter_mut", "into_iter"):
            recv = {"iter": "&", "iter_mut": "&mut ", "into_iter": ""}[nm]
            out.append(f"<{recv}{base} as IntoIterator>::into_iter" + (f" (via {base.split('<')[0]}::{nm})" if nm != "into_iter" else ""))
            if k["hue"]:
                out.append(f"<{recv}RgbHue<{C}> as IntoIterator>::into_iter")
            if k["alpha"]:
                out.append(f"<{recv}Alpha<{base}, {C}> as IntoIterator>::into_iter" + (f" (via Alpha::{nm})" if nm != "into_iter" else ""))
            continue
        out.append(f"{base}::{nm}")
        if k["hue"]:
            out.append(f"RgbHue<{C}>::{nm}")
        if k["alpha"]:
            out.append(f"Alpha<{base}, {C}>::{nm}")
    return out


def gen():
    o = Out("c18_gen.rs", "use core::ops::Bound;\nuse crate::c18_support::*;\n")

    def emit(K, cont, n, op, doc, body, fnames, bound, maxlen, thorough=None, pre=None, mut=True):
        k = KINDS[K]
        ty = k["ty"].format(C=cty(cont, n))
        name = f"c18_{K}_{cont}_n{n}_{op}"
        th = (cont == "boxed" or n not in (QUICK_N if cont == "vec" else QUICK_N_OTHER)) if thorough is None else thorough
        st = state(K, cont, n, mut) if pre is None else pre
        grows = cont == "vec" and (op in ("push", "extend") or op.startswith("script"))
        cap = "; component vectors start with capacity == length, so the first push/extend reallocates (Vec growth to capacity 8)" if grows else ""
        o.harness(name, f"{ty}, length {n}: {doc}", st + "\n" + body, fns(K, cont, n, fnames),
                  f"concrete length n = {n}; all component contents (u8) and all operation arguments symbolic; {bound}{cap}",
                  thorough=th, unwind=max(4, maxlen + 2))

    for K, k in KINDS.items():
        own, soa = k["own"], k["soa"]
        for n in ALL_N:
            # ---------------------------------------------------------------- Vec<u8>: mutating operations
            emit(K, "vec", n, "push", f"push(c) of an arbitrary colour behaves like Vec::push on the model; {POST_DOC}",
                 f"let c = {own}::sym();\nx.push(c);\nm.push(c);\n{POST}", ["push"], "one push", n + 1)
            emit(K, "vec", n, "pop", f"pop() returns what Vec::pop returns on the model (None exactly when empty); {POST_DOC}",
                 f"same_opt(x.pop(), m.pop());\n{POST}", ["pop"], "one pop", n)
            emit(K, "vec", n, "clear", f"clear() empties every component collection like Vec::clear; {POST_DOC}",
                 f"x.clear();\nm.clear();\n{POST}", ["clear"], "one clear", n)
            emit(K, "vec", n, "extend", f"extend with j <= 2 arbitrary colours (j symbolic) behaves like Vec::extend on the model; {POST_DOC}",
                 f"let src: [{own}; 2] = sym_items();\nlet j: usize = kani::any();\nkani::assume(j <= 2);\n"
                 f"x.extend(src.into_iter().take(j));\nm.extend(src.into_iter().take(j));\n{POST}",
                 ["extend"], "extend by 0, 1 or 2 colours", n + 2)
            emit(K, "vec", n, "drain",
                 "drain(lo..hi) for every valid range (lo <= hi <= n, including empty and full), consumed by k next() and then j "
                 "next_back() calls (k, j <= 2 symbolic, including calls after exhaustion) and then dropped: the same colours are "
                 f"yielded in the same order, ExactSizeIterator::len agrees before and after; {POST_DOC}",
                 f"{DRAIN_ARGS(n)}\n{DRAIN_USE}\n{POST}", ["drain", "next", "next_back", "len"],
                 "ranges restricted to lo <= hi <= n (an inverted or out-of-range drain range panics inside the first component's "
                 "Vec::drain like the model's; panics cannot be observed by the runner, so that case is not an obligation); "
                 "k, j <= 2", n)
            # ---------------------------------------------------------------- all containers: reads, writes in place, iteration
            for cont in ("vec", "arr", "slice", "mslice") + (("boxed",) if n == 2 else ()):
                mutable = cont != "slice"
                mixed = "".join("    if kani::any() { step(&mut ix, &mut im); } else { step_back(&mut ix, &mut im); }\n"
                                "    assert!(ix.len() == im.len());\n" for _ in range(n + 1))
                mixed_w = "".join(f"    if kani::any() {{ write_opt(ix.next(), im.next(), w[{i}]); }} else {{ write_opt(ix.next_back(), im.next_back(), w[{i}]); }}\n"
                                  "    assert!(ix.len() == im.len());\n" for i in range(n + 1))
                walk = "".join("    step(&mut ix, &mut im);\n    assert!(ix.len() == im.len());\n" for _ in range(n + 1))
                emit(K, cont, n, "get",
                     "get(i) for every usize i returns the model's get(i) (None exactly when i >= n); get(lo..hi) for every pair of usize "
                     "(valid, empty, full, inverted, out of range) is Some exactly when the model's is, and then every component sub-slice "
                     f"(hue and alpha included) has the model sub-slice's length and contents; {POST_DOC}",
                     "let i: usize = kani::any();\nlet lo: usize = kani::any();\nlet hi: usize = kani::any();\n"
                     f"same_opt(x.get(i), m.get(i));\nsame_opt_slice(x.get(lo..hi), m.get(lo..hi));\n{POST}",
                     ["get"], "index and range bounds unrestricted (all usize values)", n, mut=False)
                emit(K, cont, n, "iter",
                     "three walks over iter(): (1) n + 1 next() calls yield the model's colours in order (the last returns None on both "
                     "sides) with len() agreeing with the model's slice iterator at every step, size_hint() before and after the walk, and count(); "
                     "(2) iter().rev() yields them in reverse order for n + 1 calls; (3) n + 1 calls, each either next() or next_back() "
                     f"(direction symbolic per call), yield what the model's iterator yields, len() agreeing after every call; {POST_DOC}",
                     "{\n    let mut ix = x.iter();\n    let mut im = m.iter();\n    assert!(ix.len() == im.len());\n"
                     "    assert!(ix.size_hint() == im.size_hint());\n" + walk + "    assert!(ix.size_hint() == im.size_hint());\n}\n"
                     "assert!(x.iter().count() == m.iter().count());\n"
                     "{\n    let mut ix = x.iter().rev();\n    let mut im = m.iter().rev();\n    assert!(ix.len() == im.len());\n" + walk + "}\n"
                     "{\n    let mut ix = x.iter();\n    let mut im = m.iter();\n" + mixed + "}\n" + POST,
                     ["iter", "next", "next_back", "len", "size_hint", "count"],
                     "n + 1 calls per walk; every front/back interleaving in the third walk", n, mut=False)
                # owned into_iter: items are owned (Vec, array), &u8 (slices) or &mut u8 (mutable slices)
                if cont in ("vec", "arr"):
                    emit(K, cont, n, "into_iter",
                         "into_iter() (by value) yields the model's owned colours for n + 1 calls, each either next() or next_back() "
                         "(direction symbolic per call); len() agrees before and after every call; the partially or fully consumed "
                         "iterator is then dropped",
                         "{\n    let mut ix = x.into_iter();\n    let mut im = m.into_iter();\n    assert!(ix.len() == im.len());\n" + mixed
                         + "}\nkani::cover!(true);", ["into_iter", "next", "next_back", "len"], "n + 1 calls, every front/back interleaving", n, mut=False)
                elif cont == "slice":
                    emit(K, cont, n, "into_iter",
                         "into_iter() (by value, items are colours of &u8) yields the model's colours for n + 1 calls, each either next() or "
                         f"next_back() (direction symbolic per call); len() agrees before and after every call; {POST_DOC}",
                         "{\n    let mut ix = x.into_iter();\n    let mut im = m.iter();\n    assert!(ix.len() == im.len());\n" + mixed
                         + "}\n" + POST, ["into_iter", "next", "next_back", "len"], "n + 1 calls, every front/back interleaving", n, mut=False)
                if not mutable:
                    continue
                emit(K, cont, n, "get_mut",
                     "get_mut(i) for every usize i is Some exactly when the model's is, refers to the same colour, and writing an arbitrary "
                     "colour through the returned references changes exactly that element; then get_mut(lo..hi) for every pair of usize "
                     "is Some exactly when the model's is, every component sub-slice (hue and alpha included) has the model sub-slice's "
                     f"length, and writing an arbitrary colour at an arbitrary position p of the sub-slices changes exactly element lo + p; {POST_DOC}",
                     "let i: usize = kani::any();\nlet lo: usize = kani::any();\nlet hi: usize = kani::any();\nlet p: usize = kani::any();\n"
                     f"let c = {own}::sym();\nlet d = {own}::sym();\n"
                     "write_opt(x.get_mut(i), m.get_mut(i), c);\nwrite_opt_slice(x.get_mut(lo..hi), m.get_mut(lo..hi), p, d);\n" + POST,
                     ["get_mut"], "index, range bounds and write position unrestricted (all usize values); two writes", n)
                emit(K, cont, n, "iter_mut",
                     "iter_mut() consumed by n + 1 calls, each either next() or next_back() (direction symbolic per call): every yielded "
                     f"mutable colour is the model's, and an arbitrary colour written through it lands in that element only; {POST_DOC}",
                     f"let w: [{own}; {n + 1}] = sym_items();\n"
                     "{\n    let mut ix = x.iter_mut();\n    let mut im = m.iter_mut();\n    assert!(ix.len() == im.len());\n" + mixed_w
                     + "}\n" + POST, ["iter_mut", "next", "next_back", "len"], "n + 1 calls, every front/back interleaving", n + 1)
                if cont == "mslice":
                    emit(K, cont, n, "into_iter",
                         "into_iter() (by value, items are colours of &mut u8) consumed by n + 1 calls, each either next() or next_back(): "
                         "every yielded mutable colour is the model's and an arbitrary colour written through it lands in that element "
                         "only (checked on the backing arrays afterwards: all of the model's length, element-wise equal)",
                         f"let w: [{own}; {n + 1}] = sym_items();\n"
                         "{\n    let mut ix = x.into_iter();\n    let mut im = m.iter_mut();\n    assert!(ix.len() == im.len());\n" + mixed_w
                         + f"}}\nlet y: {soa}<&[u8]> = Soa::from_comps((&b0[..], &b1[..], &b2[..]), Some(&b3[..]));\ncheck_state(y, &m);\nkani::cover!(true);",
                         ["into_iter", "next", "next_back", "len"], "n + 1 calls, every front/back interleaving", n + 1)

        # -------------------------------------------------------------------- constructors (no start state)
        ty = k["ty"].format(C="Vec<u8>")
        o.harness(f"c18_{K}_vec_collect",
                  f"{ty}: collect() (FromIterator) of j <= 2 arbitrary colours (j symbolic) gives the state Vec's collect gives; {POST_DOC}",
                  f"let src: [{own}; 2] = sym_items();\nlet j: usize = kani::any();\nkani::assume(j <= 2);\n"
                  f"let x: {soa}<Vec<u8>> = src.into_iter().take(j).collect();\n"
                  f"let m: Vec<{own}> = src.into_iter().take(j).collect();\n" + POST, fns(K, "vec", 0, ["from_iter", "extend"]),
                  "0, 1 or 2 collected colours, all components symbolic", unwind=6)
        o.harness(f"c18_{K}_vec_with_capacity",
                  f"{ty}: with_capacity(4) is a valid empty state (every component collection empty), and extending it with j <= 2 "
                  f"arbitrary colours (no reallocation) behaves like the model; {POST_DOC}",
                  f"let mut x = <{soa}<Vec<u8>>>::with_capacity(4);\nlet mut m: Vec<{own}> = Vec::with_capacity(4);\n"
                  f"assert!(x.iter().len() == 0);\nlet src: [{own}; 2] = sym_items();\nlet j: usize = kani::any();\nkani::assume(j <= 2);\n"
                  "x.extend(src.into_iter().take(j));\nm.extend(src.into_iter().take(j));\n" + POST, fns(K, "vec", 0, ["with_capacity", "extend"]),
                  "capacity 4 (concrete), 0, 1 or 2 colours, all components symbolic", unwind=6)

        # -------------------------------------------------------------------- general RangeBounds / SliceIndex forms
        n = 2
        emit(K, "vec", n, "get_bounds",
             "get((start, end)) with both end points symbolic Included(v) / Excluded(v) / Unbounded (this covers .., a.., ..b, a..b, a..=b, "
             "..=b and every overflowing, inverted or out-of-range combination) is Some exactly when the model's is and denotes the same "
             f"colours; {POST_DOC}",
             "let r = (sym_bound(), sym_bound());\nsame_opt_slice(x.get(r), m.get(r));\n" + POST, ["get"],
             "every (Bound<usize>, Bound<usize>) pair", n, thorough=False, mut=False)
        emit(K, "vec", n, "drain_bounds",
             "drain((start, end)) with both end points symbolic Included(v) / Excluded(v) / Unbounded, restricted to pairs that denote a valid "
             "range of the collection, consumed by k next() and j next_back() calls (k, j <= 2) and dropped: same colours yielded, len agrees; "
             f"{POST_DOC}",
             "let r = (sym_bound(), sym_bound());\nkani::assume(resolve(r, 2).is_some());\n"
             "let k: u8 = kani::any();\nlet j: u8 = kani::any();\nkani::assume(k <= 2 && j <= 2);\n"
             + DRAIN_USE.replace("lo..hi", "r") + "\n" + POST, ["drain", "next", "next_back", "len"],
             "every (Bound<usize>, Bound<usize>) pair denoting start <= end <= n without overflow (others panic in Vec::drain on both sides; "
             "not observable by the runner); k, j <= 2", n, thorough=K not in ("rgba", "hsva"))

        # -------------------------------------------------------------------- multi-step scripts
        for n in (2, 3):
            th = n == 3
            emit(K, "vec", n, "script_drain_push",
                 "two steps: a drain(lo..hi) (valid range) consumed by k next() and j next_back() calls (k, j <= 2) and dropped, then push(c): "
                 f"same colours yielded; {POST_DOC}",
                 f"{DRAIN_ARGS(n)}\nlet c = {own}::sym();\n{DRAIN_USE}\nx.push(c);\nm.push(c);\n{POST}",
                 ["drain", "next", "next_back", "len", "push"], "lo <= hi <= n; k, j <= 2; 2 steps", n + 1, thorough=True)
            emit(K, "vec", n, "script_pop_extend",
                 f"two steps: pop() then extend with j <= 2 arbitrary colours: same colour popped; {POST_DOC}",
                 f"let src: [{own}; 2] = sym_items();\nlet j: usize = kani::any();\nkani::assume(j <= 2);\n"
                 f"same_opt(x.pop(), m.pop());\nx.extend(src.into_iter().take(j));\nm.extend(src.into_iter().take(j));\n{POST}",
                 ["pop", "extend"], "j <= 2; 2 steps", n + 2, thorough=th)
            emit(K, "vec", n, "script_push_drain_iter",
                 "three steps: push(c), then drain(lo..hi) over the grown collection (lo <= hi <= n + 1) consumed by k next() and j "
                 "next_back() calls (k, j <= 2) and dropped, then a full iter() walk (n + 2 next() calls): same colours yielded by both "
                 f"iterators, len agrees; {POST_DOC}",
                 f"{DRAIN_ARGS(n + 1)}\nlet c = {own}::sym();\nx.push(c);\nm.push(c);\n{DRAIN_USE}\n"
                 "{\n    let mut ix = x.iter();\n    let mut im = m.iter();\n    assert!(ix.len() == im.len());\n"
                 + "".join("    step(&mut ix, &mut im);\n" for _ in range(n + 2)) + "}\n" + POST,
                 ["push", "drain", "iter", "next", "next_back", "len"], "lo <= hi <= n + 1; k, j <= 2; 3 steps", n + 1, thorough=True)
    o.write()


if __name__ == "__main__":
    gen()
