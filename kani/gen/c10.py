"""C10 (agreement part): for every operator the by-value, assigning, slice, Alpha and PreAlpha forms give exactly the same colour
(macros/{mix,lighten_saturate,hue,arithmetics,clamp,color_theory}.rs, lib.rs blanket/[T] impls, alpha/alpha.rs, blend/pre_alpha.rs).
Decided over the plumbing component type W (c10_support.rs); a few f32 instances in the thorough tier."""
from common import Out
import textwrap

SRGB = "palette::encoding::Srgb"
D65 = "palette::white_point::D65"


def t(key, ty, ctor, fields, hue=None, mix="plain", lighten=True, saturate=False, arith="asmd", lab=None, pre=False, fam=""):
    return dict(key=key, ty=ty, ctor=ctor, fields=fields, hue=hue, mix=mix, lighten=lighten, saturate=saturate, arith=arith, lab=lab, pre=pre, fam=fam)


TYPES = [
    t("rgb", f"palette::rgb::Rgb<{SRGB}, {{F}}>", "new", ["red", "green", "blue"], pre=True),
    t("luma", f"palette::luma::Luma<{SRGB}, {{F}}>", "new", ["luma"], pre=True),
    t("xyz", f"palette::Xyz<{D65}, {{F}}>", "new", ["x", "y", "z"], pre=True),
    t("yxy", f"palette::Yxy<{D65}, {{F}}>", "new", ["x", "y", "luma"], pre=True),
    t("lab", f"palette::Lab<{D65}, {{F}}>", "new", ["l", "a", "b"], lab=("a", "b"), pre=True),
    t("luv", f"palette::Luv<{D65}, {{F}}>", "new", ["l", "u", "v"], lab=("u", "v"), pre=True),
    t("oklab", "palette::Oklab<{F}>", "new", ["l", "a", "b"], lab=("a", "b"), pre=True),
    t("lms", f"palette::lms::VonKriesLms<{D65}, {{F}}>", "new", ["long", "medium", "short"], lighten=False, pre=True),
    t("cam16ucsjab", "palette::cam16::Cam16UcsJab<{F}>", "new", ["lightness", "a", "b"], lab=("a", "b"), pre=True),
    t("lch", f"palette::Lch<{D65}, {{F}}>", "new_const", ["l", "chroma", "hue"], hue="palette::LabHue", mix="hue", saturate=True, arith="as"),
    t("lchuv", f"palette::Lchuv<{D65}, {{F}}>", "new_const", ["l", "chroma", "hue"], hue="palette::LuvHue", mix="hue", saturate=True, arith="as"),
    t("oklch", "palette::Oklch<{F}>", "new_const", ["l", "chroma", "hue"], hue="palette::OklabHue", mix="hue", arith="as"),
    t("cam16ucsjmh", "palette::cam16::Cam16UcsJmh<{F}>", "new_const", ["lightness", "colorfulness", "hue"], hue="palette::hues::Cam16Hue",
      mix="hue", saturate=True, arith="as"),
    t("cam16jch", "palette::cam16::Cam16Jch<{F}>", "new_const", ["lightness", "chroma", "hue"], hue="palette::hues::Cam16Hue",
      mix="hue", lighten=False, arith="as"),
    t("hsv", f"palette::Hsv<{SRGB}, {{F}}>", "new_const", ["hue", "saturation", "value"], hue="palette::RgbHue", mix="hue", saturate=True, arith="as"),
    t("hsl", f"palette::Hsl<{SRGB}, {{F}}>", "new_const", ["hue", "saturation", "lightness"], hue="palette::RgbHue", mix="hue", saturate=True, arith="as"),
    t("hsluv", f"palette::Hsluv<{D65}, {{F}}>", "new_const", ["hue", "saturation", "l"], hue="palette::LuvHue", mix="hue", saturate=True, arith="as"),
    t("okhsv", "palette::Okhsv<{F}>", "new_const", ["hue", "saturation", "value"], hue="palette::OklabHue", mix="hue", saturate=True, arith="as"),
    t("okhsl", "palette::Okhsl<{F}>", "new_const", ["hue", "saturation", "lightness"], hue="palette::OklabHue", mix="hue", saturate=True, arith="as"),
    t("hwb", f"palette::Hwb<{SRGB}, {{F}}>", "new_const", ["hue", "whiteness", "blackness"], hue="palette::RgbHue", mix="hue", arith="as"),
    t("okhwb", "palette::Okhwb<{F}>", "new_const", ["hue", "whiteness", "blackness"], hue="palette::OklabHue", mix="hue", arith="as"),
]

OPS = {"a": ("add", "+", "Add", "AddAssign", "add_assign"), "s": ("sub", "-", "Sub", "SubAssign", "sub_assign"),
       "m": ("mul", "*", "Mul", "MulAssign", "mul_assign"), "d": ("div", "/", "Div", "DivAssign", "div_assign")}


def helpers(T, F):
    """`any_<key>_<F>()` and `eq_<key>_<F>(a, b)` for the type."""
    ty = T["ty"].format(F=F)
    k = f"{T['key']}_{F.lower()}"
    args = ", ".join(f"{T['hue']}::new(kani::any::<{F}>())" if f == "hue" else f"kani::any::<{F}>()" for f in T["fields"])
    if F == "W":
        cmp = " && ".join(f"a.hue.into_inner().0 == b.hue.into_inner().0" if f == "hue" else f"a.{f}.0 == b.{f}.0" for f in T["fields"])
        fin = "true"
    else:
        cmp = " && ".join(f"a.hue.into_inner().to_bits() == b.hue.into_inner().to_bits()" if f == "hue" else f"a.{f}.to_bits() == b.{f}.to_bits()"
                          for f in T["fields"])
        fin = " && ".join(f"c.hue.into_inner().is_finite()" if f == "hue" else f"c.{f}.is_finite()" for f in T["fields"])
    return (f"pub fn any_{k}() -> {ty} {{\n    let c = <{ty}>::{T['ctor']}({args});\n    kani::assume({fin});\n    c\n}}\n"
            f"pub fn eq_{k}(a: &{ty}, b: &{ty}) -> bool {{\n    {cmp}\n}}\n")


WDOC = ("Component type W (c10_support.rs: integer order and clamp, scrambled + * / without ring identities), so the forms agree only if they "
        "apply the same operations to the same operands in the same order - which carries over bit for bit to f32/f64")
WBOUND = "all colours, factors and amounts over W (16-bit components, all 2^16 values each)"


def gen():
    o = Out("c10_gen.rs", "use palette::{Alpha, Clamp, ClampAssign, Darken, DarkenAssign, Desaturate, DesaturateAssign, GetHue, Lighten, LightenAssign, Mix, MixAssign,\n"
            "    Saturate, SaturateAssign, SetHue, ShiftHue, ShiftHueAssign, WithHue};\n"
            "use palette::blend::PreAlpha;\nuse palette::color_theory::{Analogous, Complementary, SplitComplementary, Tetradic, Triadic};\n"
            "use palette::num::{One, Real, Zero};\nuse crate::c10_support::*;\n")
    for T in TYPES:
        o.parts.append(helpers(T, "W"))
    F32 = [T for T in TYPES if T["key"] in ("rgb", "luma", "hsv", "lab", "hwb", "hsl")]
    for T in F32:
        o.parts.append(helpers(T, "f32"))

    def emit(T, F, thorough=False, only=None):
        ty = T["ty"].format(F=F)
        k = f"{T['key']}_{F.lower()}"
        key = f"c10_{T['key']}" if F == "W" else f"c10_{T['key']}_f32"
        eq, anyc = f"eq_{k}", f"any_{k}()"
        if F == "W":
            doc, bound = WDOC, WBOUND
            seq = lambda a, b: f"{a}.0 == {b}.0"
            anys = "kani::any::<W>()"
            fin = lambda v: ""
        else:
            doc = "Component type f32, bit-for-bit comparison (to_bits) of every component"
            bound = "all finite f32 colours, factors and amounts"
            seq = lambda a, b: f"{a}.to_bits() == {b}.to_bits()"
            anys = "kani::any::<f32>()"
            fin = lambda v: f"kani::assume({v}.is_finite());"
        head = f"""
            let x = {anyc};
            let y = {anyc};
            let xa: {F} = {anys};
            let ya: {F} = {anys};
            {fin('xa')} {fin('ya')}
            let ax = Alpha {{ color: x, alpha: xa }};
            let ay = Alpha {{ color: y, alpha: ya }};
        """

        def H(name, text, body, fns, unwind=None):
            if only and name not in only:
                return
            code = textwrap.dedent(head).strip() + "\n" + textwrap.dedent(body).strip()
            code = "\n".join(l.strip() for l in code.splitlines() if l.strip())
            o.harness(f"{key}_{name}", f"{ty}: {text}. {doc}", code, fns, bound, thorough=thorough, unwind=unwind)

        # ---- Mix
        pre = ""
        if T["pre"]:
            pre = f"""
                let px = PreAlpha {{ color: x, alpha: xa }};
                let py = PreAlpha {{ color: y, alpha: ya }};
                let pv = px.mix(py, f);
                assert!({eq}(&pv.color, &v) && {seq('pv.alpha', 'av.alpha')});
                let mut pm = px;
                pm.mix_assign(py, f);
                assert!({eq}(&pm.color, &v) && {seq('pm.alpha', 'av.alpha')});
            """
        H("mix", "x.mix(y, f), mix_assign, the colour of Alpha::mix / mix_assign" + (" and of PreAlpha::mix / mix_assign" if T["pre"] else "")
          + " are the same colour; all alpha forms give alpha = xa + (ya - xa) * clamp(f, 0, 1) (alpha is mixed like a colour component)",
          f"""
            let f: {F} = {anys};
            {fin('f')}
            kani::cover!(true);
            let v = x.mix(y, f);
            let mut m = x;
            m.mix_assign(y, f);
            assert!({eq}(&m, &v));
            let av = ax.mix(ay, f);
            let fc = palette::num::Clamp::clamp(f, <{F} as Zero>::zero(), <{F} as One>::one());
            assert!({eq}(&av.color, &v) && {seq('av.alpha', '(xa + (ya - xa) * fc)')});
            let mut am = ax;
            am.mix_assign(ay, f);
            assert!({eq}(&am.color, &v) && {seq('am.alpha', 'av.alpha')});
            {pre}
          """, [f"<{ty} as Mix>::mix", f"<{ty} as MixAssign>::mix_assign", "<Alpha<C, T> as Mix/MixAssign>"]
          + (["<PreAlpha<C> as Mix/MixAssign>"] if T["pre"] else []))

        # ---- Lighten / Darken, Saturate / Desaturate
        for on, up, down, Up, Down in ((T["lighten"], "lighten", "darken", "Lighten", "Darken"), (T["saturate"], "saturate", "desaturate", "Saturate", "Desaturate")):
            if not on:
                continue
            for fixed in ("", "_fixed"):
                u, d = up + fixed, down + fixed
                ua, da = f"{up}{fixed}_assign", f"{down}{fixed}_assign"
                H(u, f"{u}(f), {ua}, the slice form (<[T]>::{ua} on two colours), Alpha::{u} / {ua} (colour equal, alpha untouched) give the same "
                  f"colour; {d}(f) == {u}(-f) in all forms ({d}, {da}, slice, Alpha)",
                  f"""
                    let f: {F} = {anys};
                    {fin('f')}
                    kani::cover!(true);
                    let v = x.{u}(f);
                    let w = y.{u}(f);
                    let mut m = x;
                    m.{ua}(f);
                    assert!({eq}(&m, &v));
                    let mut s = [x, y];
                    s[..].{ua}(f);
                    assert!({eq}(&s[0], &v) && {eq}(&s[1], &w));
                    let av = ax.{u}(f);
                    assert!({eq}(&av.color, &v) && {seq('av.alpha', 'xa')});
                    let mut am = ax;
                    am.{ua}(f);
                    assert!({eq}(&am.color, &v) && {seq('am.alpha', 'xa')});
                    let n = x.{u}(-f);
                    let nw = y.{u}(-f);
                    assert!({eq}(&x.{d}(f), &n));
                    let mut dm = x;
                    dm.{da}(f);
                    assert!({eq}(&dm, &n));
                    let mut ds = [x, y];
                    ds[..].{da}(f);
                    assert!({eq}(&ds[0], &n) && {eq}(&ds[1], &nw));
                    let dv = ax.{d}(f);
                    assert!({eq}(&dv.color, &n) && {seq('dv.alpha', 'xa')});
                    let mut dam = ax;
                    dam.{da}(f);
                    assert!({eq}(&dam.color, &n) && {seq('dam.alpha', 'xa')});
                  """, [f"<{ty} as {Up}>::{u}", f"<{ty} as {Up}Assign>::{ua}", f"<[T] as {Up}Assign>::{ua}", f"<T as {Down}>::{d}", f"<T as {Down}Assign>::{da}",
                        f"<Alpha<C, T> as {Up}/{Up}Assign>"], unwind=3)

        # ---- hue operators
        if T["hue"]:
            Hn = T["hue"]
            hv = (lambda e: f"{e}.into_inner().0") if F == "W" else (lambda e: f"{e}.into_inner().to_bits()")
            H("hue_ops", "shift_hue(a), shift_hue_assign, the slice form and Alpha::shift_hue / shift_hue_assign give the same colour (alpha untouched); "
              "with_hue(h), set_hue, the slice form and the Alpha forms give the same colour, for a hue and for a bare component as argument; "
              "get_hue of the colour and of the Alpha is the hue component",
              f"""
                let a: {F} = {anys};
                let h: {F} = {anys};
                {fin('a')} {fin('h')}
                kani::cover!(true);
                let v = x.shift_hue(a);
                let w = y.shift_hue(a);
                let mut m = x;
                m.shift_hue_assign(a);
                assert!({eq}(&m, &v));
                let mut s = [x, y];
                s[..].shift_hue_assign(a);
                assert!({eq}(&s[0], &v) && {eq}(&s[1], &w));
                let av = ax.shift_hue(a);
                assert!({eq}(&av.color, &v) && {seq('av.alpha', 'xa')});
                let mut am = ax;
                am.shift_hue_assign(a);
                assert!({eq}(&am.color, &v) && {seq('am.alpha', 'xa')});
                let hh = {Hn}::new(h);
                let v = x.with_hue(hh);
                let w = y.with_hue(hh);
                assert!({hv('v.hue')} == {hv('hh')});
                assert!({eq}(&x.with_hue(h), &v));
                let mut m = x;
                m.set_hue(hh);
                assert!({eq}(&m, &v));
                let mut m2 = x;
                m2.set_hue(h);
                assert!({eq}(&m2, &v));
                let mut s = [x, y];
                s[..].set_hue(hh);
                assert!({eq}(&s[0], &v) && {eq}(&s[1], &w));
                let av = ax.with_hue(hh);
                assert!({eq}(&av.color, &v) && {seq('av.alpha', 'xa')});
                let mut am = ax;
                am.set_hue(hh);
                assert!({eq}(&am.color, &v) && {seq('am.alpha', 'xa')});
                assert!({hv('x.get_hue()')} == {hv('x.hue')});
                assert!({hv('ax.get_hue()')} == {hv('x.hue')});
              """, [f"<{ty} as ShiftHue/ShiftHueAssign/WithHue/SetHue/GetHue>", "<[T] as ShiftHueAssign>::shift_hue_assign", "<[T] as SetHue<H>>::set_hue",
                    "<Alpha<C, T> as ShiftHue/ShiftHueAssign/WithHue/SetHue/GetHue>"], unwind=3)
            sh = lambda deg: f"x.shift_hue(<{F} as Real>::from_f64({deg}.0))"
            H("color_schemes", "complementary, split_complementary, analogous, analogous_secondary, triadic and tetradic of Alpha<C> give the colours "
              "of the same helper on the bare colour with alpha untouched, and every helper colour is shift_hue by the documented angle "
              "(180; 150, 210; 330, 30; 300, 60; 120, 240; 90, 180, 270)",
              f"""
                kani::cover!(true);
                let c = x.complementary();
                assert!({eq}(&c, &{sh(180)}));
                let ac = ax.complementary();
                assert!({eq}(&ac.color, &c) && {seq('ac.alpha', 'xa')});
                let (p, q) = x.split_complementary();
                assert!({eq}(&p, &{sh(150)}) && {eq}(&q, &{sh(210)}));
                let (ap, aq) = ax.split_complementary();
                assert!({eq}(&ap.color, &p) && {eq}(&aq.color, &q) && {seq('ap.alpha', 'xa')} && {seq('aq.alpha', 'xa')});
                let (p, q) = x.analogous();
                assert!({eq}(&p, &{sh(330)}) && {eq}(&q, &{sh(30)}));
                let (ap, aq) = ax.analogous();
                assert!({eq}(&ap.color, &p) && {eq}(&aq.color, &q) && {seq('ap.alpha', 'xa')} && {seq('aq.alpha', 'xa')});
                let (p, q) = x.analogous_secondary();
                assert!({eq}(&p, &{sh(300)}) && {eq}(&q, &{sh(60)}));
                let (ap, aq) = ax.analogous_secondary();
                assert!({eq}(&ap.color, &p) && {eq}(&aq.color, &q) && {seq('ap.alpha', 'xa')} && {seq('aq.alpha', 'xa')});
                let (p, q) = x.triadic();
                assert!({eq}(&p, &{sh(120)}) && {eq}(&q, &{sh(240)}));
                let (ap, aq) = ax.triadic();
                assert!({eq}(&ap.color, &p) && {eq}(&aq.color, &q) && {seq('ap.alpha', 'xa')} && {seq('aq.alpha', 'xa')});
                let (p, q, r) = x.tetradic();
                assert!({eq}(&p, &{sh(90)}) && {eq}(&q, &{sh(180)}) && {eq}(&r, &{sh(270)}));
                let (ap, aq, ar) = ax.tetradic();
                assert!({eq}(&ap.color, &p) && {eq}(&aq.color, &q) && {eq}(&ar.color, &r));
                assert!({seq('ap.alpha', 'xa')} && {seq('aq.alpha', 'xa')} && {seq('ar.alpha', 'xa')});
              """, ["palette::color_theory::{Complementary, SplitComplementary, Analogous, Triadic, Tetradic} (blanket impls over ShiftHue)",
                    "<Alpha<C, T> as ShiftHue>::shift_hue"])
        if T["lab"]:
            a, b = T["lab"]
            others = [f for f in T["fields"] if f not in (a, b)]
            keep = lambda v: " && ".join(seq(f"{v}.{f}", f"x.{f}") for f in others)
            H("color_schemes", f"complementary and tetradic (impl_lab_color_schemes!) of Alpha<C> give the colours of the helper on the bare colour with alpha "
              f"untouched; complementary negates {a} and {b}, tetradic is ((-{b}, {a}), (-{a}, -{b}), ({b}, -{a})), other components untouched",
              f"""
                kani::cover!(true);
                let c = x.complementary();
                assert!({seq(f'c.{a}', f'(-x.{a})')} && {seq(f'c.{b}', f'(-x.{b})')} && {keep('c')});
                let ac = ax.complementary();
                assert!({eq}(&ac.color, &c) && {seq('ac.alpha', 'xa')});
                let (p, q, r) = x.tetradic();
                assert!({seq(f'p.{a}', f'(-x.{b})')} && {seq(f'p.{b}', f'x.{a}')} && {keep('p')});
                assert!({eq}(&q, &c));
                assert!({seq(f'r.{a}', f'(-(-x.{b}))')} && {seq(f'r.{b}', f'(-x.{a})')} && {keep('r')});
                let (ap, aq, ar) = ax.tetradic();
                assert!({eq}(&ap.color, &p) && {eq}(&aq.color, &q) && {eq}(&ar.color, &r));
                assert!({seq('ap.alpha', 'xa')} && {seq('aq.alpha', 'xa')} && {seq('ar.alpha', 'xa')});
              """, [f"<{ty} as Complementary>::complementary", f"<{ty} as Tetradic>::tetradic", "<Alpha<C, A> as Complementary/Tetradic> (impl_lab_color_schemes!)"])

        # ---- Clamp
        aty = f"Alpha<{ty}, {F}>"
        H("clamp", "clamp(), clamp_assign, the slice form and the colour of Alpha::clamp / clamp_assign give the same colour; Alpha clamps alpha to "
          "[min_alpha(), max_alpha()] in both forms",
          f"""
            kani::cover!(true);
            let v = x.clamp();
            let w = y.clamp();
            let mut m = x;
            m.clamp_assign();
            assert!({eq}(&m, &v));
            let mut s = [x, y];
            s[..].clamp_assign();
            assert!({eq}(&s[0], &v) && {eq}(&s[1], &w));
            let av = ax.clamp();
            let ca = palette::num::Clamp::clamp(xa, <{aty}>::min_alpha(), <{aty}>::max_alpha());
            assert!({eq}(&av.color, &v) && {seq('av.alpha', 'ca')});
            let mut am = ax;
            am.clamp_assign();
            assert!({eq}(&am.color, &v) && {seq('am.alpha', 'ca')});
          """, [f"<{ty} as Clamp>::clamp", f"<{ty} as ClampAssign>::clamp_assign", "<[T] as ClampAssign>::clamp_assign", "<Alpha<C, T> as Clamp/ClampAssign>"],
          unwind=3)

        # ---- component arithmetic
        for code in T["arith"]:
            name, sym, Tr, TrA, fa = OPS[code]
            pre = ""
            if T["pre"]:
                pre = f"""
                    let px = PreAlpha {{ color: x, alpha: xa }};
                    let py = PreAlpha {{ color: y, alpha: ya }};
                    let pv = px {sym} py;
                    assert!({eq}(&pv.color, &v) && {seq('pv.alpha', f'(xa {sym} ya)')});
                    let mut pm = px;
                    pm {sym}= py;
                    assert!({eq}(&pm.color, &v) && {seq('pm.alpha', f'(xa {sym} ya)')});
                """
            H(name, f"x {sym} y, x {sym}= y, Alpha {sym} Alpha / {sym}= (colour equal, alpha = alpha {sym} alpha)"
              + (f", PreAlpha {sym} PreAlpha / {sym}=" if T["pre"] else "")
              + f" and the scalar forms x {sym} c, x {sym}= c, Alpha {sym} c / {sym}= c (alpha = alpha {sym} c) give the same colour",
              f"""
                let c: {F} = {anys};
                {fin('c')}
                kani::cover!(true);
                let v = x {sym} y;
                let mut m = x;
                m {sym}= y;
                assert!({eq}(&m, &v));
                let av = ax {sym} ay;
                assert!({eq}(&av.color, &v) && {seq('av.alpha', f'(xa {sym} ya)')});
                let mut am = ax;
                am {sym}= ay;
                assert!({eq}(&am.color, &v) && {seq('am.alpha', f'(xa {sym} ya)')});
                {pre}
                let v = x {sym} c;
                let mut m = x;
                m {sym}= c;
                assert!({eq}(&m, &v));
                let av = ax {sym} c;
                assert!({eq}(&av.color, &v) && {seq('av.alpha', f'(xa {sym} c)')});
                let mut am = ax;
                am {sym}= c;
                assert!({eq}(&am.color, &v) && {seq('am.alpha', f'(xa {sym} c)')});
              """, [f"<{ty} as core::ops::{Tr}<Self>/{Tr}<T>/{TrA}<Self>/{TrA}<T>>", f"<Alpha<C, T> as core::ops::{Tr}/{TrA}>"]
              + ([f"<PreAlpha<C> as core::ops::{Tr}/{TrA}>"] if T["pre"] else []))

    for T in TYPES:
        emit(T, "W")
    # ---- f32 instances (thorough tier). Cheap groups (adds, comparisons) whole; anything with a multiply as one pair of forms per harness.
    BY = {T["key"]: T for T in TYPES}
    pick = {"rgb": {"add", "sub", "clamp"}, "hsv": {"hue_ops", "color_schemes", "clamp"}, "lab": {"color_schemes"}}
    for k, names in pick.items():
        emit(BY[k], "f32", thorough=True, only=names)

    FDOC = "Component type f32, bit-for-bit comparison (to_bits) of every component; one pair of forms per harness (two copies of a float multiplier circuit)"
    FB = "all finite f32 colours, factors and amounts"

    def K(key, name, text, body, fns, unwind=None):
        T = BY[key]
        ty = T["ty"].format(F="f32")
        kk = f"{key}_f32"
        o.harness(f"c10_{key}_f32_{name}", f"{ty}: {text}. {FDOC}", f"""
            let x = any_{kk}();
            let y = any_{kk}();
            let f: f32 = kani::any();
            kani::assume(f.is_finite());
            kani::cover!(true);
            """ + "\n".join(l.strip() for l in body.replace("EQ", f"eq_{kk}").splitlines()), [f.replace("TY", ty) for f in fns], FB, thorough=True, unwind=unwind)

    for key in ("luma", "hsv", "hwb"):
        K(key, "lighten_vs_assign", "lighten(f) and lighten_assign(f) give the same colour",
          "let v = x.lighten(f); let mut m = x; m.lighten_assign(f); assert!(EQ(&m, &v));", ["<TY as Lighten>::lighten", "<TY as LightenAssign>::lighten_assign"])
        K(key, "lighten_fixed_vs_assign", "lighten_fixed(f) and lighten_fixed_assign(f) give the same colour",
          "let v = x.lighten_fixed(f); let mut m = x; m.lighten_fixed_assign(f); assert!(EQ(&m, &v));",
          ["<TY as Lighten>::lighten_fixed", "<TY as LightenAssign>::lighten_fixed_assign"])
    K("luma", "lighten_vs_alpha", "lighten(f) and the colour of Alpha::lighten(f) / lighten_assign(f) are the same, alpha untouched",
      """let a: f32 = kani::any(); kani::assume(a.is_finite());
         let v = x.lighten(f); let ax = Alpha { color: x, alpha: a };
         let av = ax.lighten(f); assert!(EQ(&av.color, &v) && av.alpha.to_bits() == a.to_bits());
         let mut am = ax; am.lighten_assign(f); assert!(EQ(&am.color, &v) && am.alpha.to_bits() == a.to_bits());""",
      ["<TY as Lighten>::lighten", "<Alpha<C, T> as Lighten/LightenAssign>"])
    K("luma", "darken_vs_lighten", "darken(f) == lighten(-f) and darken_assign(f) gives the same colour",
      "let n = x.lighten(-f); assert!(EQ(&x.darken(f), &n)); let mut m = x; m.darken_assign(f); assert!(EQ(&m, &n));",
      ["<T as Darken>::darken", "<T as DarkenAssign>::darken_assign", "<TY as Lighten>::lighten"])
    for key in ("hsl",):
        K(key, "saturate_vs_assign", "saturate(f) and saturate_assign(f) give the same colour",
          "let v = x.saturate(f); let mut m = x; m.saturate_assign(f); assert!(EQ(&m, &v));", ["<TY as Saturate>::saturate", "<TY as SaturateAssign>::saturate_assign"])
    K("hsv", "desaturate_vs_saturate", "desaturate(f) == saturate(-f)",
      "let n = x.saturate(-f); assert!(EQ(&x.desaturate(f), &n));", ["<T as Desaturate>::desaturate", "<TY as Saturate>::saturate"])
    for key in ("luma",):
        K(key, "mix_vs_assign", "x.mix(y, f) and mix_assign give the same colour",
          "let v = x.mix(y, f); let mut m = x; m.mix_assign(y, f); assert!(EQ(&m, &v));", ["<TY as Mix>::mix", "<TY as MixAssign>::mix_assign"])
    for name, sym in (("add", "+"), ("sub", "-")):
        K("luma", f"prealpha_scalar_{name}", f"PreAlpha {sym} c and PreAlpha {sym}= c (scalar forms exist for f32/f64 only) give the colour of x {sym} c and alpha {sym} c",
          f"""let a: f32 = kani::any(); kani::assume(a.is_finite());
             let v = x {sym} f; let px = PreAlpha {{ color: x, alpha: a }};
             let pv = px {sym} f; assert!(EQ(&pv.color, &v) && pv.alpha.to_bits() == (a {sym} f).to_bits());
             let mut pm = px; pm {sym}= f; assert!(EQ(&pm.color, &v) && pm.alpha.to_bits() == (a {sym} f).to_bits());""",
          ["<PreAlpha<C> as core::ops::{Add, Sub, Mul, Div}<f32>>", "<PreAlpha<C> as core::ops::{AddAssign, SubAssign, MulAssign, DivAssign}<f32>>"])
    o.write()
