"""C06: one harness per obligation x ordered pair of component formats (palette/src/stimulus.rs)."""
from common import Out

UINTS = ["u8", "u16", "u32", "u64", "u128"]
BITS = {"u8": 8, "u16": 16, "u32": 32, "u64": 64, "u128": 128}
FLOATS = ["f32", "f64"]


def mult_type(f, u):
    """The float format the code forms value*MAX in."""
    return "f32" if (f == "f32" and u in ("u8", "u16")) else "f64"


# Harnesses whose SAT instance needs minutes (two symbolic float multiplications / a float division by a
# non-power-of-two constant): thorough tier only.  Measured times are in DESIGN.md section 9.
# Not emitted: SAT instance not decided within 3000 s (cadical, this sandbox) -> outside the claim, see DESIGN.md section 9.
DISABLED = {
    "c06_f64_u16_monotone", "c06_f64_u16_monotone_adj", "c06_f64_u32_monotone", "c06_f64_u32_monotone_adj",
    "c06_u64_u16_monotone", "c06_u64_u32_monotone", "c06_u128_u16_monotone", "c06_u128_u32_monotone",
    # dominated by a cheaper equivalent form that is kept:
    "c06_f32_u32_monotone", "c06_f32_u16_monotone_adj",
}
THOROUGH = {
    "c06_f32_u16_monotone", "c06_f32_u32_monotone", "c06_f32_u32_nearest", "c06_f32_u32_monotone_adj", "c06_f32_u16_monotone_adj",
    "c06_f64_u16_monotone", "c06_f64_u32_monotone", "c06_f64_u32_nearest", "c06_f64_u16_monotone_adj", "c06_f64_u32_monotone_adj",
    "c06_u32_f64_u32_roundtrip", "c06_u32_u16_monotone", "c06_u64_u16_monotone", "c06_u64_u32_monotone",
    "c06_u128_u16_monotone", "c06_u128_u32_monotone", "c06_u32_u64_u32_roundtrip", "c06_u32_u128_u32_roundtrip",
}


class O(Out):
    def harness(self, name, *a, **k):
        if name in DISABLED:
            return
        k.setdefault("thorough", name in THOROUGH)
        super().harness(name, *a, **k)


def gen():
    o = O("c06_gen.rs", "use crate::support::*;\nuse palette::stimulus::IntoStimulus;\n")
    for f in FLOATS:
        nbits = "2^32" if f == "f32" else "2^64"
        for u in UINTS:
            m = mult_type(f, u)
            fn = [f"<{f} as palette::stimulus::IntoStimulus<{u}>>::into_stimulus"]
            o.harness(f"c06_{f}_{u}_saturate",
                      f"{f} -> {u}: every x <= 0 (incl. -inf, -0.0) gives 0; every x >= 1, +inf and NaN give MAX",
                      f"""
                      let x: {f} = kani::any();
                      kani::cover!(true);
                      let y: {u} = x.into_stimulus();
                      if x <= 0.0 {{ assert!(y == 0); }}
                      if x >= 1.0 || x.is_nan() {{ assert!(y == {u}::MAX); }}
                      """, fn, f"all {nbits} {f} bit patterns")
            big = u in ("u64", "u128")
            tail = (f"if p >= 4503599627370496.0 {{ assert!(y == p as {u}); }} else {{ assert!((y as {m} - p).abs() <= 0.5); }}"
                    if big else f"assert!((y as {m} - p).abs() <= 0.5);")
            o.harness(f"c06_{f}_{u}_nearest",
                      f"{f} -> {u}: for x in [0,1] the result is a nearest integer to the product x*MAX formed in {m} "
                      f"(|y - p| <= 1/2" + ("; p >= 2^52 is already an integer and must be returned exactly)" if big else ")"),
                      f"""
                      let x: {f} = kani::any();
                      kani::assume(x >= 0.0 && x <= 1.0);
                      kani::cover!(true);
                      let y: {u} = x.into_stimulus();
                      let p = (x as {m}) * ({u}::MAX as {m});
                      {tail}
                      """, fn, f"all {f} in [0,1]")
            o.harness(f"c06_{f}_{u}_monotone",
                      f"{f} -> {u}: monotone non-decreasing over all ordered pairs a <= b (infinities included)",
                      f"""
                      let a: {f} = kani::any();
                      let b: {f} = kani::any();
                      kani::assume(a <= b);
                      kani::cover!(true);
                      let ya: {u} = a.into_stimulus();
                      let yb: {u} = b.into_stimulus();
                      assert!(ya <= yb);
                      """, fn, f"all pairs of non-NaN {f}")
            if u in ("u16", "u32"):
                o.harness(f"c06_{f}_{u}_monotone_adj",
                          f"{f} -> {u}: monotone over every adjacent pair (x, successor of x) of the total order of non-NaN {f} "
                          f"(adjacent-pair monotonicity over a finite total order is global monotonicity)",
                          f"""
                          let a: {f} = kani::any();
                          kani::assume(!a.is_nan() && a != {f}::INFINITY);
                          let b = succ_{f}(a);
                          kani::cover!(true);
                          let ya: {u} = a.into_stimulus();
                          let yb: {u} = b.into_stimulus();
                          assert!(ya <= yb);
                          """, fn, f"all non-NaN {f} and their successors")
    for u in UINTS:
        for f in FLOATS:
            fn = [f"<{u} as palette::stimulus::IntoStimulus<{f}>>::into_stimulus"]
            o.harness(f"c06_{u}_{f}_ends",
                      f"{u} -> {f}: 0 maps to 0.0, MAX maps to exactly 1.0, every value lands in [0,1]",
                      f"""
                      let c: {u} = kani::any();
                      kani::cover!(true);
                      let y: {f} = c.into_stimulus();
                      if c == 0 {{ assert!(y == 0.0); }}
                      if c == {u}::MAX {{ assert!(y == 1.0); }}
                      assert!(y >= 0.0 && y <= 1.0);
                      """, fn, f"all {u} values")
            o.harness(f"c06_{u}_{f}_monotone",
                      f"{u} -> {f}: monotone non-decreasing over all ordered pairs",
                      f"""
                      let a: {u} = kani::any();
                      let b: {u} = kani::any();
                      kani::assume(a <= b);
                      kani::cover!(true);
                      let ya: {f} = a.into_stimulus();
                      let yb: {f} = b.into_stimulus();
                      assert!(ya <= yb);
                      """, fn, f"all ordered pairs of {u}")
    for u, f in [("u8", "f32"), ("u16", "f32"), ("u8", "f64"), ("u16", "f64"), ("u32", "f64")]:
        o.harness(f"c06_{u}_{f}_{u}_roundtrip",
                  f"{u} -> {f} -> {u} reproduces every value ({f} has enough precision for {u})",
                  f"""
                  let c: {u} = kani::any();
                  kani::cover!(true);
                  let y: {f} = c.into_stimulus();
                  let d: {u} = y.into_stimulus();
                  assert!(c == d);
                  """, [f"<{u} as IntoStimulus<{f}>>::into_stimulus", f"<{f} as IntoStimulus<{u}>>::into_stimulus"], f"all {u} values")
    for a in UINTS:
        for b in UINTS:
            if a == b:
                continue
            fn = [f"<{a} as palette::stimulus::IntoStimulus<{b}>>::into_stimulus"]
            o.harness(f"c06_{a}_{b}_ends",
                      f"{a} -> {b}: 0 maps to 0 and MAX maps to MAX",
                      f"""
                      let c: {a} = kani::any();
                      kani::assume(c == 0 || c == {a}::MAX);
                      kani::cover!(true);
                      let y: {b} = c.into_stimulus();
                      assert!(if c == 0 {{ y == 0 }} else {{ y == {b}::MAX }});
                      """, fn, "both end points")
            o.harness(f"c06_{a}_{b}_monotone",
                      f"{a} -> {b}: monotone non-decreasing over all ordered pairs",
                      f"""
                      let p: {a} = kani::any();
                      let q: {a} = kani::any();
                      kani::assume(p <= q);
                      kani::cover!(true);
                      let yp: {b} = p.into_stimulus();
                      let yq: {b} = q.into_stimulus();
                      assert!(yp <= yq);
                      """, fn, f"all ordered pairs of {a}")
            if BITS[a] < BITS[b] and a in ("u8", "u16", "u32"):
                o.harness(f"c06_{a}_{b}_{a}_roundtrip",
                          f"widening {a} -> {b} and narrowing back reproduces every value",
                          f"""
                          let c: {a} = kani::any();
                          kani::cover!(true);
                          let w: {b} = c.into_stimulus();
                          let d: {a} = w.into_stimulus();
                          assert!(c == d);
                          """, fn + [f"<{b} as palette::stimulus::IntoStimulus<{a}>>::into_stimulus"], f"all {a} values")
    o.harness("c06_f32_f64_exact", "f32 -> f64 is the exact widening (value preserved, NaN stays NaN), f64 -> f32 -> f64 of a widened value is the identity",
              """
              let x: f32 = kani::any();
              kani::cover!(true);
              let y: f64 = x.into_stimulus();
              assert!(if x.is_nan() { y.is_nan() } else { y == x as f64 });
              let z: f32 = y.into_stimulus();
              assert!(if x.is_nan() { z.is_nan() } else { z == x });
              """, ["<f32 as IntoStimulus<f64>>::into_stimulus", "<f64 as IntoStimulus<f32>>::into_stimulus"], "all 2^32 f32 bit patterns")
    o.harness("c06_f64_f32_monotone", "f64 -> f32: monotone, 0 maps to 0 and 1 to 1",
              """
              let a: f64 = kani::any();
              let b: f64 = kani::any();
              kani::assume(a <= b);
              kani::cover!(true);
              let ya: f32 = a.into_stimulus();
              let yb: f32 = b.into_stimulus();
              assert!(ya <= yb);
              if a == 0.0 { assert!(ya == 0.0); }
              if b == 1.0 { assert!(yb == 1.0); }
              """, ["<f64 as IntoStimulus<f32>>::into_stimulus"], "all ordered pairs of non-NaN f64")
    o.write()


if __name__ == "__main__":
    gen()
