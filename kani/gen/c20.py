"""C20: serde round trip and shape at the level of serde's data model (serde.rs, serde/alpha_serializer.rs,
serde/alpha_deserializer.rs, the Serialize/Deserialize impls of Alpha and PreAlpha, derive output of the colour structs and
hue newtypes). The in-harness back end (token recorder / replayer, three framings) is src/c20_support.rs."""
from common import Out

SRGB = "palette::encoding::Srgb"
LIN = f"palette::encoding::Linear<{SRGB}>"
D65 = "palette::white_point::D65"

FMT_DOC = {
    "named": "self-describing framing (struct name and field names kept, like a JSON object / RON struct; fields matched by name "
             "through visit_map)",
    "listed": "delimited compact sequence framing (length-prefixed list of values without names, like a JSON array or rmp-serde's "
              "MessagePack array; read through visit_seq over the recorded length)",
    "packed": "undelimited compact framing (bare value stream like bincode / postcard; every length is the hint the Deserialize "
              "impl passes: fields.len() of deserialize_struct, len of deserialize_tuple)",
}
FMT = {"named": "Fmt::Named", "listed": "Fmt::Listed", "packed": "Fmt::Packed"}


class Col:
    """A colour struct: fields are (serde field name, accessor path below the colour value)."""

    def __init__(self, key, ty, comp, sname, fields, ctor, skipped):
        self.key, self.ty, self.comp, self.sname, self.fields, self.ctor, self.skipped = key, ty, comp, sname, fields, ctor, skipped


def rgb(key, std, comp):
    ty = f"palette::rgb::Rgb<{std}, {comp}>"
    return Col(key, ty, comp, "Rgb", [("red", "red"), ("green", "green"), ("blue", "blue")], f"<{ty}>::new(red, green, blue)",
               "standard: PhantomData<S>")


COLS = {c.key: c for c in [
    rgb("rgb_u8", SRGB, "u8"),
    rgb("rgb_f32", SRGB, "f32"),
    rgb("linrgb_f32", LIN, "f32"),
    Col("hsv_f32", f"palette::Hsv<{SRGB}, f32>", "f32", "Hsv",
        [("hue", "hue.into_inner()"), ("saturation", "saturation"), ("value", "value")],
        f"<palette::Hsv<{SRGB}, f32>>::new(hue, saturation, value)", "standard: PhantomData<S>"),
    Col("lab_f32", f"palette::Lab<{D65}, f32>", "f32", "Lab", [("l", "l"), ("a", "a"), ("b", "b")],
        f"<palette::Lab<{D65}, f32>>::new(l, a, b)", "white_point: PhantomData<Wp>"),
    Col("luma_u8", f"palette::luma::Luma<{SRGB}, u8>", "u8", "Luma", [("luma", "luma")],
        f"<palette::luma::Luma<{SRGB}, u8>>::new(luma)", "standard: PhantomData<S>"),
]}

# key of the harness family, colour, wrapper (None / "alpha" / "pre")
FORMS = [
    ("rgb_u8", "rgb_u8", None), ("rgb_f32", "rgb_f32", None), ("hsv_f32", "hsv_f32", None), ("lab_f32", "lab_f32", None),
    ("luma_u8", "luma_u8", None),
    ("rgba_u8", "rgb_u8", "alpha"), ("hsva_f32", "hsv_f32", "alpha"), ("laba_f32", "lab_f32", "alpha"),
    ("pre_linrgb_f32", "linrgb_f32", "pre"),
]

# Measured (PV_JOBS=4, shared machine): every harness that goes through AlphaDeserializer's visit_map path (field names) costs
# 20-30 s at unwind 6 and 140+ s at unwind 11 (Hsv: "saturation"), everything else 0.2-1.5 s. Reason: the inner colour's field
# identifier travels through palette's `StructField` union (alpha_deserializer.rs), CBMC's symbolic execution cannot fold the
# pointer read back from that union, so the derived field match looks symbolic to it and it also explores the (infeasible)
# `alpha` arm of MapWrapper::next_key_seed for every key, up to the unwinding bound; the SAT solver then discards those paths.
# Quick tier keeps one integer, one float and the PreAlpha round trip plus the f32 optional-alpha pair; the rest is thorough.
THOROUGH = {
    "c20_hsva_f32_named_roundtrip",
    "c20_optalpha_rgb_u8_named_missing", "c20_optalpha_rgb_u8_named_present",
    "c20_optalpha_pre_linrgb_f32_named_missing", "c20_optalpha_pre_linrgb_f32_named_present",
}
WITNESS = "c20_alpha_packed_undelimited"


def wrap_ty(col, wrapper):
    if wrapper == "alpha":
        return f"palette::Alpha<{col.ty}, {col.comp}>"
    if wrapper == "pre":
        return f"palette::blend::PreAlpha<{col.ty}>"
    return col.ty


def decls(col, wrapper):
    """Symbolic components: u8 directly, f32 by bit pattern. Returns (rust lines, [(serde name, token expr, check expr on `d`)])."""
    lines, items = [], []
    names = [f[0] for f in col.fields] + (["alpha"] if wrapper else [])
    for n in names:
        if col.comp == "u8":
            lines.append(f"let {n}: u8 = kani::any();")
        else:
            lines.append(f"let {n}_bits: u32 = kani::any();")
            lines.append(f"let {n} = f32::from_bits({n}_bits);")
    base = "d.color." if wrapper else "d."
    for n, acc in col.fields:
        if col.comp == "u8":
            items.append((n, f"Tok::U8({n})", f"{base}{acc} == {n}"))
        else:
            items.append((n, f"Tok::F32({n}_bits)", f"{base}{acc}.to_bits() == {n}_bits"))
    if wrapper:
        if col.comp == "u8":
            items.append(("alpha", "Tok::U8(alpha)", "d.alpha == alpha"))
        else:
            items.append(("alpha", "Tok::F32(alpha_bits)", "d.alpha.to_bits() == alpha_bits"))
    return lines, items


def value(col, wrapper):
    if wrapper == "alpha":
        return f"palette::Alpha {{ color: {col.ctor}, alpha }}"
    if wrapper == "pre":
        return f"palette::blend::PreAlpha {{ color: {col.ctor}, alpha }}"
    return col.ctor


def tokens(fmt, sname, items):
    """The exact token stream expected for a struct `sname` whose (name, token) items are serialized in order."""
    if fmt == "named":
        t = [f'Tok::Struct("{sname}", {len(items)})']
        for n, tok, _ in items:
            t += [f'Tok::Field("{n}")', tok]
        return t + ["Tok::End"]
    if fmt == "listed":
        return [f"Tok::Seq({len(items)})"] + [tok for _, tok, _ in items] + ["Tok::End"]
    return [tok for _, tok, _ in items]


def unwind(fmt, names):
    """memcmp over a name of length n needs n + 1; the array Serialize loop of the as_array helpers needs 4 + 2."""
    return max([6] + ([len(n) + 1 for n in names] if fmt == "named" else []))


ERR = '''Err(E::MissingField) => panic!("deserializing the recorded stream failed: missing field"),
    Err(_) => panic!("deserializing the recorded stream failed"),'''


def checks(items):
    return "\n".join(f"        assert!({chk});" for _, _, chk in items)


def gen():
    o = Out("c20_gen.rs", "use crate::c20_support::*;\nuse serde::{Deserialize, Serialize};\n")

    # ---- (1) + (2): exact shape of the serialized stream, and round trip through the real Deserialize impl
    for key, ck, wrapper in FORMS:
        col = COLS[ck]
        ty = wrap_ty(col, wrapper)
        for fmt in ("named", "listed", "packed"):
            lines, items = decls(col, wrapper)
            toks = tokens(fmt, col.sname, items)
            n = len(items)
            if wrapper:
                shape = (f"the colour's own {n - 1} field(s) plus `alpha` at the same level (one {'struct' if fmt == 'named' else 'list'} "
                         f"of {n}, not nested)" if fmt != "packed" else f"the colour's own {n - 1} value(s) followed by alpha")
            else:
                shape = f"its {n} field(s)" if fmt != "packed" else f"its {n} value(s)"
            hue = "; the hue is one bare number (transparent newtype)" if ck == "hsv_f32" else ""
            doc = (f"{ty} in the {FMT_DOC[fmt]}: Serialize emits exactly the token stream [{', '.join(t.replace('Tok::', '') for t in toks)}] - "
                   f"{shape}{hue}, nothing for the skipped `{col.skipped}` - and Deserialize of that stream consumes all of it and returns "
                   f"the same colour, {'every component equal' if col.comp == 'u8' else 'every component bit-for-bit equal (compared by to_bits, NaN payloads and -0.0 included)'}")
            witness = WITNESS if (wrapper and fmt == "packed") else None
            if witness:
                doc += (". EXPECTED TO FAIL (witness of the known finding): AlphaDeserializer::deserialize_struct forwards the inner colour's "
                        f"{n - 1} field names unchanged, a framing that bounds the sequence by fields.len() hands out {n - 1} elements, and the alpha "
                        "element is reported as missing_field(\"alpha\") for every value although Serialize wrote it")
            fns = [f"<{ty} as serde::Serialize>::serialize", f"<{ty} as serde::Deserialize>::deserialize",
                   f"derive(Serialize, Deserialize) of {col.ty} (serde(skip) on {col.skipped})"]
            if wrapper:
                fns += ["palette::serde::AlphaSerializer (serialize_struct, SerializeStruct::serialize_field / end)",
                        "palette::serde::AlphaDeserializer::deserialize_struct, AlphaMapVisitor::" + ("visit_map, MapWrapper::next_key_seed, AlphaFieldVisitor::visit_str, StructFieldDeserializer" if fmt == "named" else "visit_seq")]
            if ck == "hsv_f32":
                fns.append("derive(Serialize, Deserialize) of palette::RgbHue<f32> (newtype struct)")
            bound = (f"all 2^{8 * n} component values" if col.comp == "u8" else f"all 2^{32 * n} f32 bit patterns of the {n} components") + \
                    "; serde data model only (token level): the text layer of serde_json / ron is outside the claim"
            body = "\n".join(lines) + f"""
kani::cover!(true);
let c: {ty} = {value(col, wrapper)};
let (rec, ok) = record({FMT[fmt]}, &c);
assert!(ok.is_ok());
assert!(shape!(rec; {', '.join(toks)}));
match replay::<{ty}>(&rec) {{
    Ok(d) => {{
{checks(items)}
    }}
    {ERR}
}}"""
            name = f"c20_{key}_{fmt}_roundtrip"
            o.harness(name, doc, body, fns=fns, bound=bound, thorough=name in THOROUGH, witness=witness,
                      unwind=unwind(fmt, [i[0] for i in items] + [col.sname]))

    # ---- (2) a hue on its own is one bare number
    for key, ty, comp in [("rgbhue_f32", "palette::RgbHue<f32>", "f32"), ("labhue_f32", "palette::LabHue<f32>", "f32"),
                          ("rgbhue_u8", "palette::RgbHue<u8>", "u8")]:
        for fmt in ("named", "packed"):
            if comp == "u8":
                decl, tok, chk = "let hue: u8 = kani::any();", "Tok::U8(hue)", "d.into_inner() == hue"
            else:
                decl, tok, chk = "let hue_bits: u32 = kani::any();\nlet hue = f32::from_bits(hue_bits);", "Tok::F32(hue_bits)", "d.into_inner().to_bits() == hue_bits"
            doc = (f"{ty} in the {FMT_DOC[fmt]}: the hue serializes as one bare number - the stream is exactly [{tok.replace('Tok::', '')}], no struct, "
                   f"list or name around it (serialize_newtype_struct is transparent in serde_json, ron, rmp-serde and bincode alike) - and deserializes back to the same raw value")
            body = f"""{decl}
kani::cover!(true);
let c = <{ty}>::new(hue);
let (rec, ok) = record({FMT[fmt]}, &c);
assert!(ok.is_ok());
assert!(shape!(rec; {tok}));
match replay::<{ty}>(&rec) {{
    Ok(d) => {{
        assert!({chk});
    }}
    {ERR}
}}"""
            o.harness(f"c20_{key}_{fmt}_roundtrip", doc, body, unwind=6,
                      fns=[f"derive(Serialize, Deserialize) of {ty} (newtype struct)"],
                      bound=("all 2^8 values" if comp == "u8" else "all 2^32 f32 bit patterns") + "; serde data model only (token level)")

    # ---- (3) optional alpha
    for key, ck, pre in [("rgb_f32", "rgb_f32", False), ("rgb_u8", "rgb_u8", False), ("pre_linrgb_f32", "linrgb_f32", True)]:
        col = COLS[ck]
        wrapper = "pre" if pre else "alpha"
        ty = wrap_ty(col, wrapper)
        if pre:
            func, call = "palette::serde::deserialize_with_optional_pre_alpha", f"palette::serde::deserialize_with_optional_pre_alpha::<{col.ty}, _>(p)"
        else:
            func, call = "palette::serde::deserialize_with_optional_alpha", f"palette::serde::deserialize_with_optional_alpha::<{col.ty}, {col.comp}, _>(p)"
        for fmt in ("named", "listed", "packed"):
            for present in (False, True):
                if present and fmt == "packed":
                    continue  # an undelimited stream cannot say whether an optional trailing value is there: not a meaningful case
                lines, items = decls(col, wrapper if present else None)
                if present:
                    src_ty, src, chk = ty, value(col, wrapper), checks(items)
                    what = "a stream that has `alpha` yields that alpha"
                else:
                    # d is the transparent type: the colour sits in d.color
                    items = [(n, t, c.replace("d.", "d.color.", 1)) for n, t, c in items]
                    full = "d.alpha == 255u8" if col.comp == "u8" else "d.alpha.to_bits() == 1.0f32.to_bits()"
                    src_ty, src, chk = col.ty, col.ctor, checks(items) + f"\n        assert!({full});"
                    what = f"a stream without `alpha` (the serialized opaque {col.ty}) yields full opacity ({'255' if col.comp == 'u8' else '1.0'} = max_intensity)"
                doc = (f"{func} producing {ty} from the {FMT_DOC[fmt]}: {what}, the colour components are the recorded ones "
                       f"({'equal' if col.comp == 'u8' else 'bit-for-bit'}), and the whole stream is consumed")
                body = "\n".join(lines) + f"""
kani::cover!(true);
let c: {src_ty} = {src};
let (rec, ok) = record({FMT[fmt]}, &c);
assert!(ok.is_ok());
match replay_with(&rec, |p| {call}) {{
    Ok(d) => {{
{chk}
    }}
    {ERR}
}}"""
                n = len(items)
                name = f"c20_optalpha_{key}_{fmt}_{'present' if present else 'missing'}"
                o.harness(name, doc, body, thorough=name in THOROUGH,
                          fns=[func, f"<{src_ty} as serde::Serialize>::serialize", "palette::serde::AlphaDeserializer",
                               f"derive(Deserialize) of {col.ty}"],
                          bound=(f"all 2^{8 * n} component values" if col.comp == "u8" else f"all 2^{32 * n} f32 bit patterns of the {n} components")
                          + "; serde data model only (token level)",
                          unwind=unwind(fmt, [i[0] for i in items] + [col.sname, "alpha"]))

    # alpha first (the order palette's own deserialize tests use): a hand-built stream that Serialize never produces
    col = COLS["rgb_f32"]
    ty = wrap_ty(col, "alpha")
    lines, items = decls(col, "alpha")
    order = [items[3]] + items[:3]
    toks = [f'Tok::Struct("Rgb", 4)'] + sum(([f'Tok::Field("{n}")', t] for n, t, _ in order), []) + ["Tok::End"]
    for nm, call, fn in [("deserialize", f"<{ty}>::deserialize(p)", f"<{ty} as serde::Deserialize>::deserialize"),
                         ("optalpha", f"palette::serde::deserialize_with_optional_alpha::<{col.ty}, f32, _>(p)", "palette::serde::deserialize_with_optional_alpha")]:
        body = "\n".join(lines) + f"""
kani::cover!(true);
let rec = stream![Fmt::Named; {', '.join(toks)}];
match replay_with(&rec, |p| {call}) {{
    Ok(d) => {{
{checks(items)}
    }}
    {ERR}
}}"""
        name = f"c20_rgba_f32_named_alpha_first_{nm}"
        o.harness(name, f"{fn} from a self-describing stream in which `alpha` comes first ([{', '.join(t.replace('Tok::', '') for t in toks)}], the order "
                  f"of palette's own deserialize tests): field order does not matter, the result has the recorded components bit-for-bit",
                  body, fns=[fn, "palette::serde::AlphaDeserializer::deserialize_struct, AlphaMapVisitor::visit_map, MapWrapper::next_key_seed"],
                  bound="all 2^128 f32 bit patterns of the 4 components; serde data model only (token level)", thorough=name in THOROUGH,
                  unwind=unwind("named", ["green", "alpha"]))

    # ---- (4) as_array / as_uint
    for key, ck, wrapper, wname in [("rgb_u8", "rgb_u8", None, "WithArrayRgbU8"), ("rgba_u8", "rgb_u8", "alpha", "WithArrayRgbaU8"),
                                    ("rgb_f32", "rgb_f32", None, "WithArrayRgbF32"), ("hsva_f32", "hsv_f32", "alpha", "WithArrayHsvaF32")]:
        col = COLS[ck]
        ty = wrap_ty(col, wrapper)
        for fmt in ("named", "packed"):
            lines, items = decls(col, wrapper)
            n = len(items)
            conv = "Tok::U8(arr[{i}])" if col.comp == "u8" else "Tok::F32(arr[{i}].to_bits())"
            vals = [conv.format(i=i) for i in range(n)]
            if fmt == "named":
                toks = ['Tok::Struct("WithArray", 1)', 'Tok::Field("c")', f"Tok::Seq({n})"] + vals + ["Tok::End", "Tok::End"]
            else:
                toks = vals
            chk = "\n".join(f"        assert!({c.replace('d.', 'd.c.', 1)});" for _, _, c in items)
            same = " && ".join((f"arr[{i}] == {it[0]}" if col.comp == "u8" else f"arr[{i}].to_bits() == {it[0]}_bits") for i, it in enumerate(items))
            doc = (f"#[serde(with = \"palette::serde::as_array\")] on a {ty} field, {FMT_DOC[fmt]}: the field is emitted as a list of exactly the {n} values "
                   f"palette::cast::into_array gives (which are the components in declaration order{', alpha last' if wrapper else ''}), stream "
                   f"[{', '.join(t.replace('Tok::', '') for t in toks)}], and deserializes back to the same colour")
            body = "\n".join(lines) + f"""
kani::cover!(true);
let c: {ty} = {value(col, wrapper)};
let arr: [{col.comp}; {n}] = palette::cast::into_array(c);
assert!({same});
let w = {wname} {{ c }};
let (rec, ok) = record({FMT[fmt]}, &w);
assert!(ok.is_ok());
assert!(shape!(rec; {', '.join(toks)}));
match replay::<{wname}>(&rec) {{
    Ok(d) => {{
{chk}
    }}
    {ERR}
}}"""
            o.harness(f"c20_as_array_{key}_{fmt}", doc, body, unwind=unwind(fmt, ["WithArray"]),
                      fns=["palette::serde::serialize_as_array", "palette::serde::deserialize_as_array", "palette::cast::into_array",
                           "palette::cast::into_array_ref", "palette::cast::from_array"],
                      bound=(f"all 2^{8 * n} component values" if col.comp == "u8" else f"all 2^{32 * n} f32 bit patterns of the {n} components")
                      + "; serde data model only (token level)")

    for key, ty, uint, mk, get in [
        ("packed_argb_u32", "palette::rgb::PackedArgb<u32>", "u32", "palette::cast::Packed { color: x, channel_order: core::marker::PhantomData }", "d.c.color"),
        ("packed_rgba_u32", "palette::rgb::PackedRgba<u32>", "u32", "palette::cast::Packed { color: x, channel_order: core::marker::PhantomData }", "d.c.color"),
        ("luma_u8", f"palette::luma::Luma<{SRGB}, u8>", "u8", f"<palette::luma::Luma<{SRGB}, u8>>::new(x)", "d.c.luma"),
        ("luma_u16", f"palette::luma::Luma<{SRGB}, u16>", "u16", f"<palette::luma::Luma<{SRGB}, u16>>::new(x)", "d.c.luma"),
    ]:
        for fmt in ("named", "packed"):
            tok = f"Tok::{uint.upper()}(u)"
            toks = ['Tok::Struct("WithUint", 1)', 'Tok::Field("c")', tok, "Tok::End"] if fmt == "named" else [tok]
            doc = (f"#[serde(with = \"palette::serde::as_uint\")] on a {ty} field, {FMT_DOC[fmt]}: the field is emitted as the one {uint} "
                   f"palette::cast::into_uint gives (the stored value), stream [{', '.join(t.replace('Tok::', '') for t in toks)}], and deserializes back to the same colour")
            body = f"""let x: {uint} = kani::any();
kani::cover!(true);
let w: WithUint<{ty}> = WithUint {{ c: {mk} }};
let u: {uint} = *palette::cast::into_uint_ref(&w.c);
assert!(u == x);
let (rec, ok) = record({FMT[fmt]}, &w);
assert!(ok.is_ok());
assert!(shape!(rec; {', '.join(toks)}));
match replay::<WithUint<{ty}>>(&rec) {{
    Ok(d) => {{
        assert!({get} == x);
        assert!(palette::cast::into_uint(d.c) == u);
    }}
    {ERR}
}}"""
            o.harness(f"c20_as_uint_{key}_{fmt}", doc, body, unwind=unwind(fmt, ["WithUint"]),
                      fns=["palette::serde::serialize_as_uint", "palette::serde::deserialize_as_uint", "palette::cast::into_uint_ref",
                           "palette::cast::into_uint", "palette::cast::from_uint"],
                      bound=f"all 2^{ {'u8': 8, 'u16': 16, 'u32': 32}[uint] } values; serde data model only (token level)")
    o.write()
