"""C04: zero-copy casts (palette/src/cast/*.rs, macros/casting.rs, the unsafe ArrayCast/UintCast impls, derive(ArrayCast)).

The obligations are written once, generically, in src/c04_support.rs; this generator instantiates them for the
representative types, enumerates the concrete buffer lengths / capacities, and lists every implementing type for the
layout and field-order obligations."""
from common import Out

SRGB = "palette::encoding::Srgb"
D65 = "palette::white_point::D65"
RGBA = "palette::rgb::channels::Rgba"

# ---- every colour struct that derives ArrayCast: key, path with {M} = meta parameter (if any) and {C} = component type,
#      meta parameter used for the instantiation, declared non-ZST fields in order ('hue:<HueType>' = hue wrapper), phantom field
STRUCTS = [
    ("rgb", "palette::rgb::Rgb<{M}, {C}>", SRGB, ["red", "green", "blue"], "standard"),
    ("luma", "palette::luma::Luma<{M}, {C}>", SRGB, ["luma"], "standard"),
    ("hsl", "palette::Hsl<{M}, {C}>", SRGB, ["hue:palette::RgbHue", "saturation", "lightness"], "standard"),
    ("hsv", "palette::Hsv<{M}, {C}>", SRGB, ["hue:palette::RgbHue", "saturation", "value"], "standard"),
    ("hwb", "palette::Hwb<{M}, {C}>", SRGB, ["hue:palette::RgbHue", "whiteness", "blackness"], "standard"),
    ("xyz", "palette::Xyz<{M}, {C}>", D65, ["x", "y", "z"], "white_point"),
    ("yxy", "palette::Yxy<{M}, {C}>", D65, ["x", "y", "luma"], "white_point"),
    ("lab", "palette::Lab<{M}, {C}>", D65, ["l", "a", "b"], "white_point"),
    ("lch", "palette::Lch<{M}, {C}>", D65, ["l", "chroma", "hue:palette::LabHue"], "white_point"),
    ("luv", "palette::Luv<{M}, {C}>", D65, ["l", "u", "v"], "white_point"),
    ("lchuv", "palette::Lchuv<{M}, {C}>", D65, ["l", "chroma", "hue:palette::LuvHue"], "white_point"),
    ("hsluv", "palette::Hsluv<{M}, {C}>", D65, ["hue:palette::LuvHue", "saturation", "l"], "white_point"),
    ("lms", "palette::lms::Lms<{M}, {C}>", "palette::lms::matrix::VonKries", ["long", "medium", "short"], "meta"),
    ("oklab", "palette::Oklab<{C}>", None, ["l", "a", "b"], None),
    ("oklch", "palette::Oklch<{C}>", None, ["l", "chroma", "hue:palette::OklabHue"], None),
    ("okhsl", "palette::Okhsl<{C}>", None, ["hue:palette::OklabHue", "saturation", "lightness"], None),
    ("okhsv", "palette::Okhsv<{C}>", None, ["hue:palette::OklabHue", "saturation", "value"], None),
    ("okhwb", "palette::Okhwb<{C}>", None, ["hue:palette::OklabHue", "whiteness", "blackness"], None),
    ("cam16ucsjab", "palette::cam16::Cam16UcsJab<{C}>", None, ["lightness", "a", "b"], None),
    ("cam16ucsjmh", "palette::cam16::Cam16UcsJmh<{C}>", None, ["lightness", "colorfulness", "hue:palette::hues::Cam16Hue"], None),
]
for nm, (lu, ch) in {"Jch": ("lightness", "chroma"), "Jmh": ("lightness", "colorfulness"), "Jsh": ("lightness", "saturation"),
                     "Qch": ("brightness", "chroma"), "Qmh": ("brightness", "colorfulness"), "Qsh": ("brightness", "saturation")}.items():
    STRUCTS.append((f"cam16{nm.lower()}", f"palette::cam16::Cam16{nm}<{{C}}>", None, [lu, ch, "hue:palette::hues::Cam16Hue"], None))
# Premultiply is implemented for these (PreAlpha<C> needs it), for real component types only
FAMILIES = [("rgb_family", ["rgb", "luma", "hsl", "hsv", "hwb"]),
            ("cie_family", ["xyz", "yxy", "lab", "lch", "luv", "lchuv", "hsluv", "lms"]),
            ("ok_family", ["oklab", "oklch", "okhsl", "okhsv", "okhwb"]),
            ("cam16_family", ["cam16ucsjab", "cam16ucsjmh", "cam16jch", "cam16jmh", "cam16jsh", "cam16qch", "cam16qmh", "cam16qsh"])]
PREMUL = ["rgb", "luma", "xyz", "yxy", "lab", "luv", "lms", "oklab", "cam16ucsjab"]
COMPS = ["u8", "u16", "u32", "f32", "f64"]


def sty(S, C, M=None):
    return S[1].format(M=M or S[2], C=C)


def fields_impls():
    """impl Fields for every colour struct (generic in the meta parameter and the component type), its Alpha form,
    PreAlpha of the Premultiply types (f32, f64) and Packed."""
    out = []
    for key, path, meta, flds, ph in STRUCTS:
        n = len(flds)
        gen_m = "M: 'static, " if meta else ""
        ty = path.format(M="M", C="C")
        inits, reads = [], []
        for i, f in enumerate(flds):
            if f.startswith("hue:"):
                inits.append(f"hue: {f[4:]}::new(f[{i}])")
                reads.append("self.hue.into_inner()")
            else:
                inits.append(f"{f}: f[{i}]")
                reads.append(f"self.{f}")
        if ph:
            inits.append(f"{ph}: core::marker::PhantomData")
        bare = path.split("<")[0]
        out.append(f"""impl<{gen_m}C: Comp> Fields<C, {n}> for {ty} {{
    fn make(f: [C; {n}]) -> Self {{ {bare} {{ {', '.join(inits)} }} }}
    fn fields(&self) -> [C; {n}] {{ [{', '.join(reads)}] }}
}}
impl<{gen_m}C: Comp> Fields<C, {n + 1}> for palette::Alpha<{ty}, C> {{
    fn make(f: [C; {n + 1}]) -> Self {{ palette::Alpha {{ color: <{ty} as Fields<C, {n}>>::make([{', '.join(f'f[{i}]' for i in range(n))}]), alpha: f[{n}] }} }}
    fn fields(&self) -> [C; {n + 1}] {{ let c = self.color.fields(); [{', '.join(f'c[{i}]' for i in range(n))}, self.alpha] }}
}}""")
        if key in PREMUL:
            for C in ("f32", "f64"):
                tyc = path.format(M="M", C=C)
                out.append(f"""impl{'<M: ' + "'static>" if meta else ''} Fields<{C}, {n + 1}> for palette::blend::PreAlpha<{tyc}> {{
    fn make(f: [{C}; {n + 1}]) -> Self {{ palette::blend::PreAlpha {{ color: <{tyc} as Fields<{C}, {n}>>::make([{', '.join(f'f[{i}]' for i in range(n))}]), alpha: f[{n}] }} }}
    fn fields(&self) -> [{C}; {n + 1}] {{ let c = self.color.fields(); [{', '.join(f'c[{i}]' for i in range(n))}, self.alpha] }}
}}""")
    out.append("""impl<O: 'static, C: Comp, const N: usize> Fields<C, N> for palette::cast::Packed<O, [C; N]> {
    fn make(f: [C; N]) -> Self { palette::cast::Packed { color: f, channel_order: core::marker::PhantomData } }
    fn fields(&self) -> [C; N] { self.color }
}""")
    for U in ("u8", "u16", "u32", "u64", "u128"):
        out.append(f"""impl<O: 'static> UFields<{U}> for palette::cast::Packed<O, {U}> {{
    fn make(u: {U}) -> Self {{ palette::cast::Packed {{ color: u, channel_order: core::marker::PhantomData }} }}
    fn get(&self) -> {U} {{ self.color }}
}}
impl<S: 'static> UFields<{U}> for palette::luma::Luma<S, {U}> {{
    fn make(u: {U}) -> Self {{ palette::luma::Luma {{ luma: u, standard: core::marker::PhantomData }} }}
    fn get(&self) -> {U} {{ self.luma }}
}}""")
    return "\n".join(out) + "\n"


# ---- representative instantiations: key, type, component, N, short name
REPR = [
    ("srgb_u8", "palette::Srgb<u8>", "u8", 3),
    ("srgba_u8", "palette::Srgba<u8>", "u8", 4),
    ("hsv_f32", f"palette::Hsv<{SRGB}, f32>", "f32", 3),
    ("lab_f64", f"palette::Lab<{D65}, f64>", "f64", 3),
    ("luma_u16", f"palette::luma::Luma<{SRGB}, u16>", "u16", 1),
    ("prealpha_linsrgb_f32", "palette::blend::PreAlpha<palette::LinSrgb<f32>>", "f32", 4),
    ("packed_rgba_u8x4", f"palette::cast::Packed<{RGBA}, [u8; 4]>", "u8", 4),
]
PRIMARY = {"srgb_u8", "srgba_u8", "luma_u16"}
UREPR = [
    ("packed_rgba_u32", f"palette::cast::Packed<{RGBA}, u32>", "u32", True),
    ("luma_u16", f"palette::luma::Luma<{SRGB}, u16>", "u16", False),
]

ORDER = "declared field order with alpha last"


def gen():
    o = Out("c04_gen.rs", "use crate::c04_support::*;\n\n" + fields_impls())

    # ------------------------------------------------------------------ layout of every implementing type
    for fam, keys in FAMILIES:
        lines, names, fns, cfgs = [], [], [], 0
        for S in STRUCTS:
            key, path, meta, flds, ph = S
            if key not in keys:
                continue
            n = len(flds)
            bare = path.split("<")[0].split("::")[-1]
            names.append(f"{bare} ({n})" + (" +PreAlpha" if key in PREMUL else ""))
            fns.append(f"derive(ArrayCast) for {path.split('<')[0]}")
            for C in COMPS:
                ty = sty(S, C)
                lines.append(f"assert!(array_is::<{ty}, {C}, {n}>());")
                lines.append(f"assert!(array_is::<palette::Alpha<{ty}, {C}>, {C}, {n + 1}>());")
                cfgs += 2
                if key in PREMUL and C in ("f32", "f64"):
                    lines.append(f"assert!(array_is::<palette::blend::PreAlpha<{ty}>, {C}, {n + 1}>());")
                    cfgs += 1
        o.harness(f"c04_layout_{fam}",
                  f"{', '.join(names)} with component type C in u8, u16, u32, f32, f64, each also as Alpha<_, C> and (where marked, C in f32, f64) as "
                  f"PreAlpha<_>: the declared ArrayCast::Array is [C; n] with n = the number of non-zero-sized fields given in parentheses (n+1 with alpha), it has the "
                  f"same size_of and align_of as the type, is exactly n items big and aligned like one item (compile-time constants decided by constant "
                  f"folding; each type is one configuration)",
                  "kani::cover!(true);\n" + "\n".join(lines),
                  fns + ["unsafe impl ArrayCast for Alpha", "unsafe impl ArrayCast for PreAlpha"], f"{cfgs} type configurations")
    lines = []
    for C in COMPS:
        for n in (1, 2, 3, 4, 8):
            lines.append(f"assert!(array_is::<palette::cast::Packed<{RGBA}, [{C}; {n}]>, {C}, {n}>());")
    o.harness("c04_layout_packed_arrays",
              "Packed<O, [C; N]> for C in u8, u16, u32, f32, f64 and N in 1, 2, 3, 4, 8: the declared array is [C; N] with the same "
              "size_of and align_of as the (repr(transparent)) wrapper",
              "kani::cover!(true);\n" + "\n".join(lines), ["unsafe impl ArrayCast for Packed<O, [T; N]>"], "25 type configurations")
    lines = []
    for U in ("u8", "u16", "u32", "u64", "u128"):
        for ch in ("Rgba", "Argb", "Bgra", "Abgr"):
            lines.append(f"assert!(uint_is::<palette::cast::Packed<palette::rgb::channels::{ch}, {U}>, {U}>());")
        lines.append(f"assert!(uint_is::<palette::luma::Luma<{SRGB}, {U}>, {U}>());")
        lines.append(f"assert!(uint_is::<palette::luma::Luma<palette::encoding::Linear<{SRGB}>, {U}>, {U}>());")
    o.harness("c04_layout_uints",
              "every UintCast type (Packed<O, U> for the four channel orders, Luma<S, U>; U in u8, u16, u32, u64, u128): the declared "
              "Uint is U with the same size_of and align_of as the type",
              "kani::cover!(true);\n" + "\n".join(lines), ["unsafe impl UintCast for Packed<O, U>", "unsafe impl UintCast for Luma<S, U>"],
              "30 type configurations")

    # ------------------------------------------------------------------ field order of every colour struct, by value
    for S in STRUCTS:
        key, path, meta, flds, ph = S
        n = len(flds)
        names = ", ".join(f.split(":")[0] for f in flds)
        body = [f"check_value::<{sty(S, 'u32')}, u32, {n}>();", f"check_value::<palette::Alpha<{sty(S, 'u32')}, u32>, u32, {n + 1}>();"]
        fns = ["palette::cast::into_array", "palette::cast::from_array", f"derive(ArrayCast) for {path.split('<')[0]}", "unsafe impl ArrayCast for Alpha"]
        if key in PREMUL:
            body.append(f"check_value::<palette::blend::PreAlpha<{sty(S, 'f32')}>, f32, {n + 1}>();")
            fns.append("unsafe impl ArrayCast for PreAlpha")
        o.harness(f"c04_order_{key}",
                  f"{sty(S, 'u32')}, its Alpha form{' and PreAlpha<' + sty(S, 'f32') + '>' if key in PREMUL else ''}: into_array of a value built by "
                  f"naming its fields gives [{names}] (then alpha), from_array of an array puts item i into the i-th declared field, "
                  f"and both round trips are bit-identical",
                  "\n".join(body), fns, "all component bit patterns", unwind=n + 3)

    # ------------------------------------------------------------------ representative instantiations x every cast function
    for key, ty, C, n in REPR:
        sh = ty.replace("palette::encoding::", "").replace("palette::white_point::", "").replace("palette::rgb::channels::", "") \
               .replace("palette::luma::", "").replace("palette::blend::", "").replace("palette::cast::", "").replace("palette::", "")
        allc = f"all {C} bit patterns"
        primary = key in PRIMARY  # full length / capacity enumeration in the quick tier; the others keep 0, N, N+1, 2N (chains: 0, 3) there
        quick_try = lambda k: primary or k in (0, n, n + 1, 2 * n)
        quick_chain = lambda k: primary or k in (0, 3)
        o.harness(f"c04_{key}_value", f"{sh} by value: into_array lists the components in {ORDER}, from_array is its inverse, round trips are bit-identical",
                  f"check_value::<{ty}, {C}, {n}>();", ["palette::cast::into_array", "palette::cast::from_array"], allc, unwind=n + 2)
        o.harness(f"c04_{key}_ref", f"{sh} by shared reference: into_array_ref / from_array_ref return the address they were given and show the components in {ORDER}",
                  f"check_ref::<{ty}, {C}, {n}>();", ["palette::cast::into_array_ref", "palette::cast::from_array_ref"], allc, unwind=n + 2)
        o.harness(f"c04_{key}_mut", f"{sh} by mutable reference: into_array_mut / from_array_mut return the address they were given; a write through the "
                  f"array view is read back by field name in {ORDER} and vice versa",
                  f"check_mut::<{ty}, {C}, {n}>();", ["palette::cast::into_array_mut", "palette::cast::from_array_mut"], allc, unwind=n + 2)
        o.harness(f"c04_{key}_box", f"Box<{sh}>: into_array_box / from_array_box keep the allocation (same address), show the components in {ORDER}, and the "
                  f"reinterpreted box is freed without a memory-safety violation whichever of the two types it was allocated as",
                  f"check_box::<{ty}, {C}, {n}>();", ["palette::cast::into_array_box", "palette::cast::from_array_box"], allc, unwind=n + 2)
        o.harness(f"c04_{key}_single_front_ends",
                  f"{sh}: the From / AsRef / AsMut / TryFrom impls between the colour, [{C}; {n}], [{C}] and their references and boxes (impl_array_casts!) "
                  f"give the same address, length and components as the free functions; TryFrom<&[{C}]> and TryFrom<&mut [{C}]> succeed exactly for {n} components",
                  f"c04_single_front_ends!({ty}, {C}, {n}, {n + 1});",
                  [f"impl_array_casts!({sh}): From, AsRef, AsMut, TryFrom, Box From"], f"{allc}; slices of 0..={n + 1} components", unwind=n + 3)
        M = 2
        o.harness(f"c04_{key}_arrays",
                  f"[{sh}; {M}] by value: into_array_array, into_component_array, from_array_array, from_component_array and their trait front ends "
                  f"(IntoArrays, ArraysFrom, FromArrays, ArraysInto, IntoComponents, ComponentsFrom, FromComponents, ComponentsInto, TryFromComponents, "
                  f"TryComponentsInto) list / read the components colour by colour in {ORDER}",
                  f"check_arrays::<{ty}, {C}, {n}, {M}, {M * n}>();",
                  ["palette::cast::into_array_array", "palette::cast::into_component_array", "palette::cast::from_array_array", "palette::cast::from_component_array",
                   "IntoArrays/FromArrays/ArraysFrom/ArraysInto for [C; M]", "IntoComponents/FromComponents/TryFromComponents/ComponentsFrom/ComponentsInto/TryComponentsInto for [C; M]"],
                  f"{M} colours, {allc} (a wrong output length is a documented panic and not exercised)", unwind=M * n + 2)
        K = 3
        KC = 2 * n + 2
        o.harness(f"c04_{key}_slice_into",
                  f"&[{sh}] of any length 0..={K}: into_array_slice and into_component_slice return the same address, length len resp. len*{n}, and the "
                  f"components in {ORDER}; AsArrays, IntoArrays, ArraysFrom, AsComponents, IntoComponents, ComponentsFrom (on the slice and on the "
                  f"whole [_; {K}] array) return the same address and length as the free functions",
                  f"check_slice_into::<{ty}, {C}, {n}, {K}>();",
                  ["palette::cast::into_array_slice", "palette::cast::into_component_slice", "AsArrays/IntoArrays/ArraysFrom for [C], [C; M]",
                   "AsComponents/IntoComponents/ComponentsFrom for [C], [C; M]"], f"slices of 0..={K} colours (symbolic length), {allc}", unwind=max(K, n) + 2)
        o.harness(f"c04_{key}_slice_into_mut",
                  f"&mut [{sh}] of any length 1..={K}: into_array_slice_mut and into_component_slice_mut return the same address and length len resp. len*{n}; "
                  f"writing one colour through either view changes exactly that colour's fields in {ORDER}; AsArraysMut, AsComponentsMut, "
                  f"IntoArrays, IntoComponents, ArraysFrom, ComponentsFrom agree on address and length",
                  f"check_slice_into_mut::<{ty}, {C}, {n}, {K}>();",
                  ["palette::cast::into_array_slice_mut", "palette::cast::into_component_slice_mut", "AsArraysMut/AsComponentsMut for [C], [C; M]",
                   "IntoArrays/IntoComponents/ArraysFrom/ComponentsFrom for &mut [C], &mut [C; M]"], f"slices of 1..={K} colours (symbolic length and index), {allc}", unwind=max(K, n) + 2)
        o.harness(f"c04_{key}_slice_from_arrays",
                  f"&[[{C}; {n}]] and &mut [[{C}; {n}]] of any length 0..={K}: from_array_slice(_mut) return the same address and length, item j of array i is the "
                  f"j-th declared field of colour i, a colour written by field name lands in exactly that array; ArraysAs(Mut), FromArrays, ArraysInto agree",
                  f"check_slice_from_arrays::<{ty}, {C}, {n}, {K}>();",
                  ["palette::cast::from_array_slice", "palette::cast::from_array_slice_mut", "ArraysAs/ArraysAsMut for [[T; N]], [[T; N]; M]",
                   "FromArrays/ArraysInto for &[[T; N]], &[[T; N]; M] and &mut"], f"slices of 0..={K} arrays (symbolic length and index), {allc}", unwind=max(K, n) + 2)
        o.harness(f"c04_{key}_slice_try_from_components",
                  f"&[{C}] of any length 0..={KC} as &[{sh}]: try_from_component_slice is Err exactly when len % {n} != 0; on Ok same address, len/{n} colours whose "
                  f"fields are the components in {ORDER}; from_component_slice, TryComponentsAs, ComponentsAs, TryFromComponents, FromComponents, "
                  f"TryComponentsInto, ComponentsInto give the same verdict, address and length",
                  f"check_slice_try_from_components::<{ty}, {C}, {n}, {KC}>();",
                  ["palette::cast::try_from_component_slice", "palette::cast::from_component_slice", "TryComponentsAs/ComponentsAs for [T], [T; M]",
                   "TryFromComponents/FromComponents/TryComponentsInto/ComponentsInto for &[T], &[T; M]"],
                  f"slices of 0..={KC} components (symbolic length), {allc} (from_component_slice on a non-multiple is a documented panic and not exercised)", unwind=KC + 2)
        o.harness(f"c04_{key}_slice_try_from_components_mut",
                  f"&mut [{C}] of any length 0..={KC} as &mut [{sh}]: try_from_component_slice_mut is Err exactly when len % {n} != 0 and then leaves the buffer "
                  f"unchanged; on Ok same address and len/{n} colours, a colour written by field name changes exactly its {n} components in {ORDER}; "
                  f"from_component_slice_mut and the *Mut / &mut trait front ends (on the slice and on the whole [_; {KC}] array) give the same verdict, address and length",
                  f"check_slice_try_from_components_mut::<{ty}, {C}, {n}, {KC}>();",
                  ["palette::cast::try_from_component_slice_mut", "palette::cast::from_component_slice_mut", "TryComponentsAsMut/ComponentsAsMut for [T]",
                   "TryFromComponents/FromComponents/TryComponentsInto/ComponentsInto for &mut [T]"],
                  f"slices of 0..={KC} components (symbolic length and index), {allc}", unwind=KC + 2)
        for L in range(0, 4):
            o.harness(f"c04_{key}_slice_box_chain_len{L}",
                      f"Box<[{sh}]> of {L} colours through into_array_slice_box, from_array_slice_box, into_component_slice_box, from_component_slice_box: every "
                      f"step keeps the address, the length is {L}, {L}, {L * n}, {L}, the contents appear in {ORDER}, the round trip is bit-identical and the final box is freed cleanly",
                      f"check_slice_box_chain::<{ty}, {C}, {n}, {L}, {L * n}>();",
                      ["palette::cast::into_array_slice_box", "palette::cast::from_array_slice_box", "palette::cast::into_component_slice_box", "palette::cast::from_component_slice_box"],
                      f"boxed slice of exactly {L} colours, {allc}", unwind=L * n + 2, thorough=not quick_chain(L))
        L = 2
        o.harness(f"c04_{key}_slice_box_front_ends",
                  f"Box<[{sh}]> of {L} colours: each reinterpreted box (as arrays, as components, and back) is freed under its new type without a memory-safety "
                  f"violation; the owned (IntoArrays, ArraysFrom, FromArrays, ArraysInto, IntoComponents, ComponentsFrom, FromComponents, ComponentsInto, "
                  f"TryComponentsInto) and borrowed, shared and mutable (AsArrays(Mut), AsComponents(Mut), ArraysAs(Mut), TryComponentsAs(Mut), ComponentsAs(Mut), From*/Into* on &Box and &mut Box) front ends keep the address and scale the length by {n}",
                  f"check_slice_box_drop_and_front_ends::<{ty}, {C}, {n}, {L}, {L * n}>();",
                  ["IntoArrays/FromArrays/IntoComponents/TryFromComponents for Box<[_]>", "AsArrays(Mut)/AsComponents(Mut)/ArraysAs(Mut)/TryComponentsAs(Mut) for Box<[_]>",
                   "palette::cast::into_array_slice_box", "palette::cast::from_array_slice_box", "palette::cast::into_component_slice_box", "palette::cast::try_from_component_slice_box"],
                  f"boxed slice of exactly {L} colours, {allc}", unwind=L * n + 2)
        for LC in range(0, KC + 1):
            o.harness(f"c04_{key}_slice_box_try_len{LC}",
                      f"Box<[{C}]> of {LC} components as Box<[{sh}]>: try_from_component_slice_box {'succeeds' if LC % n == 0 else 'is rejected'} "
                      f"({LC} % {n} {'==' if LC % n == 0 else '!='} 0); " + (f"same address, {LC // n} colours with the components in {ORDER}, freed as colours" if LC % n == 0 else
                                                                            "the error hands back the same allocation with the same length and contents") +
                      "; Box::<[_]>::try_from_components gives the same verdict, address and length",
                      f"check_slice_box_try::<{ty}, {C}, {n}, {LC}>();",
                      ["palette::cast::try_from_component_slice_box", "TryFromComponents<Box<[T]>> for Box<[C]>", "BoxedSliceCastError::values"],
                      f"boxed slice of exactly {LC} components, {allc}", unwind=LC + 2, thorough=not quick_try(LC))
        for CAP in range(0, 4):
            o.harness(f"c04_{key}_vec_chain_cap{CAP}",
                      f"Vec<{sh}> with capacity {CAP} and any length 0..={CAP} through into_array_vec, from_array_vec, into_component_vec, from_component_vec: every step "
                      f"keeps the address, (len, capacity) is (len, {CAP}), (len, {CAP}), (len*{n}, {CAP * n}), (len, {CAP}), the contents appear in {ORDER}, the round trip is "
                      f"bit-identical and the final vector is freed cleanly",
                      f"check_vec_chain::<{ty}, {C}, {n}, {CAP}, {CAP * n}>();",
                      ["palette::cast::into_array_vec", "palette::cast::from_array_vec", "palette::cast::into_component_vec", "palette::cast::from_component_vec"],
                      f"capacity exactly {CAP} colours, symbolic length 0..={CAP}, {allc}", unwind=CAP * n + 2, thorough=not quick_chain(CAP))
        CAP = 2
        o.harness(f"c04_{key}_vec_front_ends",
                  f"Vec<{sh}> with capacity {CAP} and any length 0..={CAP}: each reinterpreted vector (as arrays, as components, and back) is freed under its new element type "
                  f"without a memory-safety violation; the owned and the borrowed (shared and mutable: As*/As*Mut, *As/*AsMut, From*/Into* on &Vec and &mut Vec) trait front ends for Vec keep the address and scale length and capacity by {n}",
                  f"check_vec_drop_and_front_ends::<{ty}, {C}, {n}, {CAP}, {CAP * n}>();",
                  ["IntoArrays/FromArrays/IntoComponents/TryFromComponents for Vec<_>", "AsArrays(Mut)/AsComponents(Mut)/ArraysAs(Mut)/TryComponentsAs(Mut) for Vec<_>",
                   "palette::cast::into_array_vec", "palette::cast::from_array_vec", "palette::cast::into_component_vec", "palette::cast::try_from_component_vec"],
                  f"capacity exactly {CAP} colours, symbolic length 0..={CAP}, {allc}", unwind=CAP * n + 2)
        for CAPC in range(0, KC + 1):
            o.harness(f"c04_{key}_vec_try_cap{CAPC}",
                      f"Vec<{C}> with capacity {CAPC} and any length 0..={CAPC} as Vec<{sh}>: try_from_component_vec is Err exactly when len % {n} != 0 or capacity % {n} != 0"
                      f" ({'here: never for the capacity' if CAPC % n == 0 else 'here: always, the capacity is not a multiple'}), the error kind names a mismatch that exists, and "
                      f"the error hands back the same allocation with the same length, capacity and contents; on Ok same address, len/{n} and capacity/{n}, components in "
                      f"{ORDER}, freed as colours; Vec::<_>::try_from_components gives the same verdict",
                      f"check_vec_try::<{ty}, {C}, {n}, {CAPC}>();",
                      ["palette::cast::try_from_component_vec", "TryFromComponents<Vec<T>> for Vec<C>", "VecCastError::values", "VecCastError::kind"],
                      f"capacity exactly {CAPC} components, symbolic length 0..={CAPC}, {allc}", unwind=CAPC + 2, thorough=not quick_try(CAPC))

    # ------------------------------------------------------------------ map_*_in_place
    MAPS = [
        ("srgb_u8_to_linsrgb_u8", "palette::Srgb<u8>", "palette::LinSrgb<u8>", "u8", 3, "|f: [u8; 3]| [f[2] ^ 0x55, f[0], f[1].wrapping_add(1)]"),
        ("srgba_u8_to_packed", "palette::Srgba<u8>", f"palette::cast::Packed<{RGBA}, [u8; 4]>", "u8", 4, "|f: [u8; 4]| [f[3], f[2], f[1], !f[0]]"),
        ("lab_f64_to_xyz_f64", f"palette::Lab<{D65}, f64>", f"palette::Xyz<{D65}, f64>", "f64", 3, "|f: [f64; 3]| [f[1], f[2], f64::from_bits(f[0].to_bits() ^ 1)]"),
    ]
    for mi, (key, A, B, C, n, m) in enumerate(MAPS):
        for CAP in (0, 1, 2, 3):
            o.harness(f"c04_map_vec_{key}_cap{CAP}",
                      f"map_vec_in_place from Vec<{A}> (capacity {CAP}, any length) to Vec<{B}>: the closure sees every element exactly once, in order and unaltered; the result "
                      f"reuses the allocation (same address, length and capacity), holds the closure's outputs bit for bit, and is freed cleanly",
                      f"check_map_vec::<{A}, {B}, {C}, {n}, {CAP}>({m});", ["palette::cast::map_vec_in_place"],
                      f"capacity exactly {CAP}, symbolic length 0..={CAP}, all {C} bit patterns; one fixed bijective closure (a panicking closure is not modelled)", unwind=CAP * n + 2, thorough=mi > 0 and CAP in (1, 3))
        for L in (0, 1, 2, 3):
            o.harness(f"c04_map_slice_box_{key}_len{L}",
                      f"map_slice_box_in_place from Box<[{A}]> of {L} elements to Box<[{B}]>: the closure sees every element exactly once, in order and unaltered; the result "
                      f"reuses the allocation (same address and length), holds the closure's outputs bit for bit, and is freed cleanly",
                      f"check_map_slice_box::<{A}, {B}, {C}, {n}, {L}>({m});", ["palette::cast::map_slice_box_in_place"],
                      f"exactly {L} elements, all {C} bit patterns; one fixed bijective closure (a panicking closure is not modelled)", unwind=L * n + 2, thorough=mi > 0 and L in (1, 3))

    # ------------------------------------------------------------------ unsigned integer casts
    for key, ty, U, has_from in UREPR:
        sh = ty.replace("palette::encoding::", "").replace("palette::rgb::channels::", "").replace("palette::luma::", "").replace("palette::cast::", "")
        o.harness(f"c04_uint_{key}_single",
                  f"{sh}: into_uint / from_uint are the identity on the stored integer; into_uint_ref / from_uint_ref / into_uint_mut / from_uint_mut return the "
                  f"address they were given and writes through one view are read through the other",
                  f"check_uint_single::<{ty}, {U}>();",
                  ["palette::cast::into_uint", "palette::cast::from_uint", "palette::cast::into_uint_ref", "palette::cast::from_uint_ref",
                   "palette::cast::into_uint_mut", "palette::cast::from_uint_mut"], f"all {U} values")
        if has_from:
            o.harness(f"c04_uint_{key}_front_ends",
                      f"{sh}: the From / AsRef / AsMut impls between the colour, {U} and their references (impl_uint_casts_self!, impl_uint_casts_other!) give the "
                      f"same value and address as the free functions",
                      f"c04_uint_front_ends!({ty}, {U});", [f"impl_uint_casts_self!/impl_uint_casts_other!({sh})"], f"all {U} values")
        K = 3
        o.harness(f"c04_uint_{key}_slices",
                  f"[{sh}; {K}] by value and slices of any length 0..={K}: into/from_uint_array, into/from_uint_slice(_mut) keep every integer, the address and the "
                  f"length; writes go through; AsUints(Mut), UintsAs(Mut), IntoUints, UintsFrom, FromUints, UintsInto (on slices, on the whole array and on references to it) agree",
                  f"check_uint_slices::<{ty}, {U}, {K}>();",
                  ["palette::cast::into_uint_array", "palette::cast::from_uint_array", "palette::cast::into_uint_slice", "palette::cast::from_uint_slice",
                   "palette::cast::into_uint_slice_mut", "palette::cast::from_uint_slice_mut", "AsUints/AsUintsMut/UintsAs/UintsAsMut", "IntoUints/UintsFrom/FromUints/UintsInto"],
                  f"arrays of {K}, slices of 0..={K} (symbolic length and index), all {U} values", unwind=K + 2)
        for L in (0, 1, 2, 3):
            o.harness(f"c04_uint_{key}_owned_len{L}",
                      f"Box<[{sh}]> of {L} items and Vec<{sh}> with capacity {L} and any length: into/from_uint_slice_box and into/from_uint_vec keep the address, length, "
                      f"capacity and every integer; the IntoUints / UintsFrom / FromUints / UintsInto (owned, & and &mut) and AsUints(Mut) / UintsAs(Mut) front ends agree; each reinterpreted "
                      f"box or vector is freed under its new element type without a memory-safety violation",
                      f"check_uint_owned::<{ty}, {U}, {L}>();",
                      ["palette::cast::into_uint_slice_box", "palette::cast::from_uint_slice_box", "palette::cast::into_uint_vec", "palette::cast::from_uint_vec",
                       "IntoUints/UintsFrom/FromUints/UintsInto for Box<[_]>, Vec<_>", "AsUints/AsUintsMut/UintsAs/UintsAsMut for Box<[_]>, Vec<_>"],
                      f"exactly {L} items / capacity exactly {L} with symbolic length 0..={L}, all {U} values", unwind=L + 2)

    # ------------------------------------------------------------------ length arithmetic at symbolic usize
    FORMS = [("", "check_len_arithmetic", "shared slices", ["palette::cast::into_component_slice", "palette::cast::into_array_slice", "palette::cast::try_from_component_slice"],
              "into_component_slice multiplies the length by {n} without overflow whenever len <= usize::MAX/{n} (implied by the slice size invariant for sized components), "
              "into_array_slice keeps it, and try_from_component_slice is Err exactly when m % {n} != 0 and otherwise returns m/{n} colours"),
             ("_mut", "check_len_arithmetic_mut", "mutable slices", ["palette::cast::into_component_slice_mut", "palette::cast::try_from_component_slice_mut"],
              "into_component_slice_mut multiplies the length by {n} without overflow whenever len <= usize::MAX/{n}, and try_from_component_slice_mut is Err exactly when "
              "m % {n} != 0 and otherwise returns m/{n} colours"),
             ("_box", "check_len_arithmetic_box", "boxed slices", ["palette::cast::into_component_slice_box", "palette::cast::try_from_component_slice_box"],
              "into_component_slice_box multiplies the length by {n} without overflow whenever len <= usize::MAX/{n}, and try_from_component_slice_box is Err exactly when "
              "m % {n} != 0 (handing back a box of the same length) and otherwise returns m/{n} colours")]
    for n in (1, 3, 4):
        for suf, fn, what, fns, text in FORMS:
            o.harness(f"c04_len_arithmetic{suf}_n{n}",
                      f"length arithmetic of the casts of {what} at every usize, on the real functions instantiated with a type of {n} zero-sized components "
                      f"(Packed<(), [(); {n}]>: slices of any length exist without a buffer): " + text.format(n=n),
                      f"{fn}::<{n}>();", fns,
                      f"every usize length (len <= usize::MAX/{n} for the multiplication); zero-sized components only - stands for the arithmetic, not for the memory "
                      f"accesses, of buffers longer than the other harnesses' bounds; the Vec forms cannot be reached this way (a Vec of zero-sized items has capacity usize::MAX)")
    o.write()


if __name__ == "__main__":
    gen()
