"""C12: hex strings (rgb/hex.rs, FromStr / LowerHex / UpperHex in rgb/rgb.rs, alpha/alpha.rs), packed integers
(rgb/channels.rs, luma/channels.rs, cast/packed.rs) and named colours (named.rs, named/codegen.rs vs codegen/res/svg_colors.txt)."""
import os
from common import Out

REPO = os.environ.get("PV_REPO", "/repo")

# key, type, documented digit counts (read off the FromStr impls / their doc comments), compare the value exactly?
PARSE = [
    ("rgb_u8", "Rgb<Std, u8>", [3, 6]),
    ("rgba_u8", "Rgba<Std, u8>", [4, 8]),
    ("rgb_u16", "Rgb<Std, u16>", [3, 6, 12]),
    ("rgba_u16", "Rgba<Std, u16>", [4, 8, 16]),
    ("rgb_u32", "Rgb<Std, u32>", [3, 6, 12, 24]),
    ("rgba_u32", "Rgba<Std, u32>", [4, 8, 16, 32]),
    ("rgb_f32", "Rgb<Std, f32>", [3, 6, 12]),
    ("rgba_f32", "Rgba<Std, f32>", [4, 8, 16]),
    ("rgb_f64", "Rgb<Std, f64>", [3, 6, 12, 24]),
    ("rgba_f64", "Rgba<Std, f64>", [4, 8, 16, 32]),
]

HEXFNS = {3: "rgb_from_hex_4bit", 6: "rgb_from_hex_8bit", 12: "rgb_from_hex_16bit", 24: "rgb_from_hex_32bit",
          4: "rgba_from_hex_4bit", 8: "rgba_from_hex_8bit", 16: "rgba_from_hex_16bit", 32: "rgba_from_hex_32bit"}


def parse_fns(ty, allowed, upto):
    ty = ty.replace("Std", "S")
    return [f"impl FromStr for palette::rgb::{ty}"] + [f"palette::rgb::hex::{HEXFNS[n]}" for n in allowed if n + 1 <= upto]


def allowed_txt(allowed):
    return "/".join(str(n) for n in allowed)


MAXU = "usize::MAX"


def allowed_arr(allowed):
    return "[" + ", ".join([str(n) for n in allowed] + [MAXU] * (4 - len(allowed))) + "]"


def helpers(N):
    """Loop-free per-length helpers (see the NOTE on `spec` in c12_support.rs: harness code must not contain loops)."""
    ascii_ = " & ".join(f"(b[{i}] < 0x80)" for i in range(N))
    hex_ = "\n        & ".join(f"(({i} < from) | ({i} >= len) | is_hex(b[{i}]))" for i in range(N))
    return f"""
// every byte of the buffer is ASCII
fn ascii_{N}(b: &[u8; {N}]) -> bool {{
    {ascii_}
}}

// every byte at the positions from..len is an ASCII hex digit
fn hex_{N}(b: &[u8; {N}], from: usize, len: usize) -> bool {{
    {hex_}
}}
"""


def ncomp(allowed):
    return 3 if allowed[0] == 3 else 4


def unwind_for(allowed, lo, hi):
    """from_str_radix is the only loop reached (besides the 1-byte memcmp of strip_prefix). Its trip count is the number of
    digits of one component in the forms whose length lies in the harness's length range (8 / 4 / 2); bound = trips + 1.
    Arms for other lengths are unreachable under the length assumption, so their unwinding assertions hold trivially."""
    per = max([n // ncomp(allowed) for n in allowed if lo - 1 <= n <= hi] or [1])
    return max(per, 1) + 1


def ranges(allowed):
    """Length ranges, one per group of forms with the same component width: 0..=9 (the property's stated bound; 1- and
    2-digit components), then up to each longer form + 1 (for '#')."""
    out, lo = [(0, 9)], 10
    for n in allowed:
        if n + 1 > 9:
            out.append((lo, n + 1))
            lo = n + 2
    return out


def gen_parse(o, probe=False):
    sizes_needed = {9, 36}
    for key, ty, allowed in PARSE:
        sizes_needed |= {hi for _, hi in ranges(allowed)}
    for N in sorted(sizes_needed):
        o.parts.append(helpers(N))
    for key, ty, allowed in PARSE:
        isf = "f32" in ty or "f64" in ty
        wide = "u8" not in ty
        tys = ty.replace("Std", "S")
        syntax = f"an optional '#' followed by exactly {allowed_txt(allowed)} hex digits (0-9a-fA-F; no sign, no blank)"
        val_txt = "and the Ok value is the colour the digits denote" + (" (shorter forms widened with into_format)" if wide else "")
        # ---- family 1: every ASCII string, by length range ----------------------------------------------------------
        for lo, hi in ranges(allowed):
            N = hi
            o.harness(
                f"c12_parse_ascii_{key}_len{lo}_{hi}",
                f"strict and total parse of {tys}: for EVERY ASCII string of {lo}..={hi} bytes, `parse` does not panic, returns Ok "
                f"only if the string is {syntax}, returns Err only if it is not, {val_txt}. "
                f"The &str is built with from_utf8_unchecked, sound because every byte is < 0x80.",
                f"""
                let buf: [u8; {N}] = kani::any();
                let len: usize = kani::any();
                kani::assume(len >= {lo} && len <= {hi});
                kani::assume(ascii_{N}(&buf));
                let want = spec(buf[0], len, hex_{N}(&buf, 0, len), hex_{N}(&buf, 1, len), {allowed_arr(allowed)});
                kani::cover!(true);
                kani::cover!(want.is_some());
                check_parse::<{ty}, {N}>(&buf, len, want, true);
                """,
                parse_fns(ty, allowed, N),
                f"all 128^n ASCII byte strings of every length n in {lo}..={hi} (symbolic length, symbolic bytes)",
                unwind=unwind_for(allowed, lo, hi), thorough=(isf and "f64" in ty and lo > 0))
        # ---- family 2: every string of at most K Unicode scalar values ----------------------------------------------
        K = 9
        decl = "\n".join(f"let c{i}: char = kani::any();" for i in range(K))

        def unicode(name, NB, cap, thorough):
            push = "\n".join(f"if {i} < k {{ push_char(&mut buf, &mut len, c{i}); }}" for i in range(K))
            capl = ""
            if cap:
                tot = " + ".join(f"(if {i} < k {{ c{i}.len_utf8() }} else {{ 0 }})" for i in range(K))
                capl = f"kani::assume({tot} <= {cap});"
            o.harness(
                name,
                f"strict and total parse of {tys} on multi-byte input: for EVERY string of at most {K} Unicode scalar values "
                + (f"and at most {cap} bytes " if cap else "")
                + f"(each a symbolic `char`, encoded with char::encode_utf8, so 1- to 4-byte sequences at every position; valid UTF-8 by "
                f"construction), `parse` does not panic, returns Ok only for {syntax}, Err only otherwise, {val_txt}",
                f"""
                {decl}
                let k: usize = kani::any();
                kani::assume(k <= {K});
                {capl}
                kani::cover!(true);
                let mut buf = [0u8; {NB}];
                let mut len = 0usize;
                {push}
                kani::cover!(len >= 4 && buf[1] >= 0x80);
                let want = spec(buf[0], len, hex_{NB}(&buf, 0, len), hex_{NB}(&buf, 1, len), {allowed_arr(allowed)});
                check_parse::<{ty}, {NB}>(&buf, len, want, true);
                """,
                parse_fns(ty, allowed, cap or NB),
                f"all strings of k <= {K} Unicode scalar values (every `char` at every position)"
                + (f" whose UTF-8 encoding has at most {cap} bytes" if cap else f", up to {NB} bytes"),
                unwind=unwind_for(allowed, 0, cap or NB), thorough=thorough)

        if wide:
            unicode(f"c12_parse_unicode_{key}_le{K}_b9", 9, 9, False)
        unicode(f"c12_parse_unicode_{key}_le{K}", 4 * K, None, wide)


def gen():
    o = Out("c12_gen.rs", "use palette::rgb::{Rgb, Rgba};\nuse crate::c12_support::*;\n")
    gen_parse(o)
    o.write()


if __name__ == "__main__":
    gen()
