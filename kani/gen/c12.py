"""C12: hex strings (rgb/hex.rs, FromStr / LowerHex / UpperHex in rgb/rgb.rs, alpha/alpha.rs), packed integers
(rgb/channels.rs, luma/channels.rs, cast/packed.rs) and named colours (named.rs, named/codegen.rs vs codegen/res/svg_colors.txt)."""
import os
from common import Out

REPO = os.environ.get("PV_REPO", "/repo")

# key, type, documented digit counts (read off the FromStr impls / their doc comments), compare the value exactly?
PARSE = [
    ("rgb_u8", "Rgb<Std, u8>", [3, 6]),
    ("rgba_u8", "Rgba<Std, u8>", [4, 8]),
    ("rgb_u16", "Rgb<Std, u16>", [3, 6, 12]),
    ("rgba_u16", "Rgba<Std, u16>", [4, 8, 16]),
    ("rgb_u32", "Rgb<Std, u32>", [3, 6, 12, 24]),
    ("rgba_u32", "Rgba<Std, u32>", [4, 8, 16, 32]),
    ("rgb_f32", "Rgb<Std, f32>", [3, 6, 12]),
    ("rgba_f32", "Rgba<Std, f32>", [4, 8, 16]),
    ("rgb_f64", "Rgb<Std, f64>", [3, 6, 12, 24]),
    ("rgba_f64", "Rgba<Std, f64>", [4, 8, 16, 32]),
]

HEXFNS = {3: "rgb_from_hex_4bit", 6: "rgb_from_hex_8bit", 12: "rgb_from_hex_16bit", 24: "rgb_from_hex_32bit",
          4: "rgba_from_hex_4bit", 8: "rgba_from_hex_8bit", 16: "rgba_from_hex_16bit", 32: "rgba_from_hex_32bit"}


def parse_fns(ty, allowed, upto):
    ty = ty.replace("Std", "S")
    return [f"impl FromStr for palette::rgb::{ty}"] + [f"palette::rgb::hex::{HEXFNS[n]}" for n in allowed if n + 1 <= upto]


def allowed_txt(allowed):
    return "/".join(str(n) for n in allowed)


def gen_parse(o):
    for key, ty, allowed in PARSE:
        isf = "f32" in ty or "f64" in ty
        # ---- family 1: every ASCII string up to N bytes -------------------------------------------------------------
        # N = 9 is the property's stated string length; the types that accept longer forms get a second harness
        # with N = longest accepted form + 1 ('#') so that every match arm of the impl is decided.
        sizes = [9]
        if max(allowed) + 1 > 9:
            sizes.append(max(allowed) + 1)
        for N in sizes:
            o.harness(
                f"c12_parse_ascii_{key}_le{N}",
                f"strict and total parse of {ty.replace('Std', 'S')}: for EVERY ASCII string of at most {N} bytes, `parse` does not panic, returns Ok "
                f"only if the string is an optional '#' followed by exactly {allowed_txt(allowed)} hex digits (0-9a-fA-F; no sign, no blank), "
                f"returns Err only if it is not, and the Ok value is the colour the digits denote"
                + (" (shorter forms widened with into_format)" if "u8" not in ty else "")
                + ". The &str is built with from_utf8_unchecked, sound because every byte is < 0x80.",
                f"""
                let buf: [u8; {N}] = kani::any();
                let len: usize = kani::any();
                kani::assume(len <= {N});
                let mut i = 0;
                while i < {N} {{
                    kani::assume(buf[i] < 0x80);
                    i += 1;
                }}
                kani::cover!(true);
                check_parse::<{ty}, {N}>(&buf, len, &{allowed}, true);
                """,
                parse_fns(ty, allowed, N),
                f"all 128^n ASCII byte strings of every length n <= {N} (symbolic length, symbolic bytes)",
                unwind=N + 2)
        # ---- family 2: every string of at most K Unicode scalar values ----------------------------------------------
        K = 9
        NB = 4 * K
        o.harness(
            f"c12_parse_unicode_{key}_le{K}",
            f"strict and total parse of {ty.replace('Std', 'S')} on multi-byte input: for EVERY string of at most {K} Unicode scalar values (each a symbolic "
            f"`char`, encoded with char::encode_utf8, so 1- to 4-byte sequences at every position; valid UTF-8 by construction), `parse` does not "
            f"panic, returns Ok only for an optional '#' followed by exactly {allowed_txt(allowed)} hex digits with the denoted value, and Err only otherwise",
            f"""
            let cs: [char; {K}] = kani::any();
            let k: usize = kani::any();
            kani::assume(k <= {K});
            kani::cover!(true);
            let mut buf = [0u8; {NB}];
            let mut len = 0usize;
            let mut i = 0;
            while i < {K} {{
                if i < k {{
                    push_char(&mut buf, &mut len, cs[i]);
                }}
                i += 1;
            }}
            check_parse::<{ty}, {NB}>(&buf, len, &{allowed}, true);
            """,
            parse_fns(ty, allowed, NB),
            f"all strings of k <= {K} Unicode scalar values (all 0x10F800 chars per position), up to {NB} bytes",
            unwind=NB + 2)


def gen():
    o = Out("c12_gen.rs", "use palette::rgb::{Rgb, Rgba};\nuse crate::c12_support::*;\n")
    gen_parse(o)
    o.write()


if __name__ == "__main__":
    gen()
