"""C12: hex strings (rgb/hex.rs, FromStr / LowerHex / UpperHex in rgb/rgb.rs, alpha/alpha.rs), packed integers
(rgb/channels.rs, luma/channels.rs, cast/packed.rs) and named colours (named.rs, named/codegen.rs vs codegen/res/svg_colors.txt)."""
import os
from common import Out

REPO = os.environ.get("PV_REPO", "/repo")

# key, type, documented digit counts (read off the FromStr impls / their doc comments), compare the value exactly?
PARSE = [
    ("rgb_u8", "Rgb<Std, u8>", [3, 6]),
    ("rgba_u8", "Rgba<Std, u8>", [4, 8]),
    ("rgb_u16", "Rgb<Std, u16>", [3, 6, 12]),
    ("rgba_u16", "Rgba<Std, u16>", [4, 8, 16]),
    ("rgb_u32", "Rgb<Std, u32>", [3, 6, 12, 24]),
    ("rgba_u32", "Rgba<Std, u32>", [4, 8, 16, 32]),
    ("rgb_f32", "Rgb<Std, f32>", [3, 6, 12]),
    ("rgba_f32", "Rgba<Std, f32>", [4, 8, 16]),
    ("rgb_f64", "Rgb<Std, f64>", [3, 6, 12, 24]),
    ("rgba_f64", "Rgba<Std, f64>", [4, 8, 16, 32]),
]

HEXFNS = {3: "rgb_from_hex_4bit", 6: "rgb_from_hex_8bit", 12: "rgb_from_hex_16bit", 24: "rgb_from_hex_32bit",
          4: "rgba_from_hex_4bit", 8: "rgba_from_hex_8bit", 16: "rgba_from_hex_16bit", 32: "rgba_from_hex_32bit"}


def parse_fns(ty, allowed, hi, lo=0):
    """The impl plus the hex.rs helpers of the forms whose length lies in the harness's length range."""
    ty = ty.replace("Std", "S")
    return [f"impl FromStr for palette::rgb::{ty}"] + [f"palette::rgb::hex::{HEXFNS[n]}" for n in allowed if lo - 1 <= n <= hi]


def tidy(body):
    """Re-indents a generated harness body by bracket depth (the bodies are assembled from multi-line pieces)."""
    out, depth = [], 0
    for line in body.strip().splitlines():
        t = line.strip()
        if not t:
            continue
        d = depth - (1 if t[0] in "})]" else 0)
        out.append("    " * max(d, 0) + t)
        code = t.split("//")[0] if not t.startswith("assert") else t
        depth += sum(code.count(c) for c in "{([") - sum(code.count(c) for c in "})]")
    return "\n".join(out)


class Out12(Out):
    def harness(self, name, doc, body, *a, **k):
        super().harness(name, doc, tidy(body), *a, **k)


def allowed_txt(allowed):
    return "/".join(str(n) for n in allowed)


MAXU = "usize::MAX"


def allowed_arr(allowed):
    return "[" + ", ".join([str(n) for n in allowed] + [MAXU] * (4 - len(allowed))) + "]"


def helpers(N):
    """Loop-free per-length helpers (see the NOTE on `spec` in c12_support.rs: harness code must not contain loops)."""
    ascii_ = " & ".join(f"(b[{i}] < 0x80)" for i in range(N))
    hex_ = "\n        & ".join(f"(({i} < from) | ({i} >= len) | is_hex(b[{i}]))" for i in range(N))
    return f"""
// every byte of the buffer is ASCII
fn ascii_{N}(b: &[u8; {N}]) -> bool {{
    {ascii_}
}}

// every byte at the positions from..len is an ASCII hex digit
fn hex_{N}(b: &[u8; {N}], from: usize, len: usize) -> bool {{
    {hex_}
}}
"""


def ncomp(allowed):
    return 3 if allowed[0] == 3 else 4


def unwind_for(allowed, lo, hi):
    """from_str_radix is the only loop reached (besides the 1-byte memcmp of strip_prefix). Its trip count is the number of
    digits of one component in the forms whose length lies in the harness's length range (8 / 4 / 2); bound = trips + 1.
    Arms for other lengths are unreachable under the length assumption, so their unwinding assertions hold trivially."""
    per = max([n // ncomp(allowed) for n in allowed if lo - 1 <= n <= hi] or [1])
    return max(per, 1) + 1


def ranges(allowed):
    """Length ranges, one per group of forms with the same component width: 0..=9 (the property's stated bound; 1- and
    2-digit components), then up to each longer form + 1 (for '#')."""
    out, lo = [(0, 9)], 10
    for n in allowed:
        if n + 1 > 9:
            out.append((lo, n + 1))
            lo = n + 2
    return out


def gen_parse(o, probe=False):
    sizes_needed = {9, 36}
    for key, ty, allowed in PARSE:
        sizes_needed |= {hi for _, hi in ranges(allowed)}
    o.sizes = set(sizes_needed)
    for N in sorted(sizes_needed):
        o.parts.append(helpers(N))
    for key, ty, allowed in PARSE:
        isf = "f32" in ty or "f64" in ty
        wide = "u8" not in ty
        tys = ty.replace("Std", "S")
        syntax = f"an optional '#' followed by exactly {allowed_txt(allowed)} hex digits (0-9a-fA-F; no sign, no blank)"
        val_txt = ("and the Ok value is the colour the digits denote" + (" (shorter forms widened with into_format)" if wide else "")) if not isf else \
            "(the value of accepted strings is the subject of the c12_parse_value_* obligations)"
        value = "false" if isf else "true"
        # ---- family 1: every ASCII string, by length range ----------------------------------------------------------
        for lo, hi in ranges(allowed):
            N = hi
            o.harness(
                f"c12_parse_ascii_{key}_len{lo}_{hi}",
                f"strict and total parse of {tys}: for EVERY ASCII string of {lo}..={hi} bytes, `parse` does not panic, returns Ok "
                f"only if the string is {syntax}, returns Err only if it is not, {val_txt}. "
                f"The &str is built with from_utf8_unchecked, sound because every byte is < 0x80.",
                f"""
                let buf: [u8; {N}] = kani::any();
                let len: usize = kani::any();
                kani::assume(len >= {lo} && len <= {hi});
                kani::assume(ascii_{N}(&buf));
                let want = spec(buf[0], len, hex_{N}(&buf, 0, len), hex_{N}(&buf, 1, len), {allowed_arr(allowed)});
                kani::cover!(true);
                kani::cover!(want.is_some());
                check_parse::<{ty}, {N}>(&buf, len, want, {value});
                """,
                parse_fns(ty, allowed, hi, lo),
                f"all 128^n ASCII byte strings of every length n in {lo}..={hi} (symbolic length, symbolic bytes)",
                unwind=unwind_for(allowed, lo, hi), thorough=(lo > 0 and ("f64" in ty or ("u32" in ty and hi > 17 - (ncomp(allowed) == 3) * 4))))
        # ---- family 2: every string of at most K Unicode scalar values ----------------------------------------------
        K = 9
        decl = "\n".join(f"let c{i}: char = kani::any();" for i in range(K))

        def unicode(name, NB, cap, thorough):
            push = "\n".join(f"if {i} < k {{ push_char(&mut buf, &mut len, c{i}); }}" for i in range(K))
            tot = " + ".join(f"(if {i} < k {{ c{i}.len_utf8() }} else {{ 0 }})" for i in range(K))
            capl = f"let total = {tot};\n// at least one multi-byte character (ASCII-only strings: c12_parse_ascii_*)\nkani::assume(total > k);"
            if cap:
                capl += f"\nkani::assume(total <= {cap});"
            o.harness(
                name,
                f"strict and total parse of {tys} on multi-byte input: for EVERY string of at most {K} Unicode scalar values "
                + (f"and at most {cap} bytes " if cap else "")
                + f"that contains at least one multi-byte character (each symbol a symbolic `char`, encoded with char::encode_utf8, so 1- to 4-byte "
                f"sequences at every position; valid UTF-8 by construction; the ASCII-only strings are the c12_parse_ascii_* obligations), `parse` does "
                f"not panic and returns Err (the harness asserts the general contract: Ok only for {syntax}, Err only otherwise)",
                f"""
                {decl}
                let k: usize = kani::any();
                kani::assume(k <= {K});
                {capl}
                kani::cover!(true);
                let mut buf = [0u8; {NB}];
                let mut len = 0usize;
                {push}
                kani::cover!(len >= 4 && buf[1] >= 0x80);
                let want = spec(buf[0], len, hex_{NB}(&buf, 0, len), hex_{NB}(&buf, 1, len), {allowed_arr(allowed)});
                check_parse::<{ty}, {NB}>(&buf, len, want, {value});
                """,
                parse_fns(ty, allowed, cap or NB),
                f"all strings of k <= {K} Unicode scalar values (every `char` at every position) with at least one non-ASCII char"
                + (f" whose UTF-8 encoding has at most {cap} bytes" if cap else f", up to {NB} bytes"),
                unwind=unwind_for(allowed, 0, cap or NB), thorough=thorough)

        if wide:
            unicode(f"c12_parse_unicode_{key}_le{K}_b9", 9, 9, "f64" in ty)
        unicode(f"c12_parse_unicode_{key}_le{K}", 4 * K, None, wide)
        # ---- family 3 (float targets): value of every well-formed string, one harness per form ---------------------
        if isf:
            for n in allowed:
                N = n + 1
                if N not in o.sizes:
                    o.sizes.add(N)
                    o.parts.append(helpers(N))
                per = n // ncomp(allowed)
                src = {1: "u8", 2: "u8", 4: "u16", 8: "u32"}[per]
                o.harness(
                    f"c12_parse_value_{key}_{n}",
                    f"value of {tys} parsed from EVERY well-formed string with {n} hex digits (with or without '#', any letter case): Ok, and equal to the "
                    f"{src} colour the digits denote ({'each digit doubled, ' if per == 1 else ''}r, g, b{', a' if ncomp(allowed) == 4 else ''} order) widened with into_format",
                    f"""
                    let buf: [u8; {N}] = kani::any();
                    let len: usize = kani::any();
                    kani::assume(len == {n} || len == {N});
                    kani::assume(ascii_{N}(&buf));
                    let want = spec(buf[0], len, hex_{N}(&buf, 0, len), hex_{N}(&buf, 1, len), {allowed_arr(allowed)});
                    kani::assume(want.is_some());
                    kani::cover!(true);
                    kani::cover!(len == {N});
                    check_parse::<{ty}, {N}>(&buf, len, want, true);
                    """,
                    parse_fns(ty, [n], N) + [f"palette::rgb::Rgb::into_format ({src} -> {'f32' if 'f32' in ty else 'f64'})"],
                    f"all 22^{n} digit strings x optional '#'",
                    unwind=per + 1, thorough=True)


def gen_from_hex(o):
    for key, ty in (("rgb_u8", "Rgb<Std, u8>"), ("rgba_u8", "Rgba<Std, u8>")):
        tys = ty.replace("Std", "S")
        o.harness(
            f"c12_from_hex_{key}_is_parse",
            f"{tys}::from_hex(s) and s.parse() agree on EVERY ASCII string of at most 9 bytes: both Err, or both Ok with the same colour "
            f"(so everything decided about `parse` holds for the `from_hex` constructor)",
            f"""
            let buf: [u8; 9] = kani::any();
            let len: usize = kani::any();
            kani::assume(len <= 9);
            kani::assume(ascii_9(&buf));
            kani::cover!(true);
            // SAFETY: ASCII bytes
            let s = unsafe {{ core::str::from_utf8_unchecked(&buf[..len]) }};
            let a = <{ty}>::from_hex(s);
            let b = s.parse::<{ty}>();
            kani::cover!(a.is_ok());
            match (a, b) {{
                (Ok(x), Ok(y)) => assert!(x == y),
                (Err(_), Err(_)) => {{}}
                _ => assert!(false, "from_hex and parse disagree"),
            }}
            """,
            [f"palette::rgb::{tys}::from_hex", f"impl FromStr for palette::rgb::{tys}"],
            "all 128^n ASCII byte strings of every length n <= 9", unwind=3)


# ------------------------------------------------------------------------------------------------------------------
# (b) format -> parse round trip
FMT = [
    # key, type, component type, ncomp
    ("rgb_u8", "Rgb<Std, u8>", "u8", 3), ("rgba_u8", "Rgba<Std, u8>", "u8", 4),
    ("rgb_u16", "Rgb<Std, u16>", "u16", 3), ("rgba_u16", "Rgba<Std, u16>", "u16", 4),
    ("rgb_u32", "Rgb<Std, u32>", "u32", 3), ("rgba_u32", "Rgba<Std, u32>", "u32", 4),
]


def gen_format(o):
    for key, ty, ct, nc in FMT:
        per = {"u8": 2, "u16": 4, "u32": 8}[ct]
        n = per * nc
        names = ["red", "green", "blue", "alpha"][:nc]
        for spec_, upper in (("x", "false"), ("X", "true")):
            decl = "\n".join(f"let {c}: {ct} = kani::any();" for c in names)
            exp = "\n".join(
                f"assert!(w.b[{1 + ci * per + d}] == hexdigit(({c} as u32) >> {4 * (per - 1 - d)}, {upper}), \"digit {ci * per + d}\");"
                for ci, c in enumerate(names) for d in range(per))
            tys = ty.replace("Std", "S")
            o.harness(
                f"c12_format_{key}_{'upper' if upper == 'true' else 'lower'}",
                f"`{{:{spec_}}}` of EVERY {tys} writes exactly {n} {'upper' if upper == 'true' else 'lower'}-case hex digits, each component zero-padded to {per} digits in "
                f"{', '.join(names)} order, and parsing that string returns the same colour (also with a leading '#'). Formatting goes through the real "
                f"core::fmt machinery into a fixed stack buffer (harness `fmt::Write` sink instead of String).",
                f"""
                {decl}
                let c = <{ty}>::new({', '.join(names)});
                kani::cover!(true);
                let mut w = Sink::<{n + 1}>::new();
                w.b[0] = b'#';
                w.len = 1;
                let r = core::fmt::Write::write_fmt(&mut w, format_args!("{{:{spec_}}}", c));
                assert!(r.is_ok(), "formatting failed");
                assert!(w.len == {n + 1}, "number of digits written");
                {exp}
                // SAFETY: the assertions above established that every byte is an ASCII hex digit
                let s = unsafe {{ core::str::from_utf8_unchecked(&w.b[1..{n + 1}]) }};
                let back = s.parse::<{ty}>();
                assert!(back.is_ok(), "formatted colour rejected by parse");
                if let Ok(b) = back {{
                    assert!(b == c, "round trip changed the colour");
                }}
                let s = unsafe {{ core::str::from_utf8_unchecked(&w.b[0..{n + 1}]) }};
                let back = s.parse::<{ty}>();
                assert!(back.is_ok(), "'#' + formatted colour rejected by parse");
                if let Ok(b) = back {{
                    assert!(b == c, "round trip with '#' changed the colour");
                }}
                """,
                [f"impl fmt::{'UpperHex' if upper == 'true' else 'LowerHex'} for palette::rgb::Rgb<S, T>"]
                + ([f"impl fmt::{'UpperHex' if upper == 'true' else 'LowerHex'} for palette::Alpha<C, T>"] if nc == 4 else [])
                + [f"impl FromStr for palette::rgb::{tys}", f"palette::rgb::hex::{HEXFNS[n]}"],
                f"all 2^{8 * nc * per // 2} colours",
                unwind=per + 3, thorough=(ct != "u8"))


# ------------------------------------------------------------------------------------------------------------------
# (c) packed integers
ORDERS = {  # order -> component names from the most significant byte down
    "Abgr": ["alpha", "blue", "green", "red"],
    "Argb": ["alpha", "red", "green", "blue"],
    "Bgra": ["blue", "green", "red", "alpha"],
    "Rgba": ["red", "green", "blue", "alpha"],
}
LORDERS = {"La": ["luma", "alpha"], "Al": ["alpha", "luma"]}


def gen_pack(o):
    for Oname, comps in ORDERS.items():
        O = "RgbaOrder" if Oname == "Rgba" else Oname
        shift = {c: 8 * (3 - i) for i, c in enumerate(comps)}
        word = " | ".join(f"(({c} as u32) << {shift[c]})" for c in comps)
        word_ff = " | ".join(f"(({c} as u32) << {shift[c]})" if c != "alpha" else f"(0xFFu32 << {shift[c]})" for c in comps)
        layout = "0x" + "".join({"alpha": "AA", "red": "RR", "green": "GG", "blue": "BB"}[c] for c in comps)
        o.harness(
            f"c12_pack_{Oname.lower()}_u32",
            f"channel order {Oname}: for EVERY packed u32 `p` and EVERY Rgba<u8> `c`: unpack puts byte k of `p` into the documented channel ({layout}), "
            f"pack builds exactly that word, unpack(pack(c)) == c and pack(unpack(p)) == p; same through Rgba::from_u32/into_u32, "
            f"Rgb::from_u32 (alpha ignored) / Rgb::into_u32 (alpha = 0xFF) and the From/Into impls of Packed",
            f"""
            let p: u32 = kani::any();
            let red: u8 = kani::any();
            let green: u8 = kani::any();
            let blue: u8 = kani::any();
            let alpha: u8 = kani::any();
            kani::cover!(true);
            let c = Rgba::<Std, u8>::new(red, green, blue, alpha);
            // unpack: documented byte positions
            let u: Rgba<Std, u8> = Packed::<{O}, u32> {{ color: p, channel_order: PhantomData }}.unpack();
            assert!(u.red == (p >> {shift['red']}) as u8 && u.green == (p >> {shift['green']}) as u8);
            assert!(u.blue == (p >> {shift['blue']}) as u8 && u.alpha == (p >> {shift['alpha']}) as u8);
            // pack: documented word
            let w = {word};
            assert!(Packed::<{O}, u32>::pack(c).color == w);
            // round trips
            assert!(Packed::<{O}, u32>::pack(u).color == p);
            let back: Rgba<Std, u8> = Packed::<{O}, u32>::pack(c).unpack();
            assert!(back == c);
            // Rgba / Rgb integer helpers
            assert!(Rgba::<Std, u8>::from_u32::<{O}>(p) == u && c.into_u32::<{O}>() == w);
            assert!(Rgb::<Std, u8>::from_u32::<{O}>(p) == u.color);
            assert!(c.color.into_u32::<{O}>() == ({word_ff}));
            // From / Into
            let pk: Packed<{O}, u32> = c.into();
            assert!(pk.color == w);
            let pk: Packed<{O}, u32> = c.color.into();
            assert!(pk.color == ({word_ff}));
            let pk: Packed<{O}, u32> = Packed::from(p);
            assert!(pk.color == p);
            assert!(Rgba::<Std, u8>::from(pk) == u && Rgb::<Std, u8>::from(pk) == u.color);
            """,
            [f"impl ComponentOrder<Rgba<S, T>, [T; 4]> for palette::rgb::channels::{Oname}", "impl ComponentOrder<C, u32> for T (cast/packed.rs)",
             "palette::cast::Packed::{pack,unpack}", "palette::rgb::Rgba::{from_u32,into_u32}", "palette::rgb::Rgb::{from_u32,into_u32}",
             "impl From<Rgb/Rgba> for Packed, impl From<Packed> for Rgb/Rgba"],
            "all 2^32 packed values and all 2^32 Rgba<u8> colours")
        arr = ", ".join(comps)
        o.harness(
            f"c12_pack_{Oname.lower()}_array",
            f"channel order {Oname} on the array form, generic component: Packed<{O}, [T; 4]>::pack writes [{arr}], unpack reads the same slots, "
            f"both round trips are the identity (T = u8 and T = u16)",
            f"""
            let q: [u8; 4] = kani::any();
            let red: u8 = kani::any();
            let green: u8 = kani::any();
            let blue: u8 = kani::any();
            let alpha: u8 = kani::any();
            kani::cover!(true);
            let c = Rgba::<Std, u8>::new(red, green, blue, alpha);
            let a = Packed::<{O}, [u8; 4]>::pack(c).color;
            assert!(a[0] == {comps[0]} && a[1] == {comps[1]} && a[2] == {comps[2]} && a[3] == {comps[3]});
            let u: Rgba<Std, u8> = Packed::<{O}, [u8; 4]> {{ color: q, channel_order: PhantomData }}.unpack();
            assert!(u.{comps[0]} == q[0] && u.{comps[1]} == q[1] && u.{comps[2]} == q[2] && u.{comps[3]} == q[3]);
            let b = Packed::<{O}, [u8; 4]>::pack(u).color;
            assert!(b[0] == q[0] && b[1] == q[1] && b[2] == q[2] && b[3] == q[3]);
            let q: [u16; 4] = kani::any();
            let u: Rgba<Std, u16> = Packed::<{O}, [u16; 4]> {{ color: q, channel_order: PhantomData }}.unpack();
            assert!(u.{comps[0]} == q[0] && u.{comps[1]} == q[1] && u.{comps[2]} == q[2] && u.{comps[3]} == q[3]);
            let b = Packed::<{O}, [u16; 4]>::pack(u).color;
            assert!(b[0] == q[0] && b[1] == q[1] && b[2] == q[2] && b[3] == q[3]);
            """,
            [f"impl ComponentOrder<Rgba<S, T>, [T; 4]> for palette::rgb::channels::{Oname}", "palette::cast::Packed::{pack,unpack}"],
            "all [u8; 4] / [u16; 4] arrays and all Rgba<u8> colours")
    o.harness(
        "c12_pack_from_u32_default_orders",
        "the From impls between u32 and Rgb<u8> / Rgba<u8> use the documented default orders: Rgb <-> 0xAARRGGBB (alpha ignored on the way in, "
        "0xFF on the way out), Rgba <-> 0xRRGGBBAA, for EVERY u32 and EVERY colour",
        """
        let p: u32 = kani::any();
        let red: u8 = kani::any();
        let green: u8 = kani::any();
        let blue: u8 = kani::any();
        let alpha: u8 = kani::any();
        kani::cover!(true);
        let c = Rgb::<Std, u8>::from(p);
        assert!(c.red == (p >> 16) as u8 && c.green == (p >> 8) as u8 && c.blue == p as u8);
        let c = Rgba::<Std, u8>::from(p);
        assert!(c.red == (p >> 24) as u8 && c.green == (p >> 16) as u8 && c.blue == (p >> 8) as u8 && c.alpha == p as u8);
        assert!(u32::from(c) == p);
        let rgb = Rgb::<Std, u8>::new(red, green, blue);
        assert!(u32::from(rgb) == 0xFF00_0000 | ((red as u32) << 16) | ((green as u32) << 8) | blue as u32);
        assert!(Rgb::<Std, u8>::from(u32::from(rgb)) == rgb);
        let rgba = Rgba::<Std, u8>::new(red, green, blue, alpha);
        assert!(u32::from(rgba) == ((red as u32) << 24) | ((green as u32) << 16) | ((blue as u32) << 8) | alpha as u32);
        assert!(Rgba::<Std, u8>::from(u32::from(rgba)) == rgba);
        """,
        ["impl From<u32> for Rgb<S, u8>", "impl From<u32> for Rgba<S, u8>", "impl From<Rgb<S, u8>> for u32", "impl From<Rgba<S, u8>> for u32"],
        "all 2^32 integers and all 2^32 colours")
    o.harness(
        "c12_pack_integer_widths_first_slot_most_significant",
        "for a channel order defined on byte arrays (user-defined through the public ComponentOrder trait; slot k = channel k), the "
        "integer form of EVERY width (u8, u16, u32, u64, u128) puts slot 0 into the most significant byte, slot k into byte k from the "
        "top - the layout documented for the u32 orders (0xRRGGBBAA for Rgba) - and unpack reads the same positions back, for every "
        "array and every integer",
        """
        let a1: [u8; 1] = kani::any();
        let a2: [u8; 2] = kani::any();
        let a4: [u8; 4] = kani::any();
        let a8: [u8; 8] = kani::any();
        let a16: [u8; 16] = kani::any();
        kani::cover!(true);
        use palette::cast::ComponentOrder as CO;
        let w1 = <ByteOrderProbe as CO<[u8; 1], u8>>::pack(a1);
        assert!(w1 == a1[0]);
        let w2 = <ByteOrderProbe as CO<[u8; 2], u16>>::pack(a2);
        assert!(w2 == ((a2[0] as u16) << 8) | a2[1] as u16);
        let w4 = <ByteOrderProbe as CO<[u8; 4], u32>>::pack(a4);
        assert!(w4 == ((a4[0] as u32) << 24) | ((a4[1] as u32) << 16) | ((a4[2] as u32) << 8) | a4[3] as u32);
        let w8 = <ByteOrderProbe as CO<[u8; 8], u64>>::pack(a8);
        let mut e8 = 0u64;
        let mut k = 0;
        while k < 8 { e8 = (e8 << 8) | a8[k] as u64; k += 1; }
        assert!(w8 == e8);
        let w16 = <ByteOrderProbe as CO<[u8; 16], u128>>::pack(a16);
        let mut e16 = 0u128;
        let mut k = 0;
        while k < 16 { e16 = (e16 << 8) | a16[k] as u128; k += 1; }
        assert!(w16 == e16);
        let b1 = <ByteOrderProbe as CO<[u8; 1], u8>>::unpack(w1);
        let b2 = <ByteOrderProbe as CO<[u8; 2], u16>>::unpack(w2);
        let b4 = <ByteOrderProbe as CO<[u8; 4], u32>>::unpack(w4);
        let b8 = <ByteOrderProbe as CO<[u8; 8], u64>>::unpack(w8);
        let b16 = <ByteOrderProbe as CO<[u8; 16], u128>>::unpack(w16);
        assert!(b1[0] == a1[0] && b2[0] == a2[0] && b2[1] == a2[1]);
        let mut k = 0;
        while k < 4 { assert!(b4[k] == a4[k]); k += 1; }
        let mut k = 0;
        while k < 8 { assert!(b8[k] == a8[k]); k += 1; }
        let mut k = 0;
        while k < 16 { assert!(b16[k] == a16[k]); k += 1; }
        """,
        ["impl ComponentOrder<C, u8> for T", "impl ComponentOrder<C, u16> for T", "impl ComponentOrder<C, u32> for T",
         "impl ComponentOrder<C, u64> for T", "impl ComponentOrder<C, u128> for T (cast/packed.rs)"],
        "all byte arrays of 1, 2, 4, 8 and 16 bytes", unwind=18)
    for O, comps in LORDERS.items():
        shift = {c: 8 * (1 - i) for i, c in enumerate(comps)}
        word = " | ".join(f"(({c} as u16) << {shift[c]})" for c in comps)
        word_ff = " | ".join(f"(({c} as u16) << {shift[c]})" if c != "alpha" else f"(0xFFu16 << {shift[c]})" for c in comps)
        layout = "0x" + "".join({"alpha": "AA", "luma": "LL"}[c] for c in comps)
        o.harness(
            f"c12_pack_luma_{O.lower()}_u16",
            f"luma channel order {O}: for EVERY packed u16 and EVERY Lumaa<u8>: unpack/pack use the documented layout {layout}, both round trips are the "
            f"identity; same through Lumaa::from_u16/into_u16, Luma::from_u16 (alpha ignored) / into_u16 (alpha = 0xFF), the [u8; 2] form and the "
            f"From/Into impls of Packed",
            f"""
            let p: u16 = kani::any();
            let luma: u8 = kani::any();
            let alpha: u8 = kani::any();
            kani::cover!(true);
            let c = Lumaa::<Std, u8>::new(luma, alpha);
            let u: Lumaa<Std, u8> = Packed::<{O}, u16> {{ color: p, channel_order: PhantomData }}.unpack();
            assert!(u.luma == (p >> {shift['luma']}) as u8 && u.alpha == (p >> {shift['alpha']}) as u8);
            let w = {word};
            assert!(Packed::<{O}, u16>::pack(c).color == w);
            assert!(Packed::<{O}, u16>::pack(u).color == p);
            let back: Lumaa<Std, u8> = Packed::<{O}, u16>::pack(c).unpack();
            assert!(back == c);
            assert!(Lumaa::<Std, u8>::from_u16::<{O}>(p) == u && c.into_u16::<{O}>() == w);
            assert!(Luma::<Std, u8>::from_u16::<{O}>(p) == u.color);
            assert!(c.color.into_u16::<{O}>() == ({word_ff}));
            let a = Packed::<{O}, [u8; 2]>::pack(c).color;
            assert!(a[0] == {comps[0]} && a[1] == {comps[1]});
            let q: [u8; 2] = kani::any();
            let v: Lumaa<Std, u8> = Packed::<{O}, [u8; 2]> {{ color: q, channel_order: PhantomData }}.unpack();
            assert!(v.{comps[0]} == q[0] && v.{comps[1]} == q[1]);
            let pk: Packed<{O}, u16> = c.into();
            assert!(pk.color == w);
            let pk: Packed<{O}, u16> = c.color.into();
            assert!(pk.color == ({word_ff}));
            let pk: Packed<{O}, u16> = Packed::from(p);
            assert!(Lumaa::<Std, u8>::from(pk) == u && Luma::<Std, u8>::from(pk) == u.color);
            """,
            [f"impl ComponentOrder<Lumaa<S, T>, [T; 2]> for palette::luma::channels::{O}", "impl ComponentOrder<C, u16> for T (cast/packed.rs)",
             "palette::cast::Packed::{pack,unpack}", "palette::luma::Lumaa::{from_u16,into_u16}", "palette::luma::Luma::{from_u16,into_u16}"],
            "all 2^16 packed values and all 2^16 Lumaa<u8> colours")
    o.harness(
        "c12_pack_luma_from_u16_default_orders",
        "the From impls between u16 and Luma<u8> / Lumaa<u8> use the documented default orders: Luma <-> 0xAALL (alpha ignored in, 0xFF out), "
        "Lumaa <-> 0xLLAA, for EVERY u16 and EVERY colour",
        """
        let p: u16 = kani::any();
        let luma: u8 = kani::any();
        let alpha: u8 = kani::any();
        kani::cover!(true);
        let c = Luma::<Std, u8>::from(p);
        assert!(c.luma == p as u8);
        let c = Lumaa::<Std, u8>::from(p);
        assert!(c.luma == (p >> 8) as u8 && c.alpha == p as u8);
        assert!(u16::from(c) == p);
        let l = Luma::<Std, u8>::new(luma);
        assert!(u16::from(l) == 0xFF00 | luma as u16);
        assert!(Luma::<Std, u8>::from(u16::from(l)) == l);
        let la = Lumaa::<Std, u8>::new(luma, alpha);
        assert!(u16::from(la) == ((luma as u16) << 8) | alpha as u16);
        assert!(Lumaa::<Std, u8>::from(u16::from(la)) == la);
        """,
        ["impl From<u16> for Luma<S, u8>", "impl From<u16> for Lumaa<S, u8>", "impl From<Luma<S, u8>> for u16", "impl From<Lumaa<S, u8>> for u16"],
        "all 2^16 integers and all 2^16 colours")


# ------------------------------------------------------------------------------------------------------------------
# (d) named colours; the independent list is /repo/codegen/res/svg_colors.txt, read here (generation = check time)
def read_names():
    out = []
    for line in open(os.path.join(REPO, "codegen/res/svg_colors.txt")):
        line = line.rstrip("\n")
        if not line.strip():
            continue
        name, rgb = line.split("\t")
        r, g, b = (int(x) for x in rgb.split(","))
        out.append((name, r, g, b))
    return out


def near_misses(name, allnames):
    cand = [name.upper(), name.capitalize(), name[:-1], name + " "]
    seen, out = set(), []
    for c in cand:
        if c and c not in allnames and c not in seen:
            seen.add(c)
            out.append(c)
    return out


def gen_named(o):
    names = read_names()
    allnames = {n for n, *_ in names}
    longest = max(len(n) for n in allnames)
    NB = 24
    assert longest <= NB
    if NB not in o.sizes:
        o.sizes.add(NB)
        o.parts.insert(1, helpers(NB))

    # harness-side specification of from_str: the list as a loop-free chain over (length, three little-endian words)
    def k3(n):
        bs = n.encode() + b"\0" * (NB - len(n))
        return [int.from_bytes(bs[8 * i:8 * i + 8], "little") for i in range(3)]
    arms = "\n".join(
        f"    if (len == {len(n)}) & (w[0] == 0x{k3(n)[0]:x}) & (w[1] == 0x{k3(n)[1]:x}) & (w[2] == 0x{k3(n)[2]:x}) {{ return Some([{r}, {g}, {b}]); }}"
        for n, r, g, b in names)
    o.parts.append(f"""
// codegen/res/svg_colors.txt ({len(names)} lines) as a function of (length, the bytes as three little-endian words, zero padded)
fn svg_lookup(len: usize, w: [u64; 3]) -> Option<[u8; 3]> {{
{arms}
    None
}}

// the first `len` bytes of the buffer as three little-endian words, zero padded (loop-free)
fn words_24(buf: &[u8; 24], len: usize) -> [u64; 3] {{
    [{", ".join(" | ".join(f"(((if {i} < len {{ buf[{i}] }} else {{ 0 }}) as u64) << {8 * (i % 8)})" for i in range(8 * wi, 8 * wi + 8)) for wi in range(3))}]
}}
""")
    consts = "\n".join(f'assert!(named::{n.upper()} == Srgb::<u8>::new({r}, {g}, {b}), "{n.upper()}");' for n, r, g, b in names)
    o.harness(
        "c12_named_constants",
        f"every line `name r, g, b` of codegen/res/svg_colors.txt ({len(names)} lines) has an upper-case constant palette::named::NAME with exactly that value",
        "kani::cover!(true);\n" + consts,
        ["palette::named::<CONSTANT> (named/codegen.rs)"], f"the {len(names)} lines of svg_colors.txt (read when the harness is generated)")
    check = """
            let w = words_24(&buf, len);
            let want = svg_lookup(len, w);
            // SAFETY: valid UTF-8 by construction (ASCII bytes / char::encode_utf8 output)
            let s = unsafe { core::str::from_utf8_unchecked(&buf[..len]) };
            let got = named::from_str(s);
            kani::cover!(got.is_some());
            match (got, want) {
                (Some(c), Some(v)) => assert!(c.red == v[0] && c.green == v[1] && c.blue == v[2], "listed name found with another value"),
                (Some(_), None) => assert!(false, "found a name that is not in svg_colors.txt"),
                (None, Some(_)) => assert!(false, "listed name not found"),
                (None, None) => {}
            }
    """
    o.harness(
        f"c12_named_from_str_ascii_le{longest}",
        f"named::from_str agrees with codegen/res/svg_colors.txt on EVERY ASCII string of at most {longest} bytes (the longest name): Some(listed value) for the "
        f"{len(names)} lower-case names, None for everything else - case variants, prefixes, extensions, blanks, the empty string. The real phf lookup "
        f"(SipHash-1-3, displacement tables, key comparison) runs on symbolic input.",
        f"""
            let buf: [u8; {NB}] = kani::any();
            let len: usize = kani::any();
            kani::assume(len <= {longest});
            kani::assume(ascii_{NB}(&buf));
            kani::cover!(true);
        """ + check,
        ["palette::named::from_str", "palette::named::COLORS (phf map, named/codegen.rs)", "phf::Map::get / phf_shared::hash (SipHash-1-3)"],
        f"all 128^n ASCII strings of every length n <= {longest}", unwind=NB + 2)
    K = 6
    decl = "\n".join(f"let c{i}: char = kani::any();" for i in range(K))
    push = "\n".join(f"if {i} < k {{ push_char(&mut buf, &mut len, c{i}); }}" for i in range(K))
    o.harness(
        f"c12_named_from_str_unicode_le{K}",
        f"named::from_str agrees with codegen/res/svg_colors.txt on EVERY string of at most {K} Unicode scalar values (symbolic chars encoded with "
        f"char::encode_utf8; up to {4 * K} bytes): in particular no string containing a multi-byte character is found, and the lookup does not panic",
        f"""
            {decl}
            let k: usize = kani::any();
            kani::assume(k <= {K});
            kani::cover!(true);
            let mut buf = [0u8; {NB}];
            let mut len = 0usize;
            {push}
            kani::cover!(len >= 4 && buf[1] >= 0x80);
        """ + check,
        ["palette::named::from_str", "palette::named::COLORS (phf map, named/codegen.rs)", "phf::Map::get / phf_shared::hash (SipHash-1-3)"],
        f"all strings of k <= {K} Unicode scalar values (every `char` at every position)", unwind=NB + 2)
    o.harness(
        "c12_named_entries_count",
        f"the generated map has exactly {len(names)} entries (named::entries() yields {len(names)} items). With "
        f"c12_named_from_str_ascii_le{longest} (each of the {len(names)} distinct listed names is found, i.e. occupies an entry) this leaves no entry for any "
        f"other key, so no string of any length other than a listed name can be found (phf::Map::get only returns an entry whose stored key equals the argument)",
        f"""
        kani::cover!(true);
        assert!(named::entries().count() == {len(names)});
        """,
        ["palette::named::entries", "palette::named::COLORS"],
        f"the {len(names)} entries of the generated map", unwind=len(names) + 2)
    o.harness(
        "c12_named_names_colors_count",
        f"named::names() and named::colors() yield {len(names)} items each, like entries()",
        f"""
        kani::cover!(true);
        assert!(named::names().count() == {len(names)});
        assert!(named::colors().count() == {len(names)});
        """,
        ["palette::named::names", "palette::named::colors", "palette::named::COLORS"],
        f"the {len(names)} entries of the generated map", unwind=len(names) + 2, thorough=True)
    G = 8
    groups = [names[i:i + G] for i in range(0, len(names), G)]
    for gi, grp in enumerate(groups):
        body = ["kani::cover!(true);"]
        for n, r, g, b in grp:
            body.append(f'assert!(named::from_str("{n}") == Some(Srgb::<u8>::new({r}, {g}, {b})), "{n}");')
            for m in near_misses(n, allnames):
                body.append(f'assert!(named::from_str("{m}").is_none(), "near miss of {n}");')
        o.harness(
            f"c12_named_lookup_{gi:02d}_{grp[0][0]}_{grp[-1][0]}",
            f"named colours {grp[0][0]} .. {grp[-1][0]} of codegen/res/svg_colors.txt ({len(grp)} of {len(names)} lines) as concrete configurations: "
            f"named::from_str(lower-case name) is Some(the listed RGB value); the UPPER-CASE and Capitalised variants, the name without its last character and "
            f"the name followed by a blank are not found (unless such a string is itself listed)",
            "\n".join(body),
            ["palette::named::from_str", "palette::named::COLORS (phf map, named/codegen.rs)"],
            f"{len(grp)} names x (1 lookup + up to 4 near misses), concrete strings", unwind=longest + 4, thorough=False)


def gen():
    o = Out12("c12_gen.rs", "use core::marker::PhantomData;\nuse palette::cast::Packed;\nuse palette::luma::channels::{Al, La};\nuse palette::luma::{Luma, Lumaa};\n"
            "use palette::named;\nuse palette::rgb::channels::{Abgr, Argb, Bgra, Rgba as RgbaOrder};\nuse palette::rgb::{Rgb, Rgba};\nuse palette::Srgb;\n"
            "use crate::c12_support::*;\n")
    gen_parse(o)
    gen_from_hex(o)
    gen_format(o)
    gen_pack(o)
    gen_named(o)
    o.write()


if __name__ == "__main__":
    gen()
