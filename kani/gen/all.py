#!/usr/bin/env python3
"""python3-vt kani/gen/all.py [c05 c06 ...]  - regenerates the generated harness files (all by default)."""
import glob, importlib, os, sys
here = os.path.dirname(os.path.abspath(__file__))
sys.path.insert(0, here)
sys.path.insert(0, os.path.dirname(os.path.dirname(here)))
want = sys.argv[1:]
for f in sorted(glob.glob(os.path.join(here, "c[0-9][0-9]*.py"))):
    name = os.path.basename(f)[:-3]
    if want and name not in want:
        continue
    importlib.import_module(name).gen()
    print("generated from", name + ".py")
from pv import kani
kani.write_registry()
