#!/usr/bin/env python3
import glob, importlib, os, sys
sys.path.insert(0, os.path.dirname(os.path.abspath(__file__)))
for f in sorted(glob.glob(os.path.join(os.path.dirname(os.path.abspath(__file__)), "c[0-9][0-9]*.py"))):
    importlib.import_module(os.path.basename(f)[:-3]).gen()
    print("generated from", os.path.basename(f))
