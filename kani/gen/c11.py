"""C11: hues as angles (palette/src/hues.rs, palette/src/angle.rs)."""
from common import Out

HUES = ["RgbHue", "LabHue", "LuvHue", "OklabHue", "Cam16Hue"]
# 2^-22 relative = 2 ulp of the stored f32 angle; 2^-51 = 2 ulp of the stored f64 angle
SLACK = {"f32": "2.384185791015625e-7", "f64": "4.440892098500626e-16"}
LIM = "1048576.0"


def gen():
    o = Out("c11_gen.rs", "use palette::angle::{AngleEq, FromAngle, SignedAngle, UnsignedAngle};\nuse palette::hues::{Cam16Hue, LabHue, LuvHue, OklabHue, RgbHue};\nuse crate::support::*;\n")
    for F in ("f32", "f64"):
        th = F == "f64"
        fns_s = [f"<{F} as palette::angle::SignedAngle>::normalize_signed_angle"]
        fns_u = [f"<{F} as palette::angle::UnsignedAngle>::normalize_unsigned_angle"]
        bound = f"all {F} with |x| <= 2^20"
        for H in HUES:
            o.harness(f"c11_{H.lower()}_{F}_signed_range",
                      f"{H}<{F}>::into_degrees lies in [-180, 180] to within the rounding error of the stored angle (2 ulp of max(|x|, 360))",
                      f"""
                      let x: {F} = kani::any();
                      kani::assume(x.abs() <= {LIM});
                      kani::cover!(true);
                      let n = {H}::new(x).into_degrees();
                      let d = (x as f64).abs().max(360.0) * {SLACK[F]};
                      assert!(n as f64 >= -180.0 - d && n as f64 <= 180.0 + d);
                      """, fns_s + [f"palette::{H}::into_degrees"], bound, thorough=th and H != "RgbHue")
            o.harness(f"c11_{H.lower()}_{F}_unsigned_range",
                      f"{H}<{F}>::into_positive_degrees lies in [0, 360] to within the rounding error of the stored angle (2 ulp of max(|x|, 360))",
                      f"""
                      let x: {F} = kani::any();
                      kani::assume(x.abs() <= {LIM});
                      kani::cover!(true);
                      let n = {H}::new(x).into_positive_degrees();
                      let d = (x as f64).abs().max(360.0) * {SLACK[F]};
                      assert!(n as f64 >= -d && n as f64 <= 360.0 + d);
                      """, fns_u + [f"palette::{H}::into_positive_degrees"], bound, thorough=th and H != "RgbHue")
        H = "RgbHue"
        for kind, call, fns in (("signed", "into_degrees", fns_s), ("unsigned", "into_positive_degrees", fns_u)):
            o.harness(f"c11_{F}_{kind}_congruent",
                      f"{kind} normal form of a {F} angle is congruent to the stored angle modulo 360: some integer k has "
                      f"|n - (x - 360k)| <= 2 ulp(max(|x|, 360)) (k recomputed in the harness in f64 from x - n)",
                      f"""
                      let x: {F} = kani::any();
                      kani::assume(x.abs() <= {LIM});
                      kani::cover!(true);
                      let n = {H}::new(x).{call}();
                      let (xd, nd) = (x as f64, n as f64);
                      let k = ((xd - nd) / 360.0).round();
                      let d = xd.abs().max(360.0) * {SLACK[F]};
                      assert!((xd - 360.0 * k - nd).abs() <= d);
                      """, fns + [f"palette::{H}::{call}"], bound, thorough=th)
        o.harness(f"c11_{F}_signed_congruent_to_stored_precision",
                  f"signed normal form of a {F} angle is congruent to the stored angle modulo 360 to within the rounding error OF THE STORED "
                  f"ANGLE: some integer k has |n - (x - 360k)| <= 2 ulp(x) - in particular an angle already in (-180, 180) keeps its "
                  f"precision however small it is (no detour through a representation whose grid is that of 360)",
                  f"""
                  let x: {F} = kani::any();
                  kani::assume(x.abs() <= {LIM});
                  kani::cover!(true);
                  let n = {H}::new(x).into_degrees();
                  let (xd, nd) = (x as f64, n as f64);
                  let k = ((xd - nd) / 360.0).round();
                  let d = xd.abs() * {SLACK[F]};
                  assert!((xd - 360.0 * k - nd).abs() <= d);
                  """, fns_s + [f"palette::{H}::into_degrees"], bound, thorough=th)
        for k in (1, -1, 2, -3, 100, -100):
            kn = f"p{k}" if k > 0 else f"m{-k}"
            o.harness(f"c11_{F}_eq_turns_{kn}",
                      f"a hue equals itself shifted by {k} whole turn(s) whenever the shifted {F} angle is exactly representable",
                      f"""
                      let x: {F} = kani::any();
                      kani::assume(x.abs() <= {LIM});
                      let (xd, c) = (x as f64, {360.0 * k:.1f}f64);
                      let yd = xd + c;
                      // the f64 sum is exact iff both TwoSum residues vanish
                      kani::assume(yd - c == xd && yd - xd == c);
                      let y = yd as {F};
                      kani::assume(y as f64 == yd && y.abs() <= {LIM});
                      kani::cover!(true);
                      assert!({H}::new(x) == {H}::new(y));
                      """, [f"<{F} as palette::angle::AngleEq>::angle_eq", "impl PartialEq for RgbHue"] + fns_u,
                      bound + f", shift {k} turns", thorough=th or k not in (1, -1))
        o.harness(f"c11_{F}_eq_special",
                  f"0 == 360 == -360 and 180 == -180 for every hue type ({F})",
                  "kani::cover!(true);" + "\n".join(f"""
                  assert!({H}::new(0.0 as {F}) == {H}::new(360.0));
                  assert!({H}::new(0.0 as {F}) == {H}::new(-360.0));
                  assert!({H}::new(360.0 as {F}) == {H}::new(-360.0));
                  assert!({H}::new(180.0 as {F}) == {H}::new(-180.0));
                  assert!({H}::new(180.0 as {F}) != {H}::new(0.0));""" for H in HUES),
                  [f"<{F} as palette::angle::AngleEq>::angle_eq"], "the documented special angles")
        o.harness(f"c11_{F}_eq_reflexive",
                  f"every {F} hue equals itself",
                  f"""
                  let x: {F} = kani::any();
                  kani::assume(x.abs() <= {LIM});
                  kani::cover!(true);
                  assert!(RgbHue::new(x) == RgbHue::new(x));
                  """, [f"<{F} as palette::angle::AngleEq>::angle_eq"], bound)
        o.harness(f"c11_{F}_neq_apart",
                  f"hues whose {F} angles differ (exactly) by t with 1e-3*max(1,|x|) <= t <= 360 - 1e-3*max(1,|x|) compare unequal",
                  f"""
                  let x: {F} = kani::any();
                  let y: {F} = kani::any();
                  kani::assume(x.abs() <= {LIM} && y.abs() <= {LIM});
                  let t = y as f64 - x as f64;
                  let m = 1e-3 * (x as f64).abs().max(1.0);
                  kani::assume(t >= m && t <= 360.0 - m);
                  kani::cover!(true);
                  assert!({H}::new(x) != {H}::new(y));
                  """, [f"<{F} as palette::angle::AngleEq>::angle_eq"] + fns_u, "all pairs within " + bound, thorough=th)
        o.harness(f"c11_{F}_raw_accessors",
                  f"raw accessors return the stored angle bit for bit, from_degrees = new ({F})",
                  f"""
                  let x: {F} = kani::any();
                  kani::assume(x.abs() <= {LIM});
                  kani::cover!(true);
                  let h = {H}::new(x);
                  assert!(h.into_raw_degrees() == x && h.into_inner() == x);
                  assert!({H}::from_degrees(x).into_inner() == x);
                  """, [f"palette::{H}::{{into_raw_degrees,into_raw_radians,from_degrees,into_inner}}"], bound)
        o.harness(f"c11_u8_{F}_u8_roundtrip",
                  f"every 8-bit hue survives u8 -> {F} -> u8, and the {F} angle is code*360/256 exactly",
                  f"""
                  let c: u8 = kani::any();
                  kani::cover!(true);
                  let h = {H}::new(c).into_format::<{F}>();
                  assert!(h.into_inner() == c as {F} * 1.40625);
                  assert!(h.into_format::<u8>().into_inner() == c);
                  """, [f"<{F} as FromAngle<u8>>::from_angle", f"<u8 as FromAngle<{F}>>::from_angle"], "all 256 codes")
        o.harness(f"c11_{F}_u8_circle",
                  f"{F} -> u8 maps the circle onto 0..=255 with wrap-around: the code's bin centre code*1.40625 is within half a bin "
                  f"(0.703125 + 1e-3) of the angle, modulo 360",
                  f"""
                  let x: {F} = kani::any();
                  kani::assume(x >= -360.0 && x <= 720.0);
                  kani::cover!(true);
                  let c = {H}::new(x).into_format::<u8>().into_inner();
                  let centre = c as f64 * 1.40625;
                  let xd = x as f64;
                  let d = (xd - centre).abs().min((xd - centre - 360.0).abs()).min((xd - centre + 360.0).abs()).min((xd - centre - 720.0).abs());
                  assert!(d <= 0.703125 + 1e-3);
                  """, [f"<u8 as FromAngle<{F}>>::from_angle"] + fns_u, f"all {F} in [-360, 720]", thorough=th)
    for H in HUES:
        o.harness(f"c11_{H.lower()}_accessor_plumbing",
                  f"{H}: degree / radian accessors are consistent for ANY angle type: into_degrees = normalize_signed(stored), "
                  f"into_radians = to_radians(normalize_signed(stored)), positive forms likewise with the unsigned normal form, "
                  f"raw accessors skip normalisation, from_radians stores to_degrees, + / - / += / -= with an angle or a hue act on the stored angle in operand order (decided over a tagging component type)",
                  f"""
                  let t = Tag(kani::any());
                  kani::cover!(true);
                  let h = {H}::new(t);
                  assert!(h.into_degrees() == t.ns());
                  assert!(h.into_radians() == t.ns().d2r());
                  assert!(h.into_positive_degrees() == t.nu());
                  assert!(h.into_positive_radians() == t.nu().d2r());
                  assert!(h.into_raw_degrees() == t && h.into_raw_radians() == t.d2r() && h.into_inner() == t);
                  assert!({H}::from_radians(t).into_inner() == t.r2d());
                  assert!({H}::from_degrees(t).into_inner() == t);
                  assert!({H}::from(t).into_inner() == t);
                  let u = Tag(kani::any());
                  assert!((h + u).into_inner() == t + u && (h - u).into_inner() == t - u);
                  assert!((h + {H}::new(u)).into_inner() == t + u && (h - {H}::new(u)).into_inner() == t - u);
                  let mut g = h; g += u; assert!(g.into_inner() == t + u);
                  let mut g = h; g -= u; assert!(g.into_inner() == t - u);
                  let mut g = h; g += {H}::new(u); assert!(g.into_inner() == t + u);
                  let mut g = h; g -= {H}::new(u); assert!(g.into_inner() == t - u);
                  """, [f"palette::{H}::{{into_degrees,into_radians,into_positive_degrees,into_positive_radians,into_raw_degrees,into_raw_radians,from_radians,from_degrees}}"],
                  "all 2^32 tags; component type = harness tagging type (plumbing only)")
    o.write()


if __name__ == "__main__":
    gen()
