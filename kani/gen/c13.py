"""C13: in-place conversion (FromColorMut / IntoColorMut / FromColorUnclampedMut guards, Vec / Box<[T]> FromColor,
cast::map_vec_in_place / map_slice_box_in_place) equals the out-of-place conversion, reuses the memory, and the guards
restore on drop / restore() and leave the converted state on forget.

Colour types: A = Hsv<Srgb, W>, B = Hwb<Srgb, W>, C = Hsl<Srgb, W> over the harness wrapping-integer component type W
(src/c13_support.rs). Buffers have a concrete length per harness (0..=3) and symbolic contents."""
import re
from common import Out

W_NOTE = ("Component type: the harness wrapping-integer type W (wrapping i8 arithmetic, total division; c13_support.rs), "
          "A = Hsv<Srgb, W>, B = Hwb<Srgb, W>, C = Hsl<Srgb, W> (all ArrayCast::Array = [W; 3]).")
UNWIND = 5
FULL = {"A": "Hsv<Srgb, W>", "B": "Hwb<Srgb, W>", "C": "Hsl<Srgb, W>"}
LENS = (0, 1, 2, 3)

HEADER = """use crate::c13_support::*;
use palette::convert::{FromColorUnclamped, FromColorUnclampedMut, IntoColorUnclamped, IntoColorUnclampedMut};
use palette::{cast, FromColor, FromColorMut, IntoColor, IntoColorMut};
"""

# conversion function names per guard kind
KIND = {
    "clamped": dict(conv="from_color", from_mut="from_color_mut", into_mut="into_color_mut", guard="FromColorMutGuard",
                    trait="FromColorMut", itrait="IntoColorMut", switch="into_unclamped_guard", other="clamped_to_unclamped"),
    "unclamped": dict(conv="from_color_unclamped", from_mut="from_color_unclamped_mut", into_mut="into_color_unclamped_mut",
                      guard="FromColorUnclampedMutGuard", trait="FromColorUnclampedMut", itrait="IntoColorUnclampedMut",
                      switch="into_clamped_guard", other="unclamped_to_clamped"),
}


class Form:
    """Code fragments for a slice buffer of concrete length n, or for the single-value `&mut T` form (n is None)."""

    def __init__(self, n):
        self.n = n
        self.single = n is None
        self.key = "single" if self.single else f"n{n}"
        self.text = "a single colour value (`&mut T` form)" if self.single else f"a slice of concrete length {n}"
        if n == 0:
            self.text = ("an empty slice (concrete length 0, taken in front of one arbitrary element that must stay untouched, so that "
                         "the slice has a real address)")
        self.bound = "single value, 3 symbolic i8 components" if self.single else \
            f"len = {n}, {3 * n} symbolic i8 components per buffer"

    def decl(self, name, ty):
        if self.single:
            return f"let {name}: {ty} = any_col();"
        return f"let {name}: [{ty}; {self.n}] = [{', '.join(['any_col()'] * self.n)}];"

    def buf(self, ty, src="orig"):
        if self.single:
            return f"let mut buf = {src};\nlet p0 = addr(&buf as *const {ty});"
        if self.n == 0:
            # an empty slice with a real address: a zero-sized local array has no stable address in Kani's memory model
            return (f"let mut store: [{ty}; 1] = [any_col()];\nlet keep = store[0];\n"
                    f"let buf: &mut [{ty}] = &mut store[..0];\nlet p0 = addr(buf.as_ptr());")
        return f"let mut buf = {src};\nlet p0 = addr(buf.as_ptr());"

    def end(self):
        """Closing statement: for the empty slice, the element behind it is untouched."""
        return "assert!(same(&store[0], &keep));" if self.n == 0 else ""

    def target(self, ty):
        return ty if self.single else f"[{ty}]"

    def bufref(self):
        return "&mut buf" if self.single else "&mut buf[..]"

    def same_place(self, g, ty):
        """The guard / reference `g` points at the original memory and has the original length."""
        if self.single:
            return f"assert!(addr(&*{g} as *const {ty}) == p0);"
        return f"assert!({g}.len() == {self.n} && addr({g}.as_ptr()) == p0);"

    def each(self, stmt):
        """stmt uses `X[i]` element syntax; the single form drops the index (guards / references are dereferenced)."""
        if self.single:
            out = re.sub(r"\b(g|g2|g3|g4|r)\[i\]", r"(*\1)", stmt)
            return re.sub(r"\b(orig|cur|buf)\[i\]", r"\1", out)
        return f"for i in 0..{self.n} {{ {stmt} }}"

    def raw_view(self):
        if self.single:
            return "let raw: &[W; 3] = cast::into_array_ref(&buf);\nassert!(addr(raw as *const [W; 3]) == p0);"
        return (f"let raw: &[[W; 3]] = cast::into_array_slice(&buf[..]);\n"
                f"assert!(raw.len() == {self.n} && addr(raw.as_ptr()) == p0);")

    def each_raw(self, stmt):
        if self.single:
            return stmt.replace("&raw[i]", "raw").replace("cur[i]", "cur").replace("orig[i]", "orig")
        return f"for i in 0..{self.n} {{ {stmt} }}"


FORMS = [Form(n) for n in LENS] + [Form(None)]


def j(*parts):
    return "\n".join(p for p in parts if p)


def gen():
    o = Out("c13_gen.rs", HEADER)
    gen_view(o)
    gen_step(o)
    gen_chain(o)
    gen_pairs(o)
    gen_owned(o)
    gen_alpha(o)
    gen_sanity(o)
    o.write()


# ---------------------------------------------------------------------------------------------------------------------
# (1) the guard shows the out-of-place conversion in the same memory; dropping the untouched guard converts back
def gen_view(o):
    for kind, K in KIND.items():
        for via in ("from", "into"):
            for f in FORMS:
                if via == "from":
                    make = f"<{f.target('B')}>::{K['from_mut']}({f.bufref()})"
                    fn = f"<{f.target(FULL['B'])} as {K['trait']}<{f.target(FULL['A'])}>>::{K['from_mut']}"
                else:
                    recv = "buf" if f.single else "buf[..]"
                    make = f"{K['itrait']}::<{f.target('B')}>::{K['into_mut']}(&mut {recv})"
                    fn = f"<{f.target(FULL['A'])} as {K['itrait']}<{f.target(FULL['B'])}>>::{K['into_mut']}"
                conv = K["conv"]
                body = j(
                    f.decl("orig", "A"),
                    f.buf("A"),
                    "kani::cover!(true);",
                    "{",
                    f"    let g = {make};",
                    "    " + f.same_place("g", "B"),
                    "    " + f.each(f"assert!(same(&g[i], &B::{conv}(orig[i])));"),
                    "}",
                    f.each(f"assert!(same(&buf[i], &A::{conv}(B::{conv}(orig[i]))));"),
                    f.end(),
                )
                o.harness(
                    f"c13_view_{kind}_{via}_{f.key}",
                    f"{K['from_mut'] if via == 'from' else K['into_mut']} on {f.text}: while the guard is alive, reading through Deref "
                    f"gives element for element exactly B::{conv}(a_i) of the original colours, at the original address and with the "
                    f"original length; dropping the unmodified guard leaves A::{conv}(B::{conv}(a_i)) in the buffer. {W_NOTE}",
                    body, [fn, f"<{K['guard']} as Deref>::deref", f"<{K['guard']} as Drop>::drop"],
                    f.bound + ", all values", unwind=UNWIND)


# ---------------------------------------------------------------------------------------------------------------------
# (2)+(3) one guard operation from an arbitrary live guard state
OPS = ("read", "write", "then_clamped", "then_unclamped", "switch", "restore", "drop", "forget")


def gen_step(o):
    for kind, K in KIND.items():
        conv = K["conv"]
        for op in OPS:
            for f in FORMS:
                if op == "write" and f.n == 0:
                    continue  # nothing to write in an empty slice; the other operations cover len 0
                pre, inner, post, fns, what = [], [], [], [], ""
                g = K["guard"]
                if op == "read":
                    inner = [f.same_place("g", "B"), f.each("assert!(same(&g[i], &cur[i]));")]
                    post = [f.each(f"assert!(same(&buf[i], &A::{conv}(cur[i])));")]
                    fns = [f"<{g} as Deref>::deref", f"<{g} as Drop>::drop"]
                    what = (f"reading through Deref returns the current contents at the original address/length, and the following drop "
                            f"leaves A::{conv}(b_i)")
                elif op == "write":
                    if f.single:
                        pre = ["let x: B = any_col();"]
                        inner = ["*g = x;", "assert!(same(&*g, &x));", f.same_place("g", "B")]
                        post = [f"assert!(same(&buf, &A::{conv}(x)));"]
                    else:
                        pre = ["let x: B = any_col();", "let k: usize = kani::any();", f"kani::assume(k < {f.n});"]
                        inner = ["g[k] = x;", f.same_place("g", "B"),
                                 f.each("let e = if i == k { x } else { cur[i] }; assert!(same(&g[i], &e));")]
                        post = [f.each(f"let e = if i == k {{ x }} else {{ cur[i] }}; assert!(same(&buf[i], &A::{conv}(e)));")]
                    fns = [f"<{g} as DerefMut>::deref_mut", f"<{g} as Deref>::deref", f"<{g} as Drop>::drop"]
                    what = (f"a write of an arbitrary colour through DerefMut (at an arbitrary index) is visible through Deref, leaves the "
                            f"other elements unchanged, and the following drop leaves A::{conv}(current b_i)")
                elif op in ("then_clamped", "then_unclamped"):
                    c2 = "from_color" if op == "then_clamped" else "from_color_unclamped"
                    m = "then_into_color_mut" if op == "then_clamped" else "then_into_color_unclamped_mut"
                    inner = [f"let g2 = g.{m}::<{f.target('C')}>();", f.same_place("g2", "C"),
                             f.each(f"assert!(same(&g2[i], &C::{c2}(cur[i])));")]
                    post = [f.each(f"assert!(same(&buf[i], &A::{c2}(C::{c2}(cur[i]))));")]
                    g2 = "FromColorMutGuard" if op == "then_clamped" else "FromColorUnclampedMutGuard"
                    fns = [f"{g}::{m}", f"<{g2} as Deref>::deref", f"<{g2} as Drop>::drop", f"<{g} as Drop>::drop (consumed guard)"]
                    what = (f"{m}::<C> replaces the guard by one that shows C::{c2}(b_i) in the same memory; dropping it restores directly "
                            f"to the original type, A::{c2}(c_i) (one step, the consumed guard does not convert a second time)")
                elif op == "switch":
                    c2 = "from_color_unclamped" if kind == "clamped" else "from_color"
                    g2 = "FromColorUnclampedMutGuard" if kind == "clamped" else "FromColorMutGuard"
                    inner = [f"let g2 = g.{K['switch']}();", f.same_place("g2", "B"), f.each("assert!(same(&g2[i], &cur[i]));")]
                    post = [f.each(f"assert!(same(&buf[i], &A::{c2}(cur[i])));")]
                    fns = [f"{g}::{K['switch']}", f"<{g2} as Deref>::deref", f"<{g2} as Drop>::drop", f"<{g} as Drop>::drop (consumed guard)"]
                    what = (f"{K['switch']} keeps the contents and the memory; dropping the new guard restores with A::{c2}(b_i) "
                            f"({'without' if kind == 'clamped' else 'with'} clamping), exactly once")
                elif op == "restore":
                    rt = "&mut A" if f.single else "&mut [A]"
                    inner = [f"let r: {rt} = g.restore();", f.same_place("r", "A"),
                             f.each(f"assert!(same(&r[i], &A::{conv}(cur[i])));")]
                    post = [f.each(f"assert!(same(&buf[i], &A::{conv}(cur[i])));")]
                    fns = [f"{g}::restore", f"<{g} as Drop>::drop (consumed guard)"]
                    what = (f"restore() returns the original reference (same address/length) holding A::{conv}(b_i), and the buffer still "
                            f"holds exactly that afterwards (the consumed guard's Drop does not convert again)")
                elif op == "drop":
                    inner = ["drop(g);"]
                    post = [f.each(f"assert!(same(&buf[i], &A::{conv}(cur[i])));")]
                    fns = [f"<{g} as Drop>::drop"]
                    what = f"drop leaves A::{conv}(b_i) in the buffer (the current contents converted back in one step)"
                elif op == "forget":
                    inner = ["core::mem::forget(g);"]
                    post = [f.raw_view(), f.each_raw("assert!(same_raw(&cur[i], &raw[i]));")]
                    fns = [f"{K['trait']}::{K['from_mut']}", "core::mem::forget(guard)",
                           "palette::cast::into_array_ref" if f.single else "palette::cast::into_array_slice"]
                    what = ("core::mem::forget(guard) leaves the converted state: the raw component view of the buffer (palette::cast) "
                            "holds exactly the components of the current b_i")
                body = j(
                    f.decl("orig", "A"),
                    f.decl("cur", "B"),
                    *pre,
                    f.buf("A"),
                    "kani::cover!(true);",
                    "{",
                    f"    let mut g = <{f.target('B')}>::{K['from_mut']}({f.bufref()});",
                    "    " + f.each("g[i] = cur[i];") + "  // arbitrary live guard state",
                    *["    " + l for l in inner],
                    "}",
                    *post,
                    f.end(),
                )
                o.harness(
                    f"c13_step_{kind}_{op}_{f.key}",
                    f"One guard operation from an arbitrary live {g}<B, A> state on {f.text} (guard built with {K['from_mut']} from arbitrary "
                    f"colours, then every element overwritten through DerefMut with an arbitrary colour b_i): {what}. {W_NOTE}",
                    body, list(dict.fromkeys([f"{K['trait']}::{K['from_mut']}", f"<{g} as DerefMut>::deref_mut"] + fns)),
                    f.bound + " (original and current contents), all values", unwind=UNWIND,
                    thorough=(op.startswith("then_") and f.n == 3))  # measured 19-43 s


# ---------------------------------------------------------------------------------------------------------------------
# (4) explicit chains
def gen_chain(o):
    # then_into chains: A -> B -> C -> B -> C (every then_into needs original, current and next type pairwise convertible)
    seq = ["B", "C", "B", "C"]
    flavours = {
        "clamped": ["c", "c", "c", "c"],
        "unclamped": ["u", "u", "u", "u"],
        "mixed": ["c", "u", "c", "u"],
    }
    cf = {"c": "from_color", "u": "from_color_unclamped"}
    for fl, modes in flavours.items():
        for depth in (2, 3, 4):
            for f in FORMS:
                if f.single and depth != 4:
                    continue
                lines = []
                exp = "orig[i]"
                names = []
                for d in range(depth):
                    ty, m = seq[d], modes[d]
                    exp = f"{ty}::{cf[m]}({exp})"
                    gname = {0: "g", 1: "g2", 2: "g3", 3: "g4"}[d]
                    if d == 0:
                        mk = "from_color_mut" if m == "c" else "from_color_unclamped_mut"
                        lines.append(f"let {gname} = <{f.target(ty)}>::{mk}({f.bufref()});")
                    else:
                        mk = "then_into_color_mut" if m == "c" else "then_into_color_unclamped_mut"
                        prev = {1: "g", 2: "g2", 3: "g3"}[d]
                        lines.append(f"let {gname} = {prev}.{mk}::<{f.target(ty)}>();")
                    lines.append(f.same_place(gname, ty))
                    lines.append(f.each(f"assert!(same(&{gname}[i], &{exp}));"))
                last = modes[depth - 1]
                back = f"A::{cf[last]}({exp})"
                body = j(
                    f.decl("orig", "A"),
                    f.buf("A"),
                    "kani::cover!(true);",
                    "{",
                    *["    " + l for l in lines],
                    "}",
                    f.each(f"assert!(same(&buf[i], &{back}));"),
                    f.end(),
                )
                path = " -> ".join(["A"] + [f"{t}({'clamped' if m == 'c' else 'unclamped'})" for t, m in zip(seq[:depth], modes[:depth])])
                o.harness(
                    f"c13_chain_then_{fl}_d{depth}_{f.key}",
                    f"Chain of {depth} in-place conversions {path} on {f.text}, built with from_color(_unclamped)_mut followed by "
                    f"then_into_color(_unclamped)_mut: after every step the guard shows, in the original memory, the step-by-step out-of-place "
                    f"conversion of the original colours; dropping the outermost (only live) guard restores directly to the original type in "
                    f"one step, A::{cf[last]}(last contents), and none of the consumed guards converts again. {W_NOTE}",
                    body,
                    ["FromColorMutGuard::then_into_color_mut", "FromColorMutGuard::then_into_color_unclamped_mut",
                     "FromColorUnclampedMutGuard::then_into_color_mut", "FromColorUnclampedMutGuard::then_into_color_unclamped_mut",
                     "FromColorMut::from_color_mut", "FromColorUnclampedMut::from_color_unclamped_mut", "Drop for both guard types"],
                    f"chain depth {depth}, " + f.bound + ", all values", unwind=UNWIND,
                    # measured: unclamped chains keep the full 8-bit range through mul/div (23-151 s for len >= 2)
                    # quick tier: len 0 and 1 (all depths), the single-value form and len 2 at depth 4; the rest measured 10-151 s
                    thorough=(fl == "unclamped" and (f.single or f.n >= 2 or (f.n == 1 and depth == 3)))
                    or f.n == 3 or (f.n == 2 and depth < 4))

    # nested guards (each borrowed from the previous through DerefMut): restores step by step in reverse order
    nseq = ["B", "C", "A", "B"]
    for kind, K in KIND.items():
        conv = K["conv"]
        for depth in (2, 3, 4):
            for f in FORMS:
                if f.single and depth != 4:
                    continue
                exp = "orig[i]"
                opens, closes = [], []
                for d in range(depth):
                    ty = nseq[d]
                    exp = f"{ty}::{conv}({exp})"
                    gname = {0: "g", 1: "g2", 2: "g3", 3: "g4"}[d]
                    src = f.bufref() if d == 0 else "&mut *" + {1: "g", 2: "g2", 3: "g3"}[d]
                    ind = "    " * (d + 1)
                    opens.append(f"{ind}let mut {gname} = <{f.target(ty)}>::{K['from_mut']}({src});")
                    opens.append(ind + f.same_place(gname, ty))
                    opens.append(ind + f.each(f"assert!(same(&{gname}[i], &{exp}));"))
                    if d < depth - 1:
                        opens.append(ind + "{")
                # after the inner guards are dropped, each outer guard shows the stepwise restored value
                tys = ["A"] + nseq[:depth]
                back = exp
                for d in range(depth - 1, 0, -1):
                    back = f"{tys[d]}::{conv}({back})"
                    gname = {0: "g", 1: "g2", 2: "g3"}[d - 1]
                    ind = "    " * d
                    closes.append(ind + "}")
                    closes.append(ind + f.each(f"assert!(same(&{gname}[i], &{back}));"))
                back = f"A::{conv}({back})"
                body = j(
                    f.decl("orig", "A"),
                    f.buf("A"),
                    "kani::cover!(true);",
                    "{",
                    *opens,
                    *closes,
                    "}",
                    f.each(f"assert!(same(&buf[i], &{back}));"),
                    f.end(),
                )
                path = " -> ".join(tys)
                o.harness(
                    f"c13_chain_nested_{kind}_d{depth}_{f.key}",
                    f"Chain of {depth} nested in-place conversions {path} on {f.text}: every further guard is created with {K['from_mut']} from "
                    f"the previous guard's DerefMut view. Each guard shows the step-by-step out-of-place conversion in the original memory; "
                    f"when the guards are dropped innermost first, every enclosing guard sees the previous level converted back in one step, "
                    f"and the buffer finally holds the original type, equal to converting back step by step ({' -> '.join(reversed(tys))}). "
                    f"{W_NOTE}",
                    body, [f"{K['trait']}::{K['from_mut']}", f"<{K['guard']} as DerefMut>::deref_mut", f"<{K['guard']} as Deref>::deref",
                           f"<{K['guard']} as Drop>::drop"],
                    f"chain depth {depth}, " + f.bound + ", all values", unwind=UNWIND,
                    # measured: clamped 15-47 s, unclamped 35-398 s for the cases below
                    thorough=(f.n == 3 or (f.n == 2 and depth >= 3)) if kind == "clamped" else
                             not (f.n == 0 or (f.n == 1 and depth == 2)))


# ---------------------------------------------------------------------------------------------------------------------
# all ordered pairs of the three layout-compatible types (length 2)
def gen_pairs(o):
    f = Form(2)
    for kind, K in KIND.items():
        conv = K["conv"]
        for t in "ABC":
            for u in "ABC":
                if t == u or (t, u) == ("A", "B"):
                    continue  # A -> B is the pair of the view/step harnesses
                body = j(
                    f.decl("orig", t),
                    f.buf(t),
                    "kani::cover!(true);",
                    "{",
                    f"    let g = <[{u}]>::{K['from_mut']}(&mut buf[..]);",
                    "    " + f.same_place("g", u),
                    "    " + f.each(f"assert!(same(&g[i], &{u}::{conv}(orig[i])));"),
                    "}",
                    f.each(f"assert!(same(&buf[i], &{t}::{conv}({u}::{conv}(orig[i]))));"),
                )
                o.harness(
                    f"c13_pair_{kind}_{t.lower()}_to_{u.lower()}_n2",
                    f"Ordered pair {t} -> {u} ({FULL[t]} -> {FULL[u]}), {K['from_mut']} on a slice of length 2: the guard shows "
                    f"{u}::{conv}(t_i) at the original address/length, dropping it leaves {t}::{conv}({u}::{conv}(t_i)). {W_NOTE}",
                    body, [f"<[{FULL[u]}] as {K['trait']}<[{FULL[t]}]>>::{K['from_mut']}", f"<{K['guard']} as Drop>::drop"],
                    f.bound + ", all values", unwind=UNWIND)


# ---------------------------------------------------------------------------------------------------------------------
# (5) Vec / Box<[T]> in place, cast::map_vec_in_place / map_slice_box_in_place
def gen_owned(o):
    for n in LENS:
        elems = ", ".join(["any_col()"] * n)
        decl = f"let orig: [A; {n}] = [{elems}];"
        loop = lambda s: f"for i in 0..{n} {{ {s} }}"
        for conv, tr in (("from_color", "FromColor"), ("from_color_unclamped", "FromColorUnclamped")):
            # Vec with spare capacity
            body = j(
                decl,
                f"let mut v: Vec<A> = Vec::with_capacity({n + 2});",
                loop("v.push(orig[i]);"),
                "let (p0, cap0) = (addr(v.as_ptr()), v.capacity());",
                "kani::cover!(true);",
                f"let out: Vec<B> = Vec::<B>::{conv}(v);",
                f"assert!(addr(out.as_ptr()) == p0 && out.len() == {n} && out.capacity() == cap0);",
                loop(f"assert!(same(&out[i], &B::{conv}(orig[i])));"),
            )
            o.harness(
                f"c13_vec_{conv}_n{n}",
                f"Vec::<B>::{conv}(Vec<A>) with {n} element(s) and capacity {n + 2}: the result reuses the allocation (same pointer, length "
                f"and capacity) and holds element for element B::{conv}(a_i); the reinterpreted Vec<B> is dropped normally at the end "
                f"(CBMC pointer/deallocation checks). {W_NOTE}",
                body, [f"<Vec<{FULL['B']}> as {tr}<Vec<{FULL['A']}>>>::{conv}", "palette::cast::map_vec_in_place",
                       "palette::cast::into_array_vec", "palette::cast::from_array_vec"],
                f"len = {n}, capacity = {n + 2}, {3 * n} symbolic i8 components, all values", unwind=UNWIND)
            # Box<[T]>
            body = j(
                decl,
                "let b: Box<[A]> = Box::new(orig);",
                "let p0 = addr(b.as_ptr());",
                "kani::cover!(true);",
                f"let out: Box<[B]> = Box::<[B]>::{conv}(b);",
                f"assert!(addr(out.as_ptr()) == p0 && out.len() == {n});",
                loop(f"assert!(same(&out[i], &B::{conv}(orig[i])));"),
            )
            o.harness(
                f"c13_box_{conv}_n{n}",
                f"Box::<[B]>::{conv}(Box<[A]>) with {n} element(s): the result reuses the allocation (same pointer and length) and holds "
                f"element for element B::{conv}(a_i); the reinterpreted box is dropped normally at the end. {W_NOTE}",
                body, [f"<Box<[{FULL['B']}]> as {tr}<Box<[{FULL['A']}]>>>::{conv}", "palette::cast::map_slice_box_in_place",
                       "palette::cast::into_array_slice_box", "palette::cast::from_array_slice_box"],
                f"len = {n}, {3 * n} symbolic i8 components, all values", unwind=UNWIND)
        # map_*_in_place with a stateful closure: every element is mapped exactly once, in order
        closure = ("let mut calls: usize = 0;\n"
                   "let map = |a: A| -> C { let c = C::mk(W(calls as i8), a.saturation, a.hue.into_inner()); calls += 1; c };")
        check = loop("assert!(out[i].raw() == (i as i8, orig[i].saturation.0, orig[i].hue.into_inner().0));")
        body = j(
            decl,
            f"let mut v: Vec<A> = Vec::with_capacity({n + 1});",
            loop("v.push(orig[i]);"),
            "let (p0, cap0) = (addr(v.as_ptr()), v.capacity());",
            "kani::cover!(true);",
            closure,
            "let out: Vec<C> = cast::map_vec_in_place(v, map);",
            f"assert!(calls == {n});",
            f"assert!(addr(out.as_ptr()) == p0 && out.len() == {n} && out.capacity() == cap0);",
            check,
        )
        o.harness(
            f"c13_map_vec_in_place_n{n}",
            f"cast::map_vec_in_place(Vec<A>, closure) with {n} element(s), capacity {n + 1} and a stateful FnMut closure (records its call "
            f"index in the result): the closure is called exactly once per element in order, with the original element, and the result "
            f"reuses the allocation (same pointer, length, capacity). {W_NOTE}",
            body, ["palette::cast::map_vec_in_place", "palette::cast::into_array_vec", "palette::cast::from_array_vec"],
            f"len = {n}, capacity = {n + 1}, {3 * n} symbolic i8 components, all values; non-panicking closure", unwind=UNWIND)
        body = j(
            decl,
            "let b: Box<[A]> = Box::new(orig);",
            "let p0 = addr(b.as_ptr());",
            "kani::cover!(true);",
            closure,
            "let out: Box<[C]> = cast::map_slice_box_in_place(b, map);",
            f"assert!(calls == {n});",
            f"assert!(addr(out.as_ptr()) == p0 && out.len() == {n});",
            check,
        )
        o.harness(
            f"c13_map_slice_box_in_place_n{n}",
            f"cast::map_slice_box_in_place(Box<[A]>, closure) with {n} element(s) and a stateful FnMut closure (records its call index in "
            f"the result): the closure is called exactly once per element in order, with the original element, and the result reuses the "
            f"allocation (same pointer and length). {W_NOTE}",
            body, ["palette::cast::map_slice_box_in_place", "palette::cast::into_array_slice_box", "palette::cast::from_array_slice_box"],
            f"len = {n}, {3 * n} symbolic i8 components, all values; non-panicking closure", unwind=UNWIND)
    # a never-allocated Vec (dangling pointer, capacity 0) and IntoColor on a Vec
    o.harness(
        "c13_vec_from_color_unallocated",
        f"Vec::<B>::from_color / from_color_unclamped of Vec::new() (capacity 0, dangling pointer, nothing allocated): the result is empty "
        f"with capacity 0 and the same pointer, and dropping it does not free anything. {W_NOTE}",
        j("let v: Vec<A> = Vec::new();",
          "let p0 = addr(v.as_ptr());",
          "kani::cover!(true);",
          "let out: Vec<B> = Vec::<B>::from_color(v);",
          "assert!(addr(out.as_ptr()) == p0 && out.len() == 0 && out.capacity() == 0);",
          "let back: Vec<A> = Vec::<A>::from_color_unclamped(out);",
          "assert!(addr(back.as_ptr()) == p0 && back.len() == 0 && back.capacity() == 0);"),
        ["<Vec<U> as FromColor<Vec<T>>>::from_color", "<Vec<U> as FromColorUnclamped<Vec<T>>>::from_color_unclamped",
         "palette::cast::map_vec_in_place"],
        "len = 0, capacity = 0", unwind=UNWIND)
    o.harness(
        "c13_vec_into_color_roundtrip_n2",
        f"IntoColor / IntoColorUnclamped on owned buffers of length 2, two conversions in a row (Vec<A> -> Vec<B> -> Vec<C>, "
        f"Box<[A]> -> Box<[C]> -> Box<[B]>): same allocation throughout, contents equal to the step-by-step out-of-place conversion. {W_NOTE}",
        j("let orig: [A; 2] = [any_col(), any_col()];",
          "let v: Vec<A> = Vec::from(orig);",
          "let b: Box<[A]> = Box::new(orig);",
          "let (pv, cap0, pb) = (addr(v.as_ptr()), v.capacity(), addr(b.as_ptr()));",
          "kani::cover!(true);",
          "let v1: Vec<B> = v.into_color();",
          "let v2: Vec<C> = v1.into_color_unclamped();",
          "assert!(addr(v2.as_ptr()) == pv && v2.len() == 2 && v2.capacity() == cap0);",
          "for i in 0..2 { assert!(same(&v2[i], &C::from_color_unclamped(B::from_color(orig[i])))); }",
          "let b1: Box<[C]> = b.into_color_unclamped();",
          "let b2: Box<[B]> = b1.into_color();",
          "assert!(addr(b2.as_ptr()) == pb && b2.len() == 2);",
          "for i in 0..2 { assert!(same(&b2[i], &B::from_color(C::from_color_unclamped(orig[i])))); }"),
        ["<Vec<T> as IntoColor<Vec<U>>>::into_color", "<Vec<T> as IntoColorUnclamped<Vec<U>>>::into_color_unclamped",
         "<Box<[T]> as IntoColor<Box<[U]>>>::into_color", "<Box<[T]> as IntoColorUnclamped<Box<[U]>>>::into_color_unclamped"],
        "len = 2, 6 symbolic i8 components, all values", unwind=UNWIND)


# ---------------------------------------------------------------------------------------------------------------------
# a second layout class: transparent colours, ArrayCast::Array = [W; 4]
def gen_alpha(o):
    note = ("Component type: the harness wrapping-integer type W (wrapping i8 arithmetic, total division; c13_support.rs), "
            "Aa = Alpha<Hsv<Srgb, W>, W>, Ba = Alpha<Hwb<Srgb, W>, W> (both ArrayCast::Array = [W; 4]).")
    for kind, K in KIND.items():
        conv = K["conv"]
        o.harness(
            f"c13_alpha_view_{kind}_n2",
            f"Four-component layout: {K['from_mut']} from [Alpha<Hsv>] to [Alpha<Hwb>] on a slice of concrete length 2: the guard shows "
            f"Ba::{conv}(a_i) (colour converted, alpha carried over{' and clamped' if kind == 'clamped' else ''}) at the original "
            f"address/length; after an arbitrary overwrite of both elements through DerefMut, dropping the guard leaves Aa::{conv}(b_i). {note}",
            j("let orig: [Aa; 2] = [any_alpha(), any_alpha()];",
              "let cur: [Ba; 2] = [any_alpha(), any_alpha()];",
              "let mut buf = orig;",
              "let p0 = addr(buf.as_ptr());",
              "kani::cover!(true);",
              "{",
              f"    let mut g = <[Ba]>::{K['from_mut']}(&mut buf[..]);",
              "    assert!(g.len() == 2 && addr(g.as_ptr()) == p0);",
              f"    for i in 0..2 {{ assert!(same_alpha(&g[i], &Ba::{conv}(orig[i]))); }}",
              "    for i in 0..2 { g[i] = cur[i]; }",
              "}",
              f"for i in 0..2 {{ assert!(same_alpha(&buf[i], &Aa::{conv}(cur[i]))); }}"),
            [f"<[Alpha<Hwb<Srgb, W>, W>] as {K['trait']}<[Alpha<Hsv<Srgb, W>, W>]>>::{K['from_mut']}",
             f"<{K['guard']} as Deref>::deref", f"<{K['guard']} as DerefMut>::deref_mut", f"<{K['guard']} as Drop>::drop"],
            "len = 2, 8 symbolic i8 components per buffer (original and current contents), all values", unwind=UNWIND)
    o.harness(
        "c13_alpha_vec_from_color_n2",
        f"Four-component layout: Vec::<Alpha<Hwb>>::from_color(Vec<Alpha<Hsv>>) with 2 elements and capacity 3: same pointer, length and "
        f"capacity, element for element Ba::from_color(a_i); the reinterpreted Vec is dropped normally at the end. {note}",
        j("let orig: [Aa; 2] = [any_alpha(), any_alpha()];",
          "let mut v: Vec<Aa> = Vec::with_capacity(3);",
          "for i in 0..2 { v.push(orig[i]); }",
          "let (p0, cap0) = (addr(v.as_ptr()), v.capacity());",
          "kani::cover!(true);",
          "let out: Vec<Ba> = Vec::<Ba>::from_color(v);",
          "assert!(addr(out.as_ptr()) == p0 && out.len() == 2 && out.capacity() == cap0);",
          "for i in 0..2 { assert!(same_alpha(&out[i], &Ba::from_color(orig[i]))); }"),
        ["<Vec<Alpha<Hwb<Srgb, W>, W>> as FromColor<Vec<Alpha<Hsv<Srgb, W>, W>>>>::from_color", "palette::cast::map_vec_in_place"],
        "len = 2, capacity = 3, 8 symbolic i8 components, all values", unwind=UNWIND)


# ---------------------------------------------------------------------------------------------------------------------
# the harness component type makes the asserted relations discriminating (reachability witnesses only)
def gen_sanity(o):
    o.harness(
        "c13_sanity_conversions_distinguishable",
        "Non-vacuity of the C13 relations over the harness wrapping-integer type W: there are colours for which (a) converting A -> B -> A "
        "does not give back the original, (b) the clamped and the unclamped conversion differ (both directions), (c) restoring twice "
        "(a consumed guard converting the already restored memory again, i.e. reinterpreting the restored A as B) differs from "
        "restoring once, clamped and unclamped, (d) restoring directly from C differs from restoring through B, (e) a converted colour's "
        "components differ from the source's (a missing conversion is a visible reinterpretation), (f) the conversions of two "
        "different elements differ (a mixed-up index is visible). Hence a guard that skipped, repeated or mis-routed a conversion "
        "would violate the other harnesses' assertions. Cover statements only (each must be satisfiable). " + W_NOTE,
        j("let a: A = any_col();",
          "let a2: A = any_col();",
          "let b: B = any_col();",
          "let c: C = any_col();",
          "kani::cover!(!same(&A::from_color_unclamped(B::from_color_unclamped(a)), &a));",
          "kani::cover!(!same(&A::from_color(B::from_color(a)), &a));",
          "kani::cover!(!same(&B::from_color(a), &B::from_color_unclamped(a)));",
          "kani::cover!(!same(&A::from_color(b), &A::from_color_unclamped(b)));",
          "let r1 = A::from_color(b);",
          "let (h, x, y) = r1.raw();",
          "kani::cover!(!same(&A::from_color(B::mk(W(h), W(x), W(y))), &r1));",
          "let r2 = A::from_color_unclamped(b);",
          "let (h, x, y) = r2.raw();",
          "kani::cover!(!same(&A::from_color_unclamped(B::mk(W(h), W(x), W(y))), &r2));",
          "kani::cover!(!same(&A::from_color(c), &A::from_color(B::from_color(c))));",
          "kani::cover!(!same(&A::from_color_unclamped(c), &A::from_color_unclamped(B::from_color_unclamped(c))));",
          "kani::cover!(B::from_color(a).raw() != a.raw());",
          "kani::cover!(B::from_color_unclamped(a).raw() != a.raw());",
          "kani::cover!(C::from_color(b).raw() != b.raw());",
          "kani::cover!(!same(&B::from_color(a), &B::from_color(a2)));"),
        ["FromColorUnclamped between Hsv, Hwb, Hsl over W", "Clamp for Hsv, Hwb, Hsl over W"],
        "12 symbolic i8 components, all values", unwind=UNWIND)
