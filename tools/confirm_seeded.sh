#!/bin/sh
# tools/confirm_seeded.sh <name>  - independent confirmation of a seeded change in a scratch worktree (outside /repo, /verif):
#   the patch applies, the crate builds and the whole existing suite passes with it, the demonstration fails with it and
#   passes on the unchanged tree. Appends the outcome to seeded/<name>/meta.json ("ran").
set -u
N=$1; S=/verif/seeded/$N; WT=/tmp/confirm_wt; T=/tmp/confirm_target; D=/tmp/confirm_demo
git -C /repo worktree remove --force $WT 2>/dev/null; rm -rf $WT $D
git -C /repo worktree add --detach $WT HEAD >/dev/null 2>&1 || exit 3
git -C $WT apply $S/patch.diff || { echo "APPLY FAILED"; exit 3; }
(cd $WT && CARGO_TARGET_DIR=$T cargo test --workspace --no-fail-fast --offline > /tmp/confirm_test.log 2>&1); TRC=$?
PASSED=$(grep -E "^test result" /tmp/confirm_test.log | awk '{p+=$4; f+=$6} END {print p" passed, "f" failed"}')
cp -r $S/demo $D
find $D -name Cargo.toml | while read f; do sed -i -E "s#path *= *\"[^\"]*palette\"#path = \"$WT/palette\"#" "$f"; done
DM=$(find $D -name Cargo.toml | head -1 | xargs dirname)
cp /repo/Cargo.lock $DM/ 2>/dev/null
(cd $DM && CARGO_TARGET_DIR=/tmp/confirm_dtarget cargo run --offline -q > /tmp/confirm_demo_mut.log 2>&1); MRC=$?
find $D -name Cargo.toml | while read f; do sed -i -E "s#path *= *\"[^\"]*palette\"#path = \"/repo/palette\"#" "$f"; done
(cd $DM && CARGO_TARGET_DIR=/tmp/confirm_dtarget cargo run --offline -q > /tmp/confirm_demo_orig.log 2>&1); ORC=$?
git -C /repo worktree remove --force $WT; rm -rf $D /tmp/confirm_dtarget
echo "$N: suite exit=$TRC ($PASSED); demo with change exit=$MRC; demo on unchanged tree exit=$ORC"
python3 - "$S/meta.json" "$TRC" "$PASSED" "$MRC" "$ORC" <<'PY'
import json, sys
p, trc, passed, mrc, orc = sys.argv[1:6]
m = json.load(open(p))
m["confirmed_by_main_session"] = {"scratch_worktree": "/tmp/confirm_wt (removed)", "suite_with_change": f"cargo test --workspace --no-fail-fast --offline: exit {trc}, {passed}",
    "demo_with_change_exit": int(mrc), "demo_unchanged_exit": int(orc), "ok": trc == "0" and mrc != "0" and orc == "0"}
json.dump(m, open(p, "w"), indent=1)
PY
