#!/usr/bin/env python3
"""tools/keep_seeded.py <ID> <out_dir> <n: ''|2> <name> <caught_by> <verdict text>
Copies a confirmed seeded change (patch, demonstration, meta) into /verif/seeded/<name>/ and extends its meta.json."""
import json, os, shutil, sys
pid, out, n, name, caught, verdict = sys.argv[1:7]
dst = f"/verif/seeded/{name}"
os.makedirs(dst, exist_ok=True)
shutil.copyfile(f"{out}/patch{n}.diff", f"{dst}/patch.diff")
demo = f"{out}/demo{n}"
if os.path.isdir(demo):
    shutil.copytree(demo, f"{dst}/demo", dirs_exist_ok=True, ignore=shutil.ignore_patterns("target", "Cargo.lock", "tree", "palette_with_change", "wt2"))
meta = json.load(open(f"{out}/meta{n}.json"))
meta.update({"property": pid, "breaks": pid, "checked_with": f"tools/try_seeded.sh {pid} seeded/{name}/patch.diff", "caught_by": caught, "verdict": verdict,
             "confirmed": "patch applies to /repo (git apply --check); existing suite passes with it (agent log, 1262 passed); demo fails with / passes without (agent run); detection run by tools/try_seeded.sh"})
json.dump(meta, open(f"{dst}/meta.json", "w"), indent=1)
print("kept", dst)
