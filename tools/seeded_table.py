#!/usr/bin/env python3
"""tools/seeded_table.py - markdown table of the kept seeded changes (seeded/*/meta.json) for DESIGN.md section 9.7."""
import glob, json, os
print("| seeded change | what it breaks (one line) | caught by | history |")
print("|---|---|---|---|")
for p in sorted(glob.glob(os.path.join(os.path.dirname(os.path.dirname(os.path.abspath(__file__))), "seeded", "*", "meta.json"))):
    m = json.load(open(p))
    name = os.path.basename(os.path.dirname(p))
    summ = " ".join(m.get("summary", "").split())
    if len(summ) > 170:
        summ = summ[:167] + "..."
    print(f"| `{name}` | {summ.replace('|', '/')} | {m.get('caught_by', '').replace('|', '/')} | {m.get('verdict', '').replace('|', '/')} |")
