#!/bin/sh
# tools/run_tier_all.sh <quick|thorough> [IDs...]  - runs the registered command of the tier for every (or the listed) property,
# one after the other, and prints one verdict line per property (exit code, obligations, wall time).
TIER=${1:-quick}; shift
IDS=${*:-C01 C02 C03 C04 C05 C06 C07 C08 C09 C10 C11 C12 C13 C14 C15 C16 C17 C18 C19 C20}
cd "$(dirname "$0")/.."
for P in $IDS; do
  OUT=$(./check "$P" --tier "$TIER" ${PV_NO_EVIDENCE:+--no-evidence} 2>&1); RC=$?
  echo "$OUT" | grep -E "^(VIOLATION|INCONCLUSIVE|KNOWN-FINDING)" | cut -c1-260
  echo "$OUT" | grep -E "^C[0-9][0-9] \[" | sed "s/^/exit=$RC  /"
done
