#!/bin/sh
# tools/try_seeded.sh <PROPERTY> <patch.diff> [quick|thorough] [--only ...]
# Runs the property's check against a scratch worktree of /repo with a seeded change applied (PV_REPO points the harness
# crates at the worktree; /repo itself is not touched). Worktree and its build output are removed afterwards.
set -u
P=$1; PATCH=$2; TIER=${3:-quick}; shift 3 2>/dev/null || shift $#
TAG=$(echo "$P-$PATCH" | md5sum | cut -c1-8)
WT=/tmp/seed_$TAG
cd /verif
git -C /repo worktree remove --force $WT 2>/dev/null; rm -rf $WT
git -C /repo worktree add --detach $WT HEAD >/dev/null 2>&1 || exit 3
git -C $WT apply "$PATCH" || { echo "patch does not apply"; git -C /repo worktree remove --force $WT; exit 3; }
OUT=.build/seeded_${P}_$TAG.txt
PV_REPO=$WT PV_MAX_REPLAYS=${PV_MAX_REPLAYS:-3} timeout 3000 ./check "$P" --tier "$TIER" --no-evidence "$@" > "$OUT" 2>&1
RC=$?
git -C /repo worktree remove --force $WT

H=$(python3 -c "import hashlib;print(hashlib.sha1('$WT'.encode()).hexdigest()[:8])"); rm -rf /verif/.build/alt_$H
grep -E "^(VIOLATION|INCONCLUSIVE|KNOWN|C[0-9][0-9] \[)" "$OUT" | cut -c1-220 | head -6
echo "exit=$RC"
