#!/bin/sh
# tools/try_seeded.sh <PROPERTY> <patch.diff> [quick|thorough] [--only ...]
# Applies a seeded change to /repo, runs the property's check, and reverts /repo straight afterwards.
set -u
P=$1; PATCH=$2; TIER=${3:-quick}; shift 3 2>/dev/null || shift $#
cd /verif
git -C /repo diff --quiet || { echo "/repo working tree is not clean"; exit 3; }
git -C /repo apply "$PATCH" || { echo "patch does not apply"; exit 3; }
PV_MAX_REPLAYS=2 timeout 3000 ./check "$P" --tier "$TIER" --no-evidence "$@" > ".build/seeded_$P.txt" 2>&1
RC=$?
git -C /repo checkout -- .
git -C /repo status --short | grep -v '^??' | head -3
grep -E "^(VIOLATION|INCONCLUSIVE|KNOWN|C[0-9][0-9] \[)" ".build/seeded_$P.txt" | cut -c1-220 | head -8
echo "exit=$RC"
