#!/bin/sh
# Offline setup after a fresh restore: pre-builds the Kani harness crate's dependency graph (palette from /repo)
# so that the first check does not pay for it.  Everything is rebuilt from /repo's working tree by every check anyway.
set -e
cd "$(dirname "$0")"
export CARGO_NET_OFFLINE=true
./check C06 --only c06_u8_u16_ends --no-evidence >/dev/null 2>&1 || true
if [ -d symx ]; then (CARGO_TARGET_DIR="$PWD/.build/symx" cargo build --release --offline --manifest-path symx/Cargo.toml >/dev/null 2>&1) || true; fi
echo setup done
